(** C14, call sites: TimeSeries.downsample (timeseries.py -> stats.downsample_1d -> kernels.downsample_1d_mean / NumPy median)
    and FilterbankBlock.downsample (block.py -> stats.downsample_2d), composed from the regenerated call-site definitions of
    Gen/C14_stats.v, equal the definition "aggregate of each consecutive full group, incomplete remainder dropped". *)
From Coq Require Import ZArith List Bool Lia ZifyBool.
Require Import SPP.Base.Rt SPP.Base.Iter SPP.Gen.Kernels SPP.Gen.C14_stats SPP.Model.C14_filters SPP.Proofs.C14_decimate.
Import ListNotations.
Open Scope Z_scope.
Ltac Zify.zify_post_hook ::= Z.to_euclidean_division_equations.

(** * TimeSeries.downsample *)

(** what the regenerated call site says: the shortcut is taken exactly for factor 1 and the factor is handed on unchanged *)
Lemma ts_callsite f : ts_downsample_returns_self f = (f =? 1) /\ ts_downsample_factor_arg f = f.
Proof. split; reflexivity. Qed.

(** accepted exactly for 1 <= factor <= nsamples (factor 1 is never handed to the wrapper, which would accept it too) *)
Lemma ts_downsample_accepts n f : 1 <= n -> (ts_downsample_rejects n f = false <-> 1 <= f <= n).
Proof. intros Hn. unfold ts_downsample_rejects, ds1_rejects. destruct (ts_callsite f) as [-> ->].
  destruct (f =? 1) eqn:E; lia. Qed.

(** mean: for every accepted factor, entry k < nsamples / factor of the returned data is divcast(sum of group k, factor);
    the shortcut for factor 1 agrees with the definition because the mean of one sample is that sample *)
Lemma ts_downsample_mean_spec divcast n junk x f : (forall t, divcast t 1 = t) -> 1 <= f <= n ->
  ts_downsample_rejects n f = false /\ ts_downsample_len n f = n / f /\
  (forall k, 0 <= k < n / f -> ts_downsample_mean_model divcast n junk x f k = divcast (sumZ (group1 x f k)) f) /\
  (f <> 1 -> forall k, ~ 0 <= k < n / f -> ts_downsample_mean_model divcast n junk x f k = junk k).
Proof. intros H1 Hf. split; [apply ts_downsample_accepts; lia|].
  unfold ts_downsample_mean_model, ts_downsample_len. destruct (ts_callsite f) as [-> ->].
  destruct (f =? 1) eqn:E.
  - assert (f = 1) as -> by lia. rewrite Z.div_1_r. split; [reflexivity|]. split; [|lia].
    intros k Hk. rewrite group1_factor1. cbn. rewrite Z.add_0_r. symmetry. apply H1.
  - destruct (ds1_median_spec (fun _ => 0) x n f) as [-> _]; try lia. split; [reflexivity|].
    destruct (ds1_mean_call_spec divcast n junk x f) as [_ S]; [unfold ds1_rejects; lia | lia |].
    split; [intros k Hk | intros _ k Hk]; rewrite S.
    + replace ((0 <=? k) && (k <? n / f)) with true by lia. reflexivity.
    + replace ((0 <=? k) && (k <? n / f)) with false by lia. reflexivity. Qed.

(** median (any aggregate that maps a one-sample group to that sample): length nsamples / factor, entry i the aggregate of group i *)
Lemma ts_downsample_median_spec agg n x f : (forall v, agg [v] = v) -> 1 <= f <= n ->
  ts_downsample_len n f = n / f /\
  forall i, ts_downsample_median_model agg x n f i = agg (group1 x f i).
Proof. intros H1 Hf. unfold ts_downsample_median_model, ts_downsample_len. destruct (ts_callsite f) as [-> ->].
  destruct (f =? 1) eqn:E.
  - assert (f = 1) as -> by lia. rewrite Z.div_1_r. split; [reflexivity|]. intro i. rewrite group1_factor1. symmetry. apply H1.
  - destruct (ds1_median_spec agg x n f) as [-> S]; try lia. split; [reflexivity|]. exact S. Qed.

(** the incomplete last group x[(n/f) f ..] cannot influence any entry of the result (both methods) *)
Lemma ts_downsample_ignores_remainder divcast agg n junk x x' f : (forall t, divcast t 1 = t) -> (forall v, agg [v] = v) -> 1 <= f <= n ->
  (forall t, 0 <= t < n / f * f -> x t = x' t) ->
  forall k, 0 <= k < n / f ->
    ts_downsample_mean_model divcast n junk x f k = ts_downsample_mean_model divcast n junk x' f k /\
    ts_downsample_median_model agg x n f k = ts_downsample_median_model agg x' n f k.
Proof. intros Hd Ha Hf E k Hk.
  destruct (ts_downsample_mean_spec divcast n junk x f Hd Hf) as [_ [_ [S _]]].
  destruct (ts_downsample_mean_spec divcast n junk x' f Hd Hf) as [_ [_ [S' _]]].
  destruct (ts_downsample_median_spec agg n x f Ha Hf) as [_ M].
  destruct (ts_downsample_median_spec agg n x' f Ha Hf) as [_ M'].
  rewrite S, S', M, M' by assumption.
  rewrite (group1_ext x x' f k (n / f * f)); auto; try lia. nia. Qed.

(** factor 1 is the identity on the data, for every length *)
Lemma ts_downsample_factor1 divcast agg n junk x : 
  ts_downsample_len n 1 = n /\
  (forall k, ts_downsample_mean_model divcast n junk x 1 k = x k) /\
  (forall k, ts_downsample_median_model agg x n 1 k = x k).
Proof. repeat split. Qed.

(** * FilterbankBlock.downsample: shape of the result and the dropped remainder *)
Lemma block_downsample_shape nchans nsamps ff tf :
  (let '(f1, f2) := block_downsample_factors ff tf in
   let '(s0, _, s2, _) := ds2_shape nchans nsamps f1 f2 in (s0, s2)) = (nchans / ff, nsamps / tf).
Proof. reflexivity. Qed.

(** rows >= (nchans/ff) ff and columns >= (nsamps/tf) tf of the block are never used *)
Lemma block_downsample_ignores_remainder agg x x' nchans nsamps ff tf i j : 1 <= ff -> 1 <= tf -> 0 <= nsamps ->
  0 <= i < nchans / ff -> 0 <= j < nsamps / tf ->
  (forall r c, 0 <= r < nchans / ff * ff -> 0 <= c < nsamps / tf * tf -> x (nsamps * r + c) = x' (nsamps * r + c)) ->
  block_downsample_model agg x nchans nsamps ff tf i j = block_downsample_model agg x' nchans nsamps ff tf i j.
Proof. intros H1 H2 Hn Hi Hj E. rewrite !block_downsample_spec by lia. f_equal.
  apply group2_ext; try lia. intros r c Hr Hc. apply E; nia. Qed.

(** the hypotheses on the hooks are satisfiable: floor division and the exact numerator as [divcast], the sum as [agg] *)
Lemma ts_hooks_satisfiable : (forall t, Z.div t 1 = t) /\ (forall t, divcast_num t 1 = t) /\ (forall v, sumZ [v] = v).
Proof. repeat split; intros; [apply Z.div_1_r | cbn; lia]. Qed.
