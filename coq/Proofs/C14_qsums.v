(** C14: finite sums over Q, the closed forms of sum i and sum i^2, and the algebra of straight-line least squares.
    Independent of the generated code. *)
From Coq Require Import ZArith QArith Qfield List Lia.
Require Import SPP.Base.Rt SPP.Model.C14_filters.
Open Scope Q_scope.

(** * Finite sums over Q *)
Lemma sumQ_ext n f g : (forall i, (0 <= i < Z.of_nat n)%Z -> f i == g i) -> sumQ n f == sumQ n g.
Proof. induction n as [|k IH]; intro E; cbn [sumQ]; [reflexivity|].
  rewrite IH by (intros; apply E; lia). rewrite E by lia. reflexivity. Qed.

Lemma sumQ_zero n f : (forall i, (0 <= i < Z.of_nat n)%Z -> f i == 0) -> sumQ n f == 0.
Proof. induction n as [|k IH]; intro E; cbn [sumQ]; [reflexivity|].
  rewrite IH by (intros; apply E; lia). rewrite E by lia. ring. Qed.

Lemma inject_Z_S k : inject_Z (Z.of_nat (S k)) == inject_Z (Z.of_nat k) + 1.
Proof. rewrite Nat2Z.inj_succ. unfold Z.succ. rewrite inject_Z_plus. reflexivity. Qed.

(** closed forms of sum i and sum i^2 *)
Lemma sumQ_idx n : sumQ n inject_Z == inject_Z (Z.of_nat n) * (inject_Z (Z.of_nat n) - 1) / 2.
Proof. induction n as [|k IH]; [reflexivity|]. cbn [sumQ]. rewrite IH, inject_Z_S. field. Qed.

Lemma sumQ_sq n : sumQ n (fun i => inject_Z i * inject_Z i) ==
  inject_Z (Z.of_nat n) * (inject_Z (Z.of_nat n) - 1) * (2 * inject_Z (Z.of_nat n) - 1) / 6.
Proof. induction n as [|k IH]; [reflexivity|]. cbn [sumQ]. rewrite IH, inject_Z_S. field. Qed.

(** sums of a residual  f i - (s i + c)  and of its first moment *)
Lemma sumQ_resid n f s c : sumQ n (fun i => f i - (s * inject_Z i + c)) ==
  sumQ n f - s * sumQ n inject_Z - inject_Z (Z.of_nat n) * c.
Proof. induction n as [|k IH]; [cbn; ring|]. cbn [sumQ]. rewrite IH, inject_Z_S. ring. Qed.

Lemma sumQ_resid_w n f s c : sumQ n (fun i => inject_Z i * (f i - (s * inject_Z i + c))) ==
  sumQ n (fun i => inject_Z i * f i) - s * sumQ n (fun i => inject_Z i * inject_Z i) - c * sumQ n inject_Z.
Proof. induction n as [|k IH]; [cbn; ring|]. cbn [sumQ]. rewrite IH. ring. Qed.

(** the accumulation loops start from their initial value *)
Fixpoint sumQ_from (a : Q) (n : nat) (f : Z -> Q) : Q := match n with O => a | S k => sumQ_from a k f + f (Z.of_nat k) end.
Lemma sumQ_from_eq a n f : sumQ_from a n f == a + sumQ n f.
Proof. induction n as [|k IH]; cbn [sumQ_from sumQ]; [ring|]. rewrite IH. ring. Qed.

(** * The least-squares algebra: with exact sums, slope and intercept solve the normal equations *)
Lemma ls_denominator M : ~ M == 0 -> ~ M - 1 == 0 -> ~ M + 1 == 0 ->
  ~ M * (M * (M - 1) * (2 * M - 1) / 6) - (M * (M - 1) / 2) * (M * (M - 1) / 2) == 0.
Proof. intros H0 H1 H2 E.
  assert (E' : M * M * (M - 1) * (M + 1) == 0) by (rewrite <- (Qmult_0_l 12), <- E; field).
  apply Qmult_integral in E' as [E'|E']; [|tauto]. apply Qmult_integral in E' as [E'|E']; [|tauto].
  apply Qmult_integral in E' as [E'|E']; tauto. Qed.

(** discharge the side conditions of [field]: a polynomial that is a non-zero multiple of M^2 (M-1) (M+1) *)
Lemma nz_factors M P c : ~ M == 0 -> ~ M - 1 == 0 -> ~ M + 1 == 0 -> ~ c == 0 ->
  P == c * (M * M * (M - 1) * (M + 1)) -> ~ P == 0.
Proof. intros H0 H1 H2 Hc EP E. rewrite EP in E.
  apply Qmult_integral in E as [E|E]; [tauto|].
  apply Qmult_integral in E as [E|E]; [|tauto]. apply Qmult_integral in E as [E|E]; [|tauto].
  apply Qmult_integral in E as [E|E]; tauto. Qed.

Ltac nz_side H0 H1 H2 :=
  repeat split; try assumption;
  first [ apply (nz_factors _ _ 2 H0 H1 H2); [discriminate | ring]
        | apply (nz_factors _ _ 1 H0 H1 H2); [discriminate | ring]
        | apply (nz_factors _ _ (1 # 12) H0 H1 H2); [discriminate | field]
        | apply (nz_factors _ _ 24 H0 H1 H2); [discriminate | ring]
        | apply (nz_factors _ _ 12 H0 H1 H2); [discriminate | ring] ].

Lemma inject_Z_nz z : (z <> 0)%Z -> ~ inject_Z z == 0.
Proof. intros H E. apply H. apply (proj1 (inject_Z_injective z 0)). exact E. Qed.

Lemma size_factors m : (2 <= m)%Z -> ~ inject_Z m == 0 /\ ~ inject_Z m - 1 == 0 /\ ~ inject_Z m + 1 == 0.
Proof. intro H. repeat split.
  - apply inject_Z_nz. lia.
  - setoid_replace (inject_Z m - 1) with (inject_Z (m - 1)) by (unfold Zminus; rewrite inject_Z_plus; reflexivity).
    apply inject_Z_nz. lia.
  - setoid_replace (inject_Z m + 1) with (inject_Z (m + 1)) by (rewrite inject_Z_plus; reflexivity).
    apply inject_Z_nz. lia. Qed.

(** the two accumulators of the kernel's loop *)
Lemma iter_two_sums n (F G : Z -> Q) a b :
  iter n (fun i '(y, xy) => (y + F i, xy + G i)) (a, b) = (sumQ_from a n F, sumQ_from b n G).
Proof. induction n as [|k IH]; [reflexivity|]. cbn [iter]. rewrite IH. reflexivity. Qed.

(** * Sums of squares *)
Lemma Qsq_nonneg a : 0 <= a * a.
Proof. unfold Qle. cbn. rewrite Z.mul_1_r. apply Z.square_nonneg. Qed.

Lemma sumQ_sq_nonneg n f : 0 <= sumQ n (fun k => f k * f k).
Proof. induction n as [|k IH]; cbn [sumQ]; [apply Qle_refl|].
  rewrite <- (Qplus_0_l 0). apply Qplus_le_compat; [exact IH | apply Qsq_nonneg]. Qed.

Lemma sumQ_expand n r p q :
  sumQ n (fun k => (r k + (p * inject_Z k + q)) * (r k + (p * inject_Z k + q))) ==
  sumQ n (fun k => r k * r k) + 2 * p * sumQ n (fun k => inject_Z k * r k) + 2 * q * sumQ n r
  + sumQ n (fun k => (p * inject_Z k + q) * (p * inject_Z k + q)).
Proof. induction n as [|k IH]; [cbn; ring|]. cbn [sumQ]. rewrite IH. ring. Qed.

