(** C15 -- the glue of stats.estimate_scale (dispatch, scalarisation, keepdims reshaping) and of stats.estimate_zscore
    (zero-scale guard, broadcasting subtraction and division), for the definitions regenerated in Gen/Stats.v. *)
From Coq Require Import ZArith List Bool QArith Qcanon Qcabs Lia Lqa.
Require Import SPP.Base.Rt SPP.Base.Iter SPP.Model.C15_np SPP.Gen.Stats.
Require Import SPP.Proofs.C15_lib SPP.Proofs.C15_order SPP.Proofs.C15_rel SPP.Proofs.C15_view SPP.Proofs.C15_lanes SPP.Proofs.C15_lanes2.
Import ListNotations.
Open Scope Z_scope.

Section Glue.
  Variables (np_sqrt : Qc -> Qc) (np_pi : Qc) (np_std1 biweight1 : vec -> Qc) (np_cov01 : vec -> vec -> Qc) (memo : nd -> nd).
  Hypothesis Hm : memo_ok memo.
  Notation est := (estimate_scale np_sqrt np_pi np_std1 biweight1 np_cov01 memo).

  (** the lines of estimate_scale after the dispatch; [dm] says that the method is 'doublemad' *)
  Definition epilogue (data : nd) (dm : bool) (axis : option Z) (keepdims : bool) (result : nd) : option nd :=
    let result := memo result in
    let result := if (size result =? 1) && negb keepdims then np_first result else result in
    if keepdims && negb dm then
      match axis with None => np_expand_dims_range result (ndim data) | Some ax => np_expand_dims result ax end
    else Some result.

  Lemma est_iqr d ax kd : est d S_iqr ax kd = epilogue d false ax kd (scale_iqr memo d ax). Proof. reflexivity. Qed.
  Lemma est_mad d ax kd : est d S_mad ax kd = epilogue d false ax kd (scale_mad np_sqrt np_pi memo d ax). Proof. reflexivity. Qed.
  Lemma est_doublemad d ax kd : est d S_doublemad ax kd = epilogue d true ax kd (scale_doublemad np_sqrt np_pi memo d ax). Proof. reflexivity. Qed.
  Lemma est_diffcov d ax kd : est d S_diffcov ax kd = epilogue d false ax kd (scale_diffcov np_sqrt np_cov01 memo d ax). Proof. reflexivity. Qed.
  Lemma est_biweight d ax kd : est d S_biweight ax kd = epilogue d false ax kd (scale_biweight biweight1 d ax). Proof. reflexivity. Qed.
  Lemma est_qn d ax kd : est d S_qn ax kd = epilogue d false ax kd (scale_qn memo d ax). Proof. reflexivity. Qed.
  Lemma est_sn d ax kd : est d S_sn ax kd = epilogue d false ax kd (scale_sn memo d ax). Proof. reflexivity. Qed.
  Lemma est_gapper d ax kd : est d S_gapper ax kd = epilogue d false ax kd (scale_gapper np_sqrt np_pi memo d ax). Proof. reflexivity. Qed.
  Lemma est_std d ax kd : est d S_std ax kd = Some (np_reduce np_std1 d ax kd). Proof. reflexivity. Qed.
  Lemma est_unknown d ax kd : est d S_other ax kd = None /\ est d S_norm ax kd = None. Proof. split; reflexivity. Qed.

  Lemma insert_remove_shape k : forall (s : list Z) v, (k < length s)%nat -> insert_nth k v (remove_nth k s) = set_nth k v s.
  Proof. exact (fun s v H => insert_remove_nth_val k v s H). Qed.

  Section KeepAxis.
    Variables (sh : list Z) (k0 : Z) (data R : nd).
    Hypothesis Hsh : sh <> nil.
    Hypothesis Hd : shape data = sh.
    Let k := axis_of sh k0.
    Hypothesis HR : shape R = remove_nth k sh.
    Hypothesis Hk0 : - Z.of_nat (length sh) <= k0 < Z.of_nat (length sh).   (* a valid axis number *)

    (** keepdims=True, axis=k0: the reduced axis comes back with size 1, so the result broadcasts against the input, and
        every element along the lane through [I] is the estimate of that lane *)
    Lemma epilogue_keepdims_axis :
      exists B, epilogue data false (Some k0) true R = Some B /\ shape B = set_nth k 1 sh /\ bc sh (shape B) /\
                forall I, in_range sh I -> rd B I = get R (remove_nth k I).
    Proof. assert (Hk : (k < length sh)%nat).
      { unfold k, axis_of. assert (0 < Z.of_nat (length sh)) by (destruct sh; [congruence|cbn; lia]).
        pose proof (Z.mod_pos_bound k0 _ H). lia. }
      unfold epilogue. cbv zeta. rewrite andb_false_r. cbn [andb negb]. unfold np_expand_dims.
      assert (Er : ndim (memo R) + 1 = Z.of_nat (length sh)).
      { unfold ndim. rewrite (memo_shape memo Hm), HR, remove_nth_length by exact Hk. lia. }
      rewrite Er. replace ((k0 <? - Z.of_nat (length sh)) || (Z.of_nat (length sh) <=? k0)) with false
        by (symmetry; apply orb_false_iff; split; [apply Z.ltb_ge|apply Z.leb_gt]; lia).
      fold (axis_of sh k0). fold k. eexists. split; [reflexivity|]. cbn [shape get]. rewrite (memo_shape memo Hm), HR.
      rewrite insert_remove_shape by exact Hk. split; [reflexivity|]. split; [right; apply dimok_set_nth|].
      intros I HI. unfold rd. cbn [shape get]. rewrite (memo_get memo Hm).
      rewrite bidx_eqlen by (rewrite set_nth_length; now apply in_range_length).
      rewrite clamp_kd by assumption. now rewrite remove_set_nth. Qed.
  End KeepAxis.

  Lemma ones_zrange (s : list Z) : map (fun _ : Z => 1) (zrange (Z.of_nat (length s))) = map (fun _ => 1) s.
  Proof. induction s as [|d s IH]; [reflexivity|]. cbn [length]. rewrite zrange_cons. cbn [map]. now rewrite map_map, IH. Qed.

  (** keepdims=True, axis=None: an all-ones shape *)
  Lemma epilogue_keepdims_none sh data R : shape data = sh -> shape R = nil ->
    exists B, epilogue data false None true R = Some B /\ shape B = map (fun _ => 1) sh /\ bc sh (shape B) /\
              forall I, length I = length sh -> rd B I = get R nil.
  Proof. intros Hd HR. unfold epilogue. cbv zeta. rewrite andb_false_r. cbn [andb negb]. unfold np_expand_dims_range.
    eexists. split; [reflexivity|]. cbn [shape get]. rewrite (memo_shape memo Hm), HR, app_nil_r. unfold ndim. rewrite Hd, ones_zrange.
    split; [reflexivity|]. split; [right; apply dimok_ones|].
    intros I HI. unfold rd. cbn [shape get]. rewrite (memo_get memo Hm). f_equal.
    rewrite Nat2Z.id. rewrite bidx_eqlen by now rewrite map_length. rewrite clamp_ones by exact HI.
    rewrite skipn_all2 by (rewrite map_length; lia). reflexivity. Qed.

  (** keepdims=False: a one-element result becomes a scalar, anything else is returned as it is *)
  Lemma epilogue_nokd data dm axis R :
    epilogue data dm axis false R = Some (if size R =? 1 then scalar (item (memo R)) else memo R).
  Proof. unfold epilogue. cbv zeta. cbn [andb negb]. rewrite andb_true_r. unfold size. rewrite (memo_shape memo Hm). reflexivity. Qed.
  (** 'doublemad' keeps the shape of the data whatever keepdims is *)
  Lemma epilogue_dm data axis R kd : size R <> 1 -> epilogue data true axis kd R = Some (memo R).
  Proof. intro H. unfold epilogue. cbv zeta. rewrite andb_false_r. unfold size in *. rewrite (memo_shape memo Hm).
    destruct (fold_right Z.mul 1 (shape R) =? 1) eqn:E; [apply Z.eqb_eq in E; contradiction|]. reflexivity. Qed.

  (** * estimate_zscore *)
  Notation zsc := (estimate_zscore np_sqrt np_pi np_std1 biweight1 np_cov01 memo).
  Notation loc_ := (estimate_loc).

  (** the lines of estimate_zscore after [loc] and [scale] have been obtained *)
  Definition ztail (data loc scale : nd) (axis : option Z) : nd * nd * nd :=
    let zscores := memo (np_sub data loc) in
    let tiny := memo (np_mul (scalar float32_tiny) (np_reduce max1 (np_abs zscores) axis true)) in
    let zero_scales := memo (np_le scale tiny) in
    let scale := if np_any zero_scales then memo (np_where zero_scales (scalar (qz 1)) scale) else scale in
    let zscores := memo (np_div zscores scale) in
    (zscores, loc, scale).

  Lemma estimate_zscore_unfold data lm sm axis :
    zsc data lm sm axis =
    match (if loc_method_eqb lm L_norm then Some (const1 (qz 0)) else estimate_loc data lm axis true) with
    | None => None
    | Some loc =>
      match (if scale_method_eqb sm S_norm then Some (const1 (qz 1)) else est data sm axis true) with
      | None => None
      | Some scale => Some (ztail data (memo loc) (memo scale) axis)
      end
    end.
  Proof. reflexivity. Qed.

  Lemma reduce_get_list f X axis kd J : exists L, get (np_reduce f X axis kd) J = f L /\ forall x, In x L -> exists idx, x = get X idx.
  Proof. destruct axis as [k0|]; unfold np_reduce, reduce_axis, reduce_all.
    - destruct kd; cbn [get]; eexists; (split; [reflexivity|]); unfold lane; intros x Hx; apply in_map_iff in Hx;
        destruct Hx as [j [<- _]]; eexists; reflexivity.
    - cbn [get]. eexists. split; [reflexivity|]. unfold ravel. intros x Hx. apply in_map_iff in Hx. destruct Hx as [j [<- _]]. eexists; reflexivity. Qed.

  Lemma float32_tiny_pos : (Q2Qc 0 < float32_tiny)%Qc.
  Proof. reflexivity. Qed.

  Section ZTail.
    Variables (sh : list Z) (data loc scale : nd) (axis : option Z).
    Hypothesis Hsh : sh <> nil.
    Hypothesis Hd : shape data = sh.
    Hypothesis Bl : bc sh (shape loc).
    Hypothesis Bs : bc sh (shape scale).
    Let z0 := memo (np_sub data loc).
    Let tiny := memo (np_mul (scalar float32_tiny) (np_reduce max1 (np_abs z0) axis true)).
    Let zs := memo (np_le scale tiny).
    Let scale' := if np_any zs then memo (np_where zs (scalar (qz 1)) scale) else scale.

    Lemma z0_shape : shape z0 = sh.
    Proof. unfold z0. rewrite (memo_shape memo Hm). cbn [shape np_sub nd_map2]. rewrite Hd. now apply bshape_full_l. Qed.
    Lemma tiny_bc : bc sh (shape tiny).
    Proof. unfold tiny. rewrite (memo_shape memo Hm). apply bc_map2; [now left|].
      assert (S : shape (np_abs z0) = sh) by (cbn [shape np_abs nd_map]; apply z0_shape).
      rewrite <- S at 1. apply bc_reduce. now rewrite S. Qed.
    Lemma tiny_nonneg I : length I = length sh -> (Q2Qc 0 <= rd tiny I)%Qc.
    Proof. intro HI. unfold tiny. unfold rd at 1. rewrite (memo_shape memo Hm), (memo_get memo Hm).
      fold (rd (np_mul (scalar float32_tiny) (np_reduce max1 (np_abs z0) axis true)) I).
      assert (B : bc sh (shape (np_reduce max1 (np_abs z0) axis true))).
      { assert (S : shape (np_abs z0) = sh) by (cbn [shape np_abs nd_map]; apply z0_shape). rewrite <- S at 1. apply bc_reduce. now rewrite S. }
      unfold np_mul. rewrite (rd_map2 sh) by (try assumption; now left).
      unfold rd at 2. destruct (reduce_get_list max1 (np_abs z0) axis true (bidx (shape (np_reduce max1 (np_abs z0) axis true)) I)) as [L [E HL]].
      rewrite E. assert (Hmx : (Q2Qc 0 <= max1 L)%Qc).
      { apply max1_nonneg. intros x Hx. destruct (HL x Hx) as [idx ->]. cbn [get np_abs nd_map]. apply Qcabs_nonneg. }
      unfold rd. cbn [get scalar]. pose proof float32_tiny_pos as He. qc2q. nra. Qed.

    (** the zero-scale guard: the array that divides is strictly positive wherever it is read, and the Z-score there is
        (sample - location) / that divisor *)
    Theorem zscore_divisor_positive I : in_range sh I ->
      let '(z, _, s) := ztail data loc scale axis in
      (Q2Qc 0 < rd s I)%Qc /\ rd z I = ((rd data I - rd loc I) / rd s I)%Qc /\ shape z = sh.
    Proof. intro HI. unfold ztail. cbv zeta. fold z0. fold tiny. fold zs. fold scale'.
      pose proof (in_range_length _ _ HI) as LI. pose proof tiny_bc as Bt.
      assert (Bzs : bc sh (shape zs)) by (unfold zs; rewrite (memo_shape memo Hm); now apply bc_map2).
      assert (Hzs : rd zs I = qbool (Qcleb (rd scale I) (rd tiny I))).
      { unfold zs. unfold rd at 1. rewrite (memo_shape memo Hm), (memo_get memo Hm). fold (rd (np_le scale tiny) I).
        unfold np_le. now rewrite (rd_map2 sh). }
      assert (Bs' : bc sh (shape scale')).
      { unfold scale'. destruct (np_any zs); [|exact Bs]. rewrite (memo_shape memo Hm). apply bc_map3; [exact Bzs|now left|exact Bs]. }
      assert (Hs' : rd scale' I = if qtrue (rd zs I) then qz 1 else rd scale I).
      { unfold scale'. destruct (np_any zs) eqn:E.
        - unfold rd at 1. rewrite (memo_shape memo Hm), (memo_get memo Hm). fold (rd (np_where zs (scalar (qz 1)) scale) I).
          unfold np_where. rewrite (rd_map3 sh) by (try assumption; now left). reflexivity.
        - destruct (qtrue (rd zs I)) eqn:Q; [|reflexivity]. rewrite (np_any_rd sh zs I Bzs HI Q) in E. discriminate. }
      split; [|split].
      - rewrite Hs', Hzs, qtrue_qbool. destruct (Qcleb (rd scale I) (rd tiny I)) eqn:E; [reflexivity|].
        pose proof (tiny_nonneg I LI) as Ht.
        destruct (Qclt_le_dec (rd tiny I) (rd scale I)) as [L|L]; [eapply Qcle_lt_trans; eassumption|].
        apply Qcleb_iff in L. congruence.
      - unfold rd at 1. rewrite (memo_shape memo Hm), (memo_get memo Hm). fold (rd (np_div z0 scale') I).
        unfold np_div. rewrite (rd_map2 sh) by (try assumption; rewrite z0_shape; apply bc_full).
        f_equal. unfold z0. unfold rd at 1. rewrite (memo_shape memo Hm), (memo_get memo Hm). fold (rd (np_sub data loc) I).
        unfold np_sub. rewrite (rd_map2 sh) by (try assumption; rewrite Hd; apply bc_full). reflexivity.
      - rewrite (memo_shape memo Hm). cbn [shape np_div nd_map2]. rewrite z0_shape. now apply bshape_full_l. Qed.

    (** the same facts in closed form *)
    Lemma ztail_rd I : in_range sh I ->
      let '(z, _, s) := ztail data loc scale axis in
      rd s I = (if Qcleb (rd scale I) (rd tiny I) then qz 1 else rd scale I) /\
      rd z I = ((rd data I - rd loc I) / rd s I)%Qc.
    Proof. intro HI. pose proof (zscore_divisor_positive I HI) as P. unfold ztail in P |- *. cbv zeta in P |- *. fold z0 in P |- *. fold tiny in P |- *. fold zs in P |- *. fold scale' in P |- *.
      destruct P as [_ [Pz _]]. split; [|exact Pz].
      pose proof (in_range_length _ _ HI) as LI. pose proof tiny_bc as Bt.
      assert (Bzs : bc sh (shape zs)) by (unfold zs; rewrite (memo_shape memo Hm); now apply bc_map2).
      assert (Hzs : rd zs I = qbool (Qcleb (rd scale I) (rd tiny I))).
      { unfold zs. unfold rd at 1. rewrite (memo_shape memo Hm), (memo_get memo Hm). fold (rd (np_le scale tiny) I).
        unfold np_le. now rewrite (rd_map2 sh). }
      rewrite <- (qtrue_qbool (Qcleb (rd scale I) (rd tiny I))), <- Hzs.
      unfold scale'. destruct (np_any zs) eqn:E.
      - unfold rd at 1. rewrite (memo_shape memo Hm), (memo_get memo Hm). fold (rd (np_where zs (scalar (qz 1)) scale) I).
        unfold np_where. rewrite (rd_map3 sh) by (try assumption; now left). reflexivity.
      - destruct (qtrue (rd zs I)) eqn:Q; [|reflexivity]. rewrite (np_any_rd sh zs I Bzs HI Q) in E. discriminate. Qed.
  End ZTail.

  (** Z-scores under x -> a x + b: given that the location follows the map and the scale is multiplied by |a| (the
      equivariance theorems), the guard fires at the same samples, and where it does not fire the Z-score is multiplied
      by a/|a| = sign(a).  (Where it fires the divisor is 1 on both sides: the Z-score is then multiplied by a.) *)
  Theorem zscore_equivariant (sh : list Z) (a b : Qc) data data' loc loc' sc sc' axis I :
    a <> Q2Qc 0 -> sh <> nil -> shape data = sh -> bc sh (shape loc) -> bc sh (shape sc) -> in_range sh I ->
    rel_of (affine a b) data data' -> rel_of (affine a b) loc loc' -> rel_of (scale (Qcabs a)) sc sc' ->
    let '(z, _, s) := ztail data loc sc axis in
    let '(z', _, s') := ztail data' loc' sc' axis in
    let fired := Qcleb (rd sc I) (rd (memo (np_mul (scalar float32_tiny) (np_reduce max1 (np_abs (memo (np_sub data loc))) axis true))) I) in
    (rd s' I = if fired then qz 1 else scale (Qcabs a) (rd s I)) /\
    (fired = false -> rd z' I = (a / Qcabs a * rd z I)%Qc) /\ (fired = true -> rd z' I = (a * rd z I)%Qc).
  Proof. intros Ha Hsh Hd Bl Bs HI Rd Rl Rs.
    pose proof (Qcabs_pos_of_neq0 a Ha) as Hc.
    assert (Hd' : shape data' = sh) by (destruct Rd as [S _]; congruence).
    assert (Bl' : bc sh (shape loc')) by (destruct Rl as [S _]; now rewrite S).
    assert (Bs' : bc sh (shape sc')) by (destruct Rs as [S _]; now rewrite S).
    pose proof (ztail_rd sh data loc sc axis Hsh Hd Bl Bs I HI) as P.
    pose proof (ztail_rd sh data' loc' sc' axis Hsh Hd' Bl' Bs' I HI) as P'.
    unfold ztail in *. cbv zeta in *.
    assert (Rt : rel_of (scale (Qcabs a)) (memo (np_mul (scalar float32_tiny) (np_reduce max1 (np_abs (memo (np_sub data loc))) axis true)))
                                          (memo (np_mul (scalar float32_tiny) (np_reduce max1 (np_abs (memo (np_sub data' loc'))) axis true)))).
    { apply rel_memo; [exact Hm|]. eapply (rel_map2 Qcmult (fun x => x) (scale (Qcabs a)) (scale (Qcabs a))); [intros; unfold scale; ring|apply rel_scalar_id|].
      apply (rel_reduce max1 (scale (Qcabs a)) (scale (Qcabs a))); [intro; now apply max1_scale|].
      apply (rel_map1 Qcabs (scale a)); [intro; unfold scale; apply Qcabs_Qcmult|].
      apply rel_memo; [exact Hm|]. eapply rel_map2; [|exact Rd|exact Rl]. intros x y. unfold affine, scale. ring. }
    destruct P as [Ps Pz]. destruct P' as [Ps' Pz'].
    rewrite (rel_rd _ _ _ I Rs), (rel_rd _ _ _ I Rt) in Ps'. rewrite (scale_increasing _ Hc) in Ps'.
    rewrite (rel_rd _ _ _ I Rd), (rel_rd _ _ _ I Rl) in Pz'.
    set (fired := Qcleb (rd sc I) _) in *.
    split; [|split].
    - rewrite Ps', Ps. now destruct fired.
    - intro F. rewrite Pz', Pz, Ps', Ps, F. unfold affine, scale. field. split; [|intro E; rewrite E in Hc; now apply (Qclt_not_le _ _ Hc), Qcle_refl].
      rewrite F in Ps. pose proof (zscore_divisor_positive sh data loc sc axis Hsh Hd Bl Bs I HI) as Q. unfold ztail in Q. cbv zeta in Q.
      destruct Q as [Q _]. rewrite Ps in Q. intro E. rewrite E in Q. now apply (Qclt_not_le _ _ Q), Qcle_refl.
    - intro F. rewrite Pz', Pz, Ps', Ps, F. unfold affine. field. apply (qz_neq0 1). lia. Qed.
End Glue.
