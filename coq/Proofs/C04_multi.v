(** C04: several cwrite calls on one prepared output file (Model/C04_Multi.v) -- the bytes on disk are those of ONE
    cwrite of the concatenated array whenever every call hands over a whole number of bytes, and the product then
    reads back to the concatenation of the arrays; what happens otherwise at the packed depths. *)
From Coq Require Import ZArith List Bool Lia ZifyBool.
Require Import SPP.Base.Rt SPP.Base.Iter SPP.Gen.Kernels SPP.Gen.Plan SPP.Gen.C04Io SPP.Model.Bits SPP.Model.Stream
               SPP.Model.C04_Writer SPP.Model.C04_Multi SPP.Proofs.C03_bits SPP.Proofs.C02_stream SPP.Proofs.C04_writer.
Import ListNotations.
Open Scope Z_scope.
Ltac Zify.zify_post_hook ::= Z.to_euclidean_division_equations.

(** * lists and arrays *)
Lemma of_list_app_l x y i : 0 <= i < len x -> of_list (x ++ y) i = of_list x i.
Proof. intro H. unfold of_list, len in *. replace (i <? 0) with false by lia. apply app_nth1. lia. Qed.

Lemma of_list_app_r x y i : len x <= i -> of_list (x ++ y) i = of_list y (i - len x).
Proof. intro H. pose proof (len_nonneg x). unfold of_list, len in *.
  replace (i <? 0) with false by lia. replace (i - Z.of_nat (length x) <? 0) with false by lia.
  rewrite app_nth2 by lia. f_equal. lia. Qed.

Lemma of_list_range (P : Z -> Prop) l i : P 0 -> Forall P l -> P (of_list l i).
Proof. intros H0 HF. unfold of_list. destruct (i <? 0); [exact H0|].
  destruct (Nat.lt_ge_cases (Z.to_nat i) (length l)) as [Hlt|Hge].
  - rewrite Forall_forall in HF. apply HF. apply nth_In. exact Hlt.
  - rewrite nth_overflow by exact Hge. exact H0. Qed.

Lemma oapp_nil_r x : oapp x (Some []) = x.
Proof. destruct x; cbn; [rewrite app_nil_r|]; reflexivity. Qed.

(** * one call with x ++ y = the call with x followed by the call with y *)

(** 8/16/32 bits: for ALL values and lengths *)
Lemma cwrite_app_wide cfg nbits dt x y : bit_unpack nbits = false ->
  cwrite cfg nbits (mknd dt (x ++ y)) = oapp (cwrite cfg nbits (mknd dt x)) (cwrite cfg nbits (mknd dt y)).
Proof. intro Hu. unfold cwrite. destruct (file_dtype nbits) as [fdt|]; [|reflexivity]. rewrite Hu.
  destruct (cw_wide cfg); cbn [prepare nd_dt].
  - cbn. unfold tofile. cbn [nd_dt nd_vals]. rewrite flat_map_app. reflexivity.
  - cbn. unfold tofile, astype. cbn [nd_dt nd_vals]. rewrite map_app, flat_map_app. reflexivity.
  - destruct (dtype_eqb dt fdt); cbn; [|reflexivity]. unfold tofile. cbn [nd_dt nd_vals]. rewrite flat_map_app. reflexivity. Qed.

(** the packing kernel on x ++ y, x a whole number of bytes *)
Lemma pack_app nb big x y : In nb [1; 2; 4] -> len x mod bf nb = 0 ->
  Forall (fun v => 0 <= v < 2 ^ nb) x -> Forall (fun v => 0 <= v < 2 ^ nb) y ->
  to_list (len (x ++ y) / bf nb) (pack_run nb big (len (x ++ y) / bf nb) (of_list (x ++ y)) zeros) =
  to_list (len x / bf nb) (pack_run nb big (len x / bf nb) (of_list x) zeros) ++
  to_list (len y / bf nb) (pack_run nb big (len y / bf nb) (of_list y) zeros).
Proof. intros Hnb Hal Hx Hy. destruct (bf_pos nb Hnb) as [Hbp Hb8].
  pose proof (len_nonneg x) as Hlx. pose proof (len_nonneg y) as Hly.
  set (m1 := len x / bf nb). set (m2 := len y / bf nb).
  assert (Ex : len x = bf nb * m1) by (unfold m1; apply Z.div_exact; lia).
  assert (Hm1 : 0 <= m1) by (unfold m1; apply Z.div_pos; lia).
  assert (Hm2 : 0 <= m2) by (unfold m2; apply Z.div_pos; lia).
  assert (Em : len (x ++ y) / bf nb = m1 + m2).
  { rewrite len_app, Ex. unfold m2. rewrite (Z.mul_comm (bf nb) m1). rewrite Z.div_add_l by lia. reflexivity. }
  rewrite Em.
  assert (H0 : 0 <= 0 < 2 ^ nb) by (split; [lia | apply Z.pow_pos_nonneg; cbn [In] in Hnb; lia]).
  assert (Rxy : forall i, 0 <= of_list (x ++ y) i < 2 ^ nb).
  { intro i. apply (of_list_range (fun v => 0 <= v < 2 ^ nb)); [exact H0 | apply Forall_app; split; assumption]. }
  assert (Rx : forall i, 0 <= of_list x i < 2 ^ nb) by (intro i; apply (of_list_range (fun v => 0 <= v < 2 ^ nb)); assumption).
  assert (Ry : forall i, 0 <= of_list y i < 2 ^ nb) by (intro i; apply (of_list_range (fun v => 0 <= v < 2 ^ nb)); assumption).
  set (L1 := to_list m1 (pack_run nb big m1 (of_list x) zeros)).
  set (L2 := to_list m2 (pack_run nb big m2 (of_list y) zeros)).
  assert (Hl1 : len L1 = m1) by (apply len_to_list; exact Hm1).
  assert (Hl2 : len L2 = m2) by (apply len_to_list; exact Hm2).
  replace (m1 + m2) with (len (L1 ++ L2)) at 1 by (rewrite len_app; lia).
  apply to_list_eq. rewrite len_app, Hl1, Hl2. intros i Hi.
  rewrite pack_run_spec; [| exact Hnb | lia | intros; apply Rxy].
  replace ((0 <=? i) && (i <? m1 + m2)) with true by lia.
  destruct (Z.lt_ge_cases i m1) as [Hlt|Hge].
  - rewrite app_nth1 by (unfold len in Hl1; lia).
    unfold L1. rewrite to_list_nth by lia. rewrite Z2Nat.id by lia.
    rewrite pack_run_spec; [| exact Hnb | lia | intros; apply Rx].
    replace ((0 <=? i) && (i <? m1)) with true by lia.
    apply byte_of_ext; [|lia]. intros k Hk. apply of_list_app_l. nia.
  - rewrite app_nth2 by (unfold len in Hl1; lia).
    replace (Z.to_nat i - length L1)%nat with (Z.to_nat (i - m1)) by (unfold len in Hl1; lia).
    unfold L2. rewrite to_list_nth by lia. rewrite Z2Nat.id by lia.
    rewrite pack_run_spec; [| exact Hnb | lia | intros; apply Ry].
    replace ((0 <=? i - m1) && (i - m1 <? m2)) with true by lia.
    apply byte_of_ext; [|lia]. intros k Hk. rewrite of_list_app_r by nia. f_equal. nia. Qed.

(** 1/2/4 bits: x a whole number of bytes, values of x and y representable at the depth *)
Lemma cwrite_app_packed cfg nbits dt x y : In nbits [1; 2; 4] -> file_dtype nbits = Some U8 -> bit_unpack nbits = true ->
  bitfact nbits = bf nbits -> len x mod bf nbits = 0 ->
  Forall (fun v => 0 <= v < 2 ^ nbits) x -> Forall (fun v => 0 <= v < 2 ^ nbits) y ->
  cwrite cfg nbits (mknd dt (x ++ y)) = oapp (cwrite cfg nbits (mknd dt x)) (cwrite cfg nbits (mknd dt y)).
Proof. intros Hnb Hf Hu Hb Hal Hx Hy. unfold cwrite. rewrite Hf, Hu, Hb. unfold pack_len.
  assert (H256 : 2 ^ nbits <= 256) by (cbn [In] in Hnb; destruct Hnb as [<-|[<-|[<-|[]]]]; cbn; lia).
  assert (Cx : map (cast U8) x = x) by (apply map_id_Forall; revert Hx; apply Forall_impl; intros v Hv; cbn [cast]; lia).
  assert (Cy : map (cast U8) y = y) by (apply map_id_Forall; revert Hy; apply Forall_impl; intros v Hv; cbn [cast]; lia).
  assert (Cxy : map (cast U8) (x ++ y) = x ++ y) by (rewrite map_app, Cx, Cy; reflexivity).
  pose proof (pack_app nbits (bitorder_big nbits) x y Hnb Hal Hx Hy) as HP.
  destruct (cw_sub cfg); cbn [prepare nd_dt].
  - unfold nd_size. cbn [nd_dt nd_vals]. destruct (pack_chk cfg && negb (dtype_eqb dt U8)); cbn [oapp]; [reflexivity|].
    rewrite HP. reflexivity.
  - unfold astype, nd_size. cbn [nd_dt nd_vals]. rewrite Cx, Cy, Cxy.
    destruct (pack_chk cfg && negb (dtype_eqb U8 U8)); cbn [oapp]; [reflexivity|]. rewrite HP. reflexivity.
  - destruct (dtype_eqb dt U8); cbn [oapp]; [|reflexivity].
    unfold nd_size. cbn [nd_dt nd_vals]. destruct (pack_chk cfg && negb (dtype_eqb dt U8)); cbn [oapp]; [reflexivity|].
    rewrite HP. reflexivity. Qed.

(** every call hands over a whole number of bytes, and at the packed depths values the depth can hold *)
Definition calls_ok (nbits : Z) (ls : list (list Z)) : Prop :=
  Forall (fun x => len x mod bitfact nbits = 0) ls /\
  (bit_unpack nbits = true -> Forall (Forall (fun v => 0 <= v < 2 ^ nbits)) ls).

Lemma cwrite_app cfg nbits dt x y : In nbits depths -> len x mod bitfact nbits = 0 ->
  (bit_unpack nbits = true -> Forall (fun v => 0 <= v < 2 ^ nbits) x /\ Forall (fun v => 0 <= v < 2 ^ nbits) y) ->
  cwrite cfg nbits (mknd dt (x ++ y)) = oapp (cwrite cfg nbits (mknd dt x)) (cwrite cfg nbits (mknd dt y)).
Proof. intros Hd Hal Hr. destruct (depths_cases nbits Hd) as [Hin Hf Hu Hb _ | fdt Hf Hu Hb Hi _].
  - destruct (Hr Hu) as [Hx Hy]. apply cwrite_app_packed; try assumption. rewrite <- Hb. exact Hal.
  - apply cwrite_app_wide. exact Hu. Qed.

(** the bytes of k >= 1 successive calls are the bytes of one call with the concatenated array *)
Lemma cwrite_all_concat cfg nbits dt ls : In nbits depths -> ls <> [] -> calls_ok nbits ls ->
  cwrite_all cfg nbits (map (mknd dt) ls) = cwrite cfg nbits (mknd dt (concat ls)).
Proof. intros Hd Hne [Hal Hr]. induction ls as [|x r IH]; [congruence|]. destruct r as [|y r'].
  - cbn [map cwrite_all concat]. rewrite oapp_nil_r, app_nil_r. reflexivity.
  - change (cwrite_all cfg nbits (map (mknd dt) (x :: y :: r'))) with
      (oapp (cwrite cfg nbits (mknd dt x)) (cwrite_all cfg nbits (map (mknd dt) (y :: r')))).
    rewrite IH.
    + change (concat (x :: y :: r')) with (x ++ concat (y :: r')). symmetry. apply cwrite_app.
      * exact Hd.
      * inversion Hal; assumption.
      * intro Hu. specialize (Hr Hu). inversion Hr as [|? ? Hx Hrest]; subst. split; [exact Hx|].
        clear - Hrest. induction Hrest as [|z zs Hz _ IHz]; [constructor|]. cbn [concat]. apply Forall_app. split; assumption.
    + discriminate.
    + inversion Hal; assumption.
    + intro Hu. specialize (Hr Hu). inversion Hr; assumption. Qed.

Lemma map_mknd_vals dt l : Forall (fun a => nd_dt a = dt) l -> map (mknd dt) (map nd_vals l) = l.
Proof. induction 1 as [|a r Ha _ IH]; [reflexivity|]. cbn [map]. rewrite IH. destruct a; cbn in *; subst; reflexivity. Qed.

(** stated on arrays: all of one in-memory dtype *)
Lemma cwrite_all_is_one_call cfg nbits dt l : In nbits depths -> l <> [] -> Forall (fun a => nd_dt a = dt) l ->
  calls_ok nbits (map nd_vals l) -> cwrite_all cfg nbits l = cwrite cfg nbits (nd_concat dt l).
Proof. intros Hd Hne Hdt Hok. rewrite <- (map_mknd_vals dt l Hdt) at 1. unfold nd_concat.
  apply cwrite_all_concat; [exact Hd | destruct l; [congruence | discriminate] | exact Hok]. Qed.

(** * the product of several calls, read back *)
Definition RoundtripMany (cfg : wcfg) : Prop := forall nbits nchans nsamps h dt l,
  In nbits depths -> 1 <= nchans -> 1 <= nsamps -> (nchans * nbits) mod 8 = 0 ->
  l <> [] -> Forall (fun a => nd_dt a = dt) l ->
  Forall (fun a => nd_size a mod nchans = 0) l ->                 (* every call hands over whole samples *)
  len (concat (map nd_vals l)) = nsamps * nchans ->
  Forall (fun a => Forall (repr_at nbits) (nd_vals a)) l ->
  match write_fil_many cfg nbits h l with
  | None => file_dtype nbits <> Some dt
  | Some f => hdr f = h /\ 8 * datalen f = nsamps * nchans * nbits /\
              read_fil nbits nchans f = Some (nsamps, concat (map nd_vals l))
  end.

Lemma Forall_concat (P : Z -> Prop) ls : Forall (Forall P) ls -> Forall P (concat ls).
Proof. induction 1 as [|z zs Hz _ IH]; [constructor|]. cbn [concat]. apply Forall_app. split; assumption. Qed.

Lemma roundtrip_many cfg : sound_cfg cfg = true -> RoundtripMany cfg.
Proof. intros Hs nbits nchans nsamps h dt l Hd Hc Hn Hm Hne Hdt Hwhole Hlen Hrep.
  assert (Hok : calls_ok nbits (map nd_vals l)).
  { split.
    - rewrite Forall_map. revert Hwhole. apply Forall_impl. intros a Ha. fold (nd_size a).
      destruct (depths_cases nbits Hd) as [Hin Hf Hu Hb _ | fdt Hf Hu Hb Hi _]; rewrite Hb; [|apply Z.mod_1_r].
      pose proof (nd_size_nonneg a).
      assert (nchans mod bf nbits = 0).
      { cbn [In] in Hin. destruct Hin as [<-|[<-|[<-|[]]]]; change (bf 1) with 8; change (bf 2) with 4; change (bf 4) with 2; lia. }
      destruct (bf_pos nbits Hin) as [Hbp _].
      assert (E1 : nd_size a = nchans * (nd_size a / nchans)) by (apply Z.div_exact; lia).
      assert (E2 : nchans = bf nbits * (nchans / bf nbits)) by (apply Z.div_exact; lia).
      set (q1 := nd_size a / nchans) in *. set (q2 := nchans / bf nbits) in *.
      replace (nd_size a) with ((q2 * q1) * bf nbits) by nia. apply Z.mod_mul. lia.
    - intro Hu. rewrite Forall_map. revert Hrep. apply Forall_impl. intros a Ha. revert Ha. apply Forall_impl.
      destruct (depths_cases nbits Hd) as [Hin Hf Hu' Hb Hr | fdt Hf Hu' Hb Hi _]; [exact Hr | congruence]. }
  unfold write_fil_many. rewrite (cwrite_all_is_one_call cfg nbits dt l Hd Hne Hdt Hok).
  pose proof (roundtrip_sound cfg Hs nbits nchans nsamps h (nd_concat dt l) Hd Hc Hn Hm) as R.
  unfold write_fil in R. unfold nd_concat in *. cbn [nd_size nd_vals nd_dt] in R. unfold nd_size in R. cbn [nd_vals] in R.
  apply R; [exact Hlen|]. apply Forall_concat. rewrite Forall_map. exact Hrep. Qed.

(** * the packed depths when a call does NOT hand over a whole number of bytes: pack allocates size // bitfact bytes, the
    last size % bitfact samples of THAT call are not written (they are not carried over to the next call) *)
Lemma cwrite_packed_len cfg nbits a b : In nbits [1; 2; 4] -> In nbits depths -> cwrite cfg nbits a = Some b ->
  len b = nd_size a / bf nbits.
Proof. intros Hin Hd Hw. unfold cwrite in Hw.
  destruct (depths_cases nbits Hd) as [_ Hf Hu Hb _ | fdt Hf Hu Hb Hi _].
  - rewrite Hf, Hu in Hw. destruct (prepare (cw_sub cfg) U8 a) as [a'|] eqn:Ep; [|discriminate].
    destruct (pack_chk cfg && negb (dtype_eqb (nd_dt a') U8)); [discriminate|]. injection Hw as <-.
    rewrite (prepare_size _ _ _ _ Ep). unfold pack_len. rewrite Hb. destruct (bf_pos nbits Hin).
    apply len_to_list. apply Z.div_pos; [apply nd_size_nonneg | lia].
  - cbn [In] in Hin. destruct Hin as [<-|[<-|[<-|[]]]]; cbn in Hu; discriminate. Qed.

(** so that two calls with one 4-bit sample each write nothing, while one call with the two samples writes the byte *)
Lemma unaligned_calls_differ cfg :
  cwrite_all cfg 4 [mknd U8 [1]; mknd U8 [2]] = Some [] /\ cwrite cfg 4 (mknd U8 [1; 2]) = Some [18].
Proof. destruct cfg as [s w p]. destruct s, p; vm_compute; split; reflexivity. Qed.

(** * memory layout: strided and read-only arrays *)
Definition LayoutOk (copies : bool) : Prop := forall cfg nbits v,
  cwrite_view copies cfg nbits v = cwrite cfg nbits (view_nd v).
(** an array of the file's own sample type, values representable, is refused because of its layout alone *)
Definition LayoutRefuted (copies : bool) : Prop := forall cfg,
  cwrite_view copies cfg 4 (mkview U8 [1; 9; 2; 9] 0 2 2 true) = None /\
  cwrite_view copies cfg 4 (mkview U8 [1; 2] 0 1 2 false) = None /\
  view_vals (mkview U8 [1; 9; 2; 9] 0 2 2 true) = [1; 2] /\ cwrite cfg 4 (mknd U8 [1; 2]) = Some [18].

Lemma layout_sound : LayoutOk true.
Proof. intros cfg nbits v. unfold cwrite_view. rewrite orb_true_r. destruct (bit_unpack nbits); reflexivity. Qed.

Lemma layout_unsound : LayoutRefuted false.
Proof. intros [s w p]. destruct s, p; vm_compute; repeat split; reflexivity. Qed.

Lemma layout_verdict (copies : bool) : if copies then LayoutOk copies else LayoutRefuted copies.
Proof. destruct copies; [apply layout_sound | apply layout_unsound]. Qed.

Lemma layout_refuted_not_ok (copies : bool) : LayoutRefuted copies -> ~ LayoutOk copies.
Proof. intros HR HO. destruct (HR (mkcfg AsIs Convert true)) as [H1 [_ [_ H4]]].
  rewrite (HO (mkcfg AsIs Convert true) 4 (mkview U8 [1; 9; 2; 9] 0 2 2 true)) in H1.
  vm_compute in H1. discriminate. Qed.

(** whatever the source says: a writable contiguous view is written like the array, and so is every view at 8/16/32 bits *)
Lemma layout_contig copies cfg nbits v : view_contig v = true -> vw_writeable v = true ->
  cwrite_view copies cfg nbits v = cwrite cfg nbits (view_nd v).
Proof. intros Hc Hw. unfold cwrite_view. rewrite Hc, Hw. cbn. destruct (bit_unpack nbits); reflexivity. Qed.

Lemma layout_wide copies cfg nbits v : bit_unpack nbits = false -> cwrite_view copies cfg nbits v = cwrite cfg nbits (view_nd v).
Proof. intro Hu. unfold cwrite_view. rewrite Hu. reflexivity. Qed.

(** a view of n items with in-range positions holds the items of the buffer at those positions (what view_vals means) *)
Lemma view_vals_len v : 0 <= vw_n v -> len (view_vals v) = vw_n v.
Proof. intro H. unfold view_vals, len, zrange. rewrite !map_length, seq_length. lia. Qed.

(** * the length-prefixed header codec satisfies the hypothesis of meta_carried *)
Lemma lp_codec h rest : lp_parse (lp_encode h ++ rest) = Some (h, len (lp_encode h)).
Proof. unfold lp_encode, lp_parse. cbn [app]. unfold len. rewrite Nat2Z.id, firstn_len_app. cbn [length]. f_equal. f_equal. lia. Qed.
