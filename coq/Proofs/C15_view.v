(** C15 -- "views": how the array operations act along a family of multi-indices (a lane, or the whole array in
    C order).  This is the index arithmetic behind `axis=` / `keepdims=True` / broadcasting: an array whose
    dimensions are each 1 or the full size is read through broadcasting at the members of the family. *)
From Coq Require Import ZArith List Bool QArith Qcanon Qcabs Lia.
Require Import SPP.Base.Rt SPP.Base.Iter SPP.Model.C15_np SPP.Proofs.C15_lib SPP.Proofs.C15_order SPP.Proofs.C15_rel.
Import ListNotations.
Open Scope Z_scope.

Definition dimok (dz d : Z) : Prop := dz = 1 \/ dz = d.
(** [sle s t]: [s] broadcasts to [t] without changing [t] (a scalar, or same rank with every dimension 1 or equal) *)
Definition sle (s t : list Z) : Prop := s = nil \/ Forall2 dimok s t.

Lemma clamp_length s : forall I, length I = length s -> length (clamp s I) = length s.
Proof. induction s as [|d s IH]; intros [|i I] H; cbn in *; try lia. now rewrite IH by lia. Qed.

Lemma clamp_le s : forall t I, Forall2 dimok s t -> clamp s (clamp t I) = clamp s I.
Proof. induction s as [|ds s IH]; intros t I H; inversion H as [|? dt ? t' Hd Ht]; subst; [reflexivity|].
  destruct I as [|i I]; [reflexivity|]. cbn [clamp]. rewrite IH by assumption. f_equal.
  destruct (ds =? 1) eqn:E; [reflexivity|]. destruct Hd as [->| ->]; [discriminate|]. now rewrite E. Qed.

Lemma bidx_eqlen s I : length I = length s -> bidx s I = clamp s I.
Proof. intro H. unfold bidx. now rewrite H, Nat.sub_diag. Qed.
Lemma bidx_nil I : bidx nil I = nil.
Proof. reflexivity. Qed.

Lemma Forall2_dimok_length s t : Forall2 dimok s t -> length s = length t.
Proof. induction 1; cbn; lia. Qed.

Lemma bidx_le s t I : sle s t -> t <> nil -> length I = length t -> bidx s (bidx t I) = bidx s I.
Proof. intros [->|H] Ht HI; [reflexivity|]. pose proof (Forall2_dimok_length _ _ H) as L.
  rewrite (bidx_eqlen t I HI). rewrite !bidx_eqlen by (rewrite ?clamp_length; lia). now apply clamp_le. Qed.

Lemma zipw_ones k s : length s = k -> zipw (repeat 1 k) s = s.
Proof. revert s. induction k as [|k IH]; intros [|d s] H; try discriminate; [reflexivity|]. cbn. rewrite IH by (cbn in H; lia). reflexivity. Qed.
Lemma bshape_nil_l s : bshape nil s = s.
Proof. unfold bshape, lpad. cbn [length Nat.sub]. rewrite Nat.sub_0_r, app_nil_r. cbn [repeat app]. now apply zipw_ones. Qed.
Lemma bshape_nil_r' s : bshape s nil = s.
Proof. unfold bshape, lpad. cbn [length]. rewrite Nat.sub_0_r. cbn [Nat.sub repeat app].
  induction s as [|d s IH]; [reflexivity|]. cbn [length repeat app zipw]. rewrite IH.
  destruct (d =? 1) eqn:E; [|reflexivity]. f_equal. lia. Qed.
Lemma bshape_eqlen s t : length s = length t -> bshape s t = zipw s t.
Proof. intro H. unfold bshape, lpad. now rewrite H, Nat.sub_diag. Qed.

Lemma zipw_dimok s : forall t u, Forall2 dimok s u -> Forall2 dimok t u ->
  Forall2 dimok (zipw s t) u /\ Forall2 dimok s (zipw s t) /\ Forall2 dimok t (zipw s t).
Proof. induction s as [|ds s IH]; intros t u Hs Ht; inversion Hs as [|? du ? u' Hd Hs']; subst.
  - inversion Ht; subst. cbn. repeat split; constructor.
  - inversion Ht as [|dt ? t' ? Hd' Ht']; subst. cbn [zipw]. destruct (IH t' u' Hs' Ht') as [I1 [I2 I3]].
    repeat split; constructor; try assumption; unfold dimok in *; destruct (ds =? 1) eqn:E; lia. Qed.

Lemma Forall2_dimok_refl l : Forall2 dimok l l.
Proof. induction l; constructor; [now right|assumption]. Qed.

Section View.
  Variable sh : list Z.
  Hypothesis Hsh : sh <> nil.
  (** shapes that broadcast against [sh] without enlarging it *)
  Definition bc (s : list Z) : Prop := sle s sh.

  Lemma bc_bshape s t : bc s -> bc t -> bc (bshape s t) /\ sle s (bshape s t) /\ sle t (bshape s t).
  Proof. intros [->|Hs] [->|Ht].
    - rewrite bshape_nil_l. repeat split; now left.
    - rewrite bshape_nil_l. repeat split; [now right|now left|right]. clear. induction t; constructor; [now right|assumption].
    - rewrite bshape_nil_r'. repeat split; [now right|right|now left]. clear. induction s; constructor; [now right|assumption].
    - rewrite bshape_eqlen by (rewrite (Forall2_dimok_length _ _ Hs), (Forall2_dimok_length _ _ Ht); reflexivity).
      destruct (zipw_dimok s t sh Hs Ht) as [I1 [I2 I3]]. repeat split; now right. Qed.

  Lemma bc_nonnil_len s : bc s -> s <> nil -> length s = length sh.
  Proof. intros [->|H] Hn; [congruence|]. now apply Forall2_dimok_length. Qed.

  Lemma bshape_nonnil s t : bc s -> bc t -> (s <> nil \/ t <> nil) -> bshape s t <> nil.
  Proof. intros Hs Ht Hn E. destruct (bc_bshape s t Hs Ht) as [_ [L1 L2]]. rewrite E in L1, L2.
    assert (s = nil) by (destruct L1 as [->|L1]; [reflexivity|now inversion L1]).
    assert (t = nil) by (destruct L2 as [->|L2]; [reflexivity|now inversion L2]).
    destruct Hn; congruence. Qed.

  (** reading [X] at the broadcast of a full index [I] *)
  Definition rd (X : nd) (I : list Z) : Qc := get X (bidx (shape X) I).

  Lemma rd_map f X I : rd (nd_map f X) I = f (rd X I).
  Proof. reflexivity. Qed.

  Lemma bidx_through s t I : bc s -> bc t -> length I = length sh ->
    bidx s (bidx (bshape s t) I) = bidx s I /\ bidx t (bidx (bshape s t) I) = bidx t I.
  Proof. intros Hs Ht HI. destruct (bc_bshape s t Hs Ht) as [Hb [L1 L2]].
    destruct (list_eq_dec Z.eq_dec (bshape s t) nil) as [E|NE].
    - rewrite E in *. destruct L1 as [->|L1]; [|inversion L1; subst]; (destruct L2 as [->|L2]; [|inversion L2; subst]); split; reflexivity.
    - pose proof (bc_nonnil_len _ Hb NE) as Lb. split; apply bidx_le; try assumption; lia. Qed.

  Lemma rd_map2 op X Y I : bc (shape X) -> bc (shape Y) -> length I = length sh ->
    rd (nd_map2 op X Y) I = op (rd X I) (rd Y I).
  Proof. intros HX HY HI. unfold rd. cbn [get shape nd_map2].
    destruct (bidx_through _ _ I HX HY HI) as [E1 E2]. now rewrite E1, E2. Qed.

  Lemma bc_map2 op X Y : bc (shape X) -> bc (shape Y) -> bc (shape (nd_map2 op X Y)).
  Proof. intros HX HY. cbn [shape nd_map2]. now apply bc_bshape. Qed.

  Lemma rd_map3 op X Y W I : bc (shape X) -> bc (shape Y) -> bc (shape W) -> length I = length sh ->
    rd (nd_map3 op X Y W) I = op (rd X I) (rd Y I) (rd W I).
  Proof. intros HX HY HW HI. unfold rd. cbn [get shape nd_map3].
    destruct (bc_bshape _ _ HX HY) as [Hb _].
    destruct (bidx_through _ _ I Hb HW HI) as [E1 E2]. rewrite E2.
    destruct (bidx_through _ _ I HX HY HI) as [F1 F2].
    (* X and Y are read through two broadcasts *)
    assert (G : forall s, sle s (bshape (shape X) (shape Y)) -> bc s ->
                bidx s (bidx (bshape (bshape (shape X) (shape Y)) (shape W)) I) = bidx s I).
    { intros s Ls Bs. destruct Ls as [->|Ls]; [reflexivity|].
      destruct (bc_bshape _ _ Hb HW) as [Hbb [L1 _]].
      destruct (list_eq_dec Z.eq_dec (bshape (shape X) (shape Y)) nil) as [E|NE].
      - rewrite E in Ls. inversion Ls; subst. reflexivity.
      - assert (NE2 : bshape (bshape (shape X) (shape Y)) (shape W) <> nil) by (apply bshape_nonnil; auto).
        pose proof (bc_nonnil_len _ Hb NE) as LB. pose proof (bc_nonnil_len _ Hbb NE2) as LT.
        assert (LJ : length (bidx (bshape (bshape (shape X) (shape Y)) (shape W)) I) = length (bshape (shape X) (shape Y))).
        { rewrite bidx_eqlen by lia. rewrite clamp_length by lia. lia. }
        rewrite <- (bidx_le s (bshape (shape X) (shape Y)) (bidx (bshape (bshape (shape X) (shape Y)) (shape W)) I) (or_intror Ls) NE LJ).
        rewrite E1. apply bidx_le; [now right|exact NE|lia]. }
    destruct (bc_bshape _ _ HX HY) as [_ [LX LY]]. now rewrite (G _ LX HX), (G _ LY HY). Qed.

  Lemma bc_map3 op X Y W : bc (shape X) -> bc (shape Y) -> bc (shape W) -> bc (shape (nd_map3 op X Y W)).
  Proof. intros HX HY HW. cbn [shape nd_map3]. apply bc_bshape; [now apply bc_bshape|exact HW]. Qed.

  Lemma bc_full : bc sh.
  Proof. right. apply Forall2_dimok_refl. Qed.
  Lemma bc_scalar : bc nil. Proof. now left. Qed.

  Lemma clamp_in_range s : forall I, in_range s I -> clamp s I = I.
  Proof. induction s as [|d s IH]; intros [|i I] H; cbn in H; try tauto; try reflexivity. destruct H as [Hi H].
    cbn. rewrite IH by assumption. destruct (d =? 1) eqn:E; [|reflexivity]. f_equal. lia. Qed.
  Lemma in_range_length s : forall I, in_range s I -> length I = length s.
  Proof. induction s as [|d s IH]; intros [|i I] H; cbn in H; try tauto; try reflexivity. cbn. f_equal. apply IH. tauto. Qed.
  Lemma rd_full X I : shape X = sh -> in_range sh I -> rd X I = get X I.
  Proof. intros E H. unfold rd. rewrite E, bidx_eqlen by now apply in_range_length. now rewrite clamp_in_range. Qed.

  (** a full-size operand keeps the shape *)
  Lemma zipw_full_l : forall s u, Forall2 dimok s u -> zipw u s = u.
  Proof. induction 1 as [|ds du s u Hd H IH]; [reflexivity|]. cbn. rewrite IH. destruct (du =? 1) eqn:E; [|reflexivity].
    f_equal. unfold dimok in Hd. lia. Qed.
  Lemma zipw_full_r : forall s u, Forall2 dimok s u -> zipw s u = u.
  Proof. induction 1 as [|ds du s u Hd H IH]; [reflexivity|]. cbn. rewrite IH. destruct (ds =? 1) eqn:E; [reflexivity|].
    f_equal. unfold dimok in Hd. lia. Qed.
  Lemma bshape_full_l s : bc s -> bshape sh s = sh.
  Proof. intros [->|H]; [apply bshape_nil_r'|]. rewrite bshape_eqlen by (symmetry; now apply Forall2_dimok_length). now apply zipw_full_l. Qed.
  Lemma bshape_full_r s : bc s -> bshape s sh = sh.
  Proof. intros [->|H]; [apply bshape_nil_l|]. rewrite bshape_eqlen by (now apply Forall2_dimok_length). now apply zipw_full_r. Qed.
End View.
