(** C09 -- plan_blocks (Model/C09_Stream.v) lists exactly the blocks of the regenerated FilReader.read_plan
    (Gen/Plan.v fil_plan, in the normal form C01 proves of it): same number of blocks, same lengths, block ii at
    start + ii * (read size - skipback). *)
From Coq Require Import ZArith List Bool Lia ZifyBool.
Require Import SPP.Base.Rt SPP.Model.C09_Arr2 SPP.Model.C09_Spec SPP.Gen.C09 SPP.Model.C09_Stream SPP.Proofs.C01_plan SPP.Proofs.C09_stream SPP.Proofs.C09_streamw.
Import ListNotations.
Open Scope Z_scope.

(** a block (ii, number of elements, seek after it) of the plan as (samples, ii, first file sample) *)
Definition plan_entry (start g sb nch : Z) (b : Z * Z * Z) : Z * Z * Z :=
  let '(ii, nelem, _) := b in (nelem / nch, ii, start + ii * (g - sb)).

Lemma plan_blocks_full start nsamps g sb nch nreads lastread : 1 <= nch -> 0 <= sb < g -> 1 <= nreads ->
  (nreads - 1) * (g - sb) + g <= nsamps -> (lastread = 0 \/ sb < lastread < g) ->
  (nreads - 1) * (g - sb) + g + (if lastread =? 0 then 0 else lastread - sb) = nsamps ->
  forall k i fuel, Z.of_nat i + Z.of_nat k = nreads -> (k < fuel)%nat ->
    C09_Stream.plan_blocks fuel start nsamps g sb (Z.of_nat i) =
    map (plan_entry start g sb nch) (map (mkfull g sb nch) (map Z.of_nat (seq i k)) ++ (if lastread =? 0 then [] else [(nreads, lastread * nch, 0)])).
Proof.
  intros Hnch Hsb Hnr Hfit Hlast Hcov. induction k as [|k IH]; intros i fuel Hi Hfuel.
  - destruct fuel as [|f]; [lia|]. cbn [C09_Stream.plan_blocks seq map app]. cbv zeta.
    assert (Ei : Z.of_nat i = nreads) by lia. rewrite Ei.
    assert (Eleft : nsamps - nreads * (g - sb) = if lastread =? 0 then sb else lastread) by (destruct (lastread =? 0) eqn:E; nia).
    rewrite Eleft. destruct (lastread =? 0) eqn:E.
    + replace (sb <=? sb) with true by lia. reflexivity.
    + replace (lastread <=? sb) with false by lia. replace (lastread <=? g) with true by lia.
      cbn [map plan_entry]. rewrite Z.div_mul by lia. reflexivity.
  - destruct fuel as [|f]; [lia|]. cbn [C09_Stream.plan_blocks seq map app]. cbv zeta.
    set (off := Z.of_nat i * (g - sb)).
    assert (Hoff : off + g <= nsamps) by (unfold off; nia).
    replace (nsamps - off <=? sb) with false by lia.
    unfold mkfull at 1. cbn [plan_entry]. rewrite Z.div_mul by lia. fold off.
    destruct (nsamps - off <=? g) eqn:E2.
    + (* the last full block ends the range: nothing is left *)
      assert (k = 0%nat) by (unfold off in *; nia). subst k.
      assert (lastread = 0) by (destruct (lastread =? 0) eqn:E; [lia|unfold off in *; nia]). subst lastread.
      cbn [seq map app]. replace (nsamps - off) with g by lia. reflexivity.
    + f_equal. replace (Z.of_nat i + 1) with (Z.of_nat (S i)) by lia. apply IH; lia.
Qed.

(** the regenerated plan of FilReader.read_plan, entry by entry, is plan_blocks *)
Lemma read_plan_is_plan_blocks gulp0 start nsamps skipback0 N nch fuel :
  1 <= gulp0 -> 1 <= nsamps -> Z.abs skipback0 < Z.min nsamps gulp0 -> 1 <= nch -> nsamps < Z.of_nat fuel ->
  exists g sb blocks, Gen.Plan.fil_plan gulp0 start nsamps skipback0 N (N * nch) nch nch = Some (g, sb, start * nch, blocks) /\
    g = Z.min nsamps gulp0 /\ sb = Z.abs skipback0 /\
    map (plan_entry start g sb nch) blocks = C09_Stream.plan_blocks fuel start nsamps g sb 0.
Proof.
  intros Hg Hn Hsb Hnch Hfuel.
  destruct (fil_plan_eq gulp0 start nsamps skipback0 N nch Hg Hn Hsb) as [g [sb [nreads [lastread [E F]]]]].
  destruct F as [Fg Fsb Fsblt Fnr Ffit Flast Fcov].
  exists g, sb, (map (mkfull g sb nch) (zrange nreads) ++ (if lastread =? 0 then [] else [(nreads, lastread * nch, 0)])).
  split; [exact E|]. split; [exact Fg|]. split; [exact Fsb|].
  symmetry. unfold zrange.
  apply (plan_blocks_full start nsamps g sb nch nreads lastread Hnch Fsblt Fnr Ffit Flast Fcov (Z.to_nat nreads) 0%nat fuel); [lia|nia].
Qed.

(** Filterbank.dedisperse over the REGENERATED read plan: read_plan is called with the read size and skip-back of the call
    site; its blocks, taken as (samples, ii, first file sample), drive the loop to the demanded series *)
Lemma stream_over_read_plan x d nchans gulp nsel start N :
  1 <= nchans -> (exists r, 0 <= r < nchans /\ 0 <= d r) -> 1 <= gulp -> span_of nchans d < nsel ->
  exists g sb blocks,
    Gen.Plan.fil_plan (stream_plan_gulp d nchans gulp nsel) start nsel (stream_plan_skipback d nchans gulp nsel) N (N * nchans) nchans nchans
      = Some (g, sb, start * nchans, blocks) /\
    forall k, stream_run x d nchans gulp nsel (map (plan_entry start g sb nchans) blocks) k
              = if (0 <=? k) && (k <? nsel - span_of nchans d) then spec_stream x nchans start d (t0_of nchans d) k else 0.
Proof.
  intros Hn Href Hg Hv.
  assert (Esb : stream_plan_skipback d nchans gulp nsel = span_of nchans d) by (apply stream_maxdelay_span; assumption).
  destruct (stream_plan_facts d nchans gulp nsel Hn) as [Esk [H2 [Hge _]]]. rewrite Esk in Esb. rewrite Esb in H2.
  assert (H0 : 0 <= span_of nchans d) by (unfold span_of; lia).
  destruct (read_plan_is_plan_blocks (stream_plan_gulp d nchans gulp nsel) start nsel (stream_plan_skipback d nchans gulp nsel) N nchans
              (S (Z.to_nat nsel))) as [g [sb [blocks [E [Eg [Es Em]]]]]]; try lia.
  exists g, sb, blocks. split; [exact E|]. intro k. rewrite Em. subst g sb.
  replace (Z.abs (stream_plan_skipback d nchans gulp nsel)) with (stream_plan_skipback d nchans gulp nsel) by lia.
  apply stream_whole_file; try assumption. lia.
Qed.
