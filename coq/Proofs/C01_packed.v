(** C01 at the packed depths: plan_sound (bytes) composed with the C03 unpack theorem. *)
From Coq Require Import ZArith List Bool Lia ZifyBool.
Require Import SPP.Base.Rt SPP.Base.Iter SPP.Gen.Kernels SPP.Gen.Plan SPP.Model.Bits SPP.Model.Stream SPP.Model.Plan SPP.Model.PlanPacked
               SPP.Proofs.C02_stream SPP.Proofs.C01_plan SPP.Proofs.C03_bits.
Import ListNotations.
Open Scope Z_scope.
Ltac Zify.zify_post_hook ::= Z.to_euclidean_division_equations.

(** unpacking a byte list, as a list function *)
Definition unpackL (nbits : Z) (big : bool) (l : list Z) : list Z :=
  flat_map (fun b => map (field nbits big b) (zrange (bf nbits))) l.

Lemma unpackL_app nb big a b : unpackL nb big (a ++ b) = unpackL nb big a ++ unpackL nb big b.
Proof. unfold unpackL. apply flat_map_app. Qed.

Lemma unpackL_len nb big l : 0 <= bf nb -> len (unpackL nb big l) = len l * bf nb.
Proof. intro H. unfold unpackL, len. induction l as [|x r IH]; cbn [flat_map length]; [lia|].
  rewrite app_length, map_length, zrange_length. lia. Qed.

Lemma unpackL_skipn nb big l : 0 <= bf nb -> forall k, (k <= length l)%nat ->
  skipn (k * Z.to_nat (bf nb)) (unpackL nb big l) = unpackL nb big (skipn k l).
Proof. intro H. induction l as [|x r IH]; intros k Hk.
  - destruct k; cbn; [reflexivity|]. cbn in Hk. lia.
  - destruct k; [reflexivity|]. cbn [skipn]. unfold unpackL at 1. cbn [flat_map]. fold (unpackL nb big r).
    replace (S k * Z.to_nat (bf nb))%nat with (length (map (field nb big x) (zrange (bf nb))) + k * Z.to_nat (bf nb))%nat
      by (rewrite map_length, zrange_length; lia).
    rewrite skipn_app. rewrite skipn_all2 by lia. cbn [app].
    replace (length (map (field nb big x) (zrange (bf nb))) + k * Z.to_nat (bf nb) - length (map (field nb big x) (zrange (bf nb))))%nat
      with (k * Z.to_nat (bf nb))%nat by lia.
    apply IH. cbn in Hk. lia. Qed.

Lemma to_list_split a b A : 0 <= a -> 0 <= b -> to_list (a + b) A = to_list a A ++ to_list b (fun k => A (a + k)).
Proof. intros Ha Hb. unfold to_list. rewrite Z2Nat.inj_add by lia. rewrite seq_app, map_app. f_equal.
  assert (E : forall m s, map (fun i => A (Z.of_nat i)) (seq (Z.to_nat a + s) m) = map (fun i => A (a + Z.of_nat i)) (seq s m)).
  { induction m as [|m IH]; intro s; [reflexivity|]. cbn [seq map]. f_equal; [f_equal; lia|].
    replace (S (Z.to_nat a + s)) with (Z.to_nat a + S s)%nat by lia. apply IH. }
  rewrite Nat.add_0_l. rewrite <- (Nat.add_0_r (Z.to_nat a)) at 1. apply E. Qed.

(** the generated kernels (through the dispatch of io/bits.py) compute unpackL on byte lists *)
Lemma unpack_is_unpackL nb big junk : In nb [1; 2; 4] -> forall l, Forall (fun b => 0 <= b < 256) l ->
  to_list (len l * bf nb) (unpack_run nb big (len l) (of_list l) junk) = unpackL nb big l.
Proof. intros Hnb. destruct (bf_pos nb Hnb) as [Hb _].
  induction l as [|x r IH] using rev_ind; intro Hall; [reflexivity|].
  apply Forall_app in Hall as [Hr Hx]. inversion Hx as [|? ? Hx0 _]; subst.
  rewrite unpackL_app, len_app. change (len [x]) with 1.
  replace ((len r + 1) * bf nb) with (len r * bf nb + bf nb) by lia.
  pose proof (len_nonneg r). rewrite to_list_split by nia. f_equal.
  - rewrite <- IH by assumption. unfold to_list. apply map_ext_in. intros i Hi. apply in_seq in Hi.
    rewrite !unpack_run_spec; try assumption; try lia.
    + replace ((0 <=? Z.of_nat i) && (Z.of_nat i <? bf nb * (len r + 1))) with true by nia.
      replace ((0 <=? Z.of_nat i) && (Z.of_nat i <? bf nb * len r)) with true by nia.
      f_equal. unfold of_list. assert (0 <= Z.of_nat i / bf nb < len r) by (split; [apply Z.div_pos; lia|apply Z.div_lt_upper_bound; nia]).
      replace (Z.of_nat i / bf nb <? 0) with false by lia. unfold len in *. rewrite app_nth1 by lia. reflexivity.
    + intros j Hj. unfold of_list. replace (j <? 0) with false by lia. rewrite Forall_forall in Hr. apply Hr. apply nth_In. unfold len in *. lia.
    + intros j Hj. unfold of_list. replace (j <? 0) with false by lia.
      assert (Hall : Forall (fun b => 0 <= b < 256) (r ++ [x])) by (apply Forall_app; split; assumption).
      rewrite Forall_forall in Hall. apply Hall. apply nth_In. rewrite app_length. cbn. unfold len in *. lia.
  - unfold unpackL. cbn [flat_map]. rewrite app_nil_r. unfold to_list, zrange. rewrite !map_map. apply map_ext_in. intros i Hi. apply in_seq in Hi.
    rewrite unpack_run_spec; try assumption; try lia.
    + replace ((0 <=? len r * bf nb + Z.of_nat i) && (len r * bf nb + Z.of_nat i <? bf nb * (len r + 1))) with true by nia.
      replace ((len r * bf nb + Z.of_nat i) / bf nb) with (len r) by (apply Z.div_unique with (r := Z.of_nat i); lia).
      replace ((len r * bf nb + Z.of_nat i) mod bf nb) with (Z.of_nat i) by (apply Z.mod_unique with (q := len r); lia).
      f_equal. unfold of_list. replace (len r <? 0) with false by lia. unfold len. rewrite Nat2Z.id, nth_middle. reflexivity.
    + intros j Hj. unfold of_list. replace (j <? 0) with false by lia.
      assert (Hall : Forall (fun b => 0 <= b < 256) (r ++ [x])) by (apply Forall_app; split; assumption).
      rewrite Forall_forall in Hall. apply Hall. apply nth_In. rewrite app_length. cbn. unfold len in *. lia. Qed.

Lemma unpackL_skipn_any nb big l k : 0 < bf nb ->
  skipn (k * Z.to_nat (bf nb)) (unpackL nb big l) = unpackL nb big (skipn k l).
Proof. intro H. destruct (Nat.le_gt_cases k (length l)) as [Hle|Hgt]; [apply unpackL_skipn; lia|].
  rewrite (skipn_all2 l) by lia. cbn. apply skipn_all2.
  pose proof (unpackL_len nb big l ltac:(lia)). unfold len in *. nia. Qed.

Lemma zrange_add a b : 0 <= a -> 0 <= b -> zrange (a + b) = zrange a ++ map (fun i => a + i) (zrange b).
Proof. intros Ha Hb. unfold zrange. rewrite Z2Nat.inj_add by lia. rewrite seq_app, map_app. f_equal.
  rewrite Nat.add_0_l, map_map.
  assert (E : forall m s, map Z.of_nat (seq (Z.to_nat a + s) m) = map (fun i => a + Z.of_nat i) (seq s m)).
  { induction m as [|m IH]; intro s; [reflexivity|]. cbn [seq map]. f_equal; [lia|].
    replace (S (Z.to_nat a + s)) with (Z.to_nat a + S s)%nat by lia. apply IH. }
  rewrite <- (Nat.add_0_r (Z.to_nat a)) at 1. apply E. Qed.

(** element k of an unpacked byte list *)
Lemma unpackL_index nb big l : 0 < bf nb ->
  unpackL nb big l = map (fun k => field nb big (nth (Z.to_nat (k / bf nb)) l 0) (k mod bf nb)) (zrange (len l * bf nb)).
Proof. intro Hb. induction l as [|x r IH] using rev_ind; [reflexivity|].
  rewrite unpackL_app, IH, len_app. change (len [x]) with 1. pose proof (len_nonneg r).
  replace ((len r + 1) * bf nb) with (len r * bf nb + bf nb) by lia.
  rewrite (zrange_add (len r * bf nb) (bf nb)) by nia. rewrite !map_app. f_equal.
  - unfold zrange. rewrite !map_map. apply map_ext_in. intros i Hi. apply in_seq in Hi.
    assert (0 <= Z.of_nat i / bf nb < len r) by (split; [apply Z.div_pos; lia|apply Z.div_lt_upper_bound; nia]).
    f_equal. unfold len in *. rewrite app_nth1 by lia. reflexivity.
  - unfold unpackL. cbn [flat_map]. rewrite app_nil_r. rewrite map_map. apply map_ext_in. intros i Hi. apply In_zrange in Hi.
    replace ((len r * bf nb + i) / bf nb) with (len r) by (apply Z.div_unique with (r := i); lia).
    replace ((len r * bf nb + i) mod bf nb) with i by (apply Z.mod_unique with (q := len r); lia).
    f_equal. unfold len. rewrite Nat2Z.id, nth_middle. reflexivity. Qed.

Lemma Forall_firstn {A} (P : A -> Prop) l n : Forall P l -> Forall P (firstn n l).
Proof. revert n. induction l as [|x r IH]; intros n H; [rewrite firstn_nil; constructor|]. destruct n; [constructor|].
  inversion H; subst. cbn. constructor; auto. Qed.
Lemma Forall_skipn {A} (P : A -> Prop) l n : Forall P l -> Forall P (skipn n l).
Proof. revert n. induction l as [|x r IH]; intros n H; [rewrite skipn_nil; constructor|]. destruct n; [exact H|].
  inversion H; subst. cbn. auto. Qed.
Lemma Forall_slice (P : Z -> Prop) l a n : Forall P l -> Forall P (slice l a n).
Proof. intro H. unfold slice. apply Forall_firstn, Forall_skipn, H. Qed.

Definition is_byte (b : Z) : Prop := 0 <= b < 256.

(** stitching commutes with unpacking (every block is a whole number of bytes) *)
Lemma stitch_tail_unpack nb big junk d bl : In nb [1; 2; 4] ->
  Forall (fun b : Z * Z * list Z => Forall is_byte (snd b)) bl -> 0 <= d ->
  stitch_tail (d * bf nb) (map (unpack_block nb big junk) bl) = unpackL nb big (stitch_tail d bl).
Proof. intros Hnb Hall Hd. destruct (bf_pos nb Hnb) as [Hb _]. induction bl as [|[[n_r ii] dat] r IH]; [reflexivity|].
  inversion Hall as [|? ? Hx Hr]; subst. cbn [map unpack_block stitch_tail snd] in *.
  rewrite unpackL_app, IH by assumption. f_equal.
  rewrite unpack_is_unpackL by assumption.
  replace (Z.to_nat (d * bf nb)) with (Z.to_nat d * Z.to_nat (bf nb))%nat by nia.
  apply unpackL_skipn_any. lia. Qed.

Lemma stitch_unpack nb big junk d bl : In nb [1; 2; 4] ->
  Forall (fun b : Z * Z * list Z => Forall is_byte (snd b)) bl -> 0 <= d ->
  stitch (d * bf nb) (map (unpack_block nb big junk) bl) = unpackL nb big (stitch d bl).
Proof. intros Hnb Hall Hd. destruct bl as [|[[n_r ii] dat] r]; [reflexivity|].
  inversion Hall as [|? ? Hx Hr]; subst. cbn [map unpack_block stitch snd] in *.
  rewrite unpackL_app, stitch_tail_unpack by assumption. f_equal. apply unpack_is_unpackL; assumption. Qed.

Theorem plan_sound_packed fs nch nbits big N gulp0 start nsamps skipback0 junk :
  In nbits [1; 2; 4] -> (nch * nbits) mod 8 = 0 -> 1 <= nch ->
  1 <= nfiles fs -> total fs = N * samp_bytes nch nbits -> Forall is_byte (flat fs) ->
  0 <= start -> 1 <= nsamps -> start + nsamps <= N -> 1 <= gulp0 -> Z.abs skipback0 < Z.min nsamps gulp0 ->
  exists bl, run_plan_packed fs nch nbits big gulp0 start nsamps skipback0 junk = POk bl /\
    stitch (Z.abs skipback0 * nch) bl = map (fun k => packed_sample fs nbits big (start * nch + k)) (zrange (nsamps * nch)) /\
    Forall (block_ok nch gulp0) bl.
Proof. intros Hnb Hdiv Hc Hf Ht Hbytes Hs0 Hn Hr Hg Hsb. destruct (bf_pos nbits Hnb) as [Hb Hb8].
  set (sbs := samp_bytes nch nbits) in *.
  assert (Hnch : nch = sbs * bf nbits).
  { unfold sbs, samp_bytes. assert (E : nch * nbits = 8 * (nch * nbits / 8)) by (apply Z.div_exact; lia).
    assert (Hnb0 : 0 < nbits) by (cbn [In] in Hnb; lia). nia. }
  assert (Hsbs : 1 <= sbs) by nia.
  unfold run_plan_packed. fold sbs.
  destruct (run_plan_explicit fs sbs N gulp0 start nsamps skipback0 Hf Hsbs Ht Hs0 Hn Hr Hg Hsb) as [g [sb [nreads [lr [F E]]]]].
  destruct (plan_sound fs sbs N gulp0 start nsamps skipback0 Hf Hsbs Ht Hs0 Hn Hr Hg Hsb) as [bl0 [E0 [Hst [Hok _]]]].
  rewrite E0. eexists. split; [reflexivity|].
  assert (Hall : Forall (fun b : Z * Z * list Z => Forall is_byte (snd b)) bl0).
  { rewrite E in E0. injection E0 as <-. unfold plan_blocks. apply Forall_app. split.
    - apply Forall_forall. intros b Hbin. apply in_map_iff in Hbin as [i [<- _]]. unfold blk. cbn [snd]. apply Forall_slice, Hbytes.
    - destruct (lr =? 0); constructor; [|constructor]. cbn [snd]. apply Forall_slice, Hbytes. }
  split.
  - rewrite Hnch. replace (Z.abs skipback0 * (sbs * bf nbits)) with ((Z.abs skipback0 * sbs) * bf nbits) by lia.
    rewrite stitch_unpack by (try assumption; nia). rewrite Hst.
    rewrite unpackL_index by lia.
    assert (Hlen : len (slice (flat fs) (start * sbs) (nsamps * sbs)) = nsamps * sbs) by (apply slice_len; try nia; rewrite len_flat; nia).
    rewrite Hlen. replace (nsamps * sbs * bf nbits) with (nsamps * (sbs * bf nbits)) by lia.
    apply map_ext_in. intros k Hk. apply In_zrange in Hk. unfold packed_sample.
    assert (Hq : 0 <= k / bf nbits < nsamps * sbs) by (split; [apply Z.div_pos; lia|apply Z.div_lt_upper_bound; nia]).
    rewrite (slice_nth (flat fs) (start * sbs) (nsamps * sbs) (k / bf nbits) 0) by (try nia; rewrite len_flat; nia).
    replace ((start * (sbs * bf nbits) + k) / bf nbits) with (start * sbs + k / bf nbits)
      by (apply Z.div_unique with (r := k mod bf nbits); [left; apply Z.mod_pos_bound; lia|pose proof (Z.div_mod k (bf nbits)); nia]).
    replace ((start * (sbs * bf nbits) + k) mod bf nbits) with (k mod bf nbits)
      by (apply Z.mod_unique with (q := start * sbs + k / bf nbits); [left; apply Z.mod_pos_bound; lia|pose proof (Z.div_mod k (bf nbits)); nia]).
    reflexivity.
  - apply Forall_forall. intros b Hbin. apply in_map_iff in Hbin as [[[n_r ii] dat] [<- Hin]].
    rewrite Forall_forall in Hok. specialize (Hok _ Hin). unfold block_ok in *. cbn [unpack_block]. destruct Hok as [Hl Hr'].
    split; [|assumption]. unfold len. rewrite to_list_length. fold (len dat). rewrite Hl. nia. Qed.

(** * reading a packed file set = reading the byte-wide set that holds its unpacked samples *)
Lemma unpackL_firstn nb big l : 0 < bf nb -> forall k,
  firstn (k * Z.to_nat (bf nb)) (unpackL nb big l) = unpackL nb big (firstn k l).
Proof. intro H. induction l as [|x r IH]; intro k.
  - rewrite !firstn_nil. reflexivity.
  - destruct k; [reflexivity|]. cbn [firstn]. unfold unpackL. cbn [flat_map]. fold (unpackL nb big r). fold (unpackL nb big (firstn k r)).
    replace (S k * Z.to_nat (bf nb))%nat with (length (map (field nb big x) (zrange (bf nb))) + k * Z.to_nat (bf nb))%nat
      by (rewrite map_length, zrange_length; lia).
    rewrite firstn_app_2. f_equal. apply IH. Qed.

Lemma unpackL_slice nb big l a n : 0 < bf nb -> 0 <= a -> 0 <= n ->
  unpackL nb big (slice l a n) = slice (unpackL nb big l) (a * bf nb) (n * bf nb).
Proof. intros Hb Ha Hn. unfold slice.
  replace (Z.to_nat (n * bf nb)) with (Z.to_nat n * Z.to_nat (bf nb))%nat by nia.
  replace (Z.to_nat (a * bf nb)) with (Z.to_nat a * Z.to_nat (bf nb))%nat by nia.
  rewrite unpackL_skipn_any by assumption. rewrite unpackL_firstn by assumption. reflexivity. Qed.

Definition unpacked_set (fs : list file) (nbits : Z) (big : bool) : list file := [mkfile [] (unpackL nbits big (flat fs))].

Theorem run_plan_packed_as_bytes fs nch nbits big N gulp0 start nsamps skipback0 junk :
  In nbits [1; 2; 4] -> (nch * nbits) mod 8 = 0 -> 1 <= nch ->
  1 <= nfiles fs -> total fs = N * samp_bytes nch nbits -> Forall is_byte (flat fs) ->
  0 <= start -> 1 <= nsamps -> start + nsamps <= N -> 1 <= gulp0 -> Z.abs skipback0 < Z.min nsamps gulp0 ->
  run_plan_packed fs nch nbits big gulp0 start nsamps skipback0 junk =
  run_plan (unpacked_set fs nbits big) nch gulp0 start nsamps skipback0
  /\ 1 <= nfiles (unpacked_set fs nbits big) /\ total (unpacked_set fs nbits big) = N * nch.
Proof. intros Hnb Hdiv Hc Hf Ht Hbytes Hs0 Hn Hr Hg Hsb. destruct (bf_pos nbits Hnb) as [Hb Hb8].
  set (sbs := samp_bytes nch nbits) in *.
  assert (Hnch : nch = sbs * bf nbits).
  { unfold sbs, samp_bytes. assert (E : nch * nbits = 8 * (nch * nbits / 8)) by (apply Z.div_exact; lia).
    assert (Hnb0 : 0 < nbits) by (cbn [In] in Hnb; lia). nia. }
  assert (Hsbs : 1 <= sbs) by nia.
  assert (Hf' : 1 <= nfiles (unpacked_set fs nbits big)) by (unfold nfiles, unpacked_set; cbn; lia).
  assert (Ht' : total (unpacked_set fs nbits big) = N * nch).
  { unfold total, unpacked_set, datalen. cbn [map dat fold_right]. fold (len (unpackL nbits big (flat fs))).
    rewrite unpackL_len by lia. rewrite len_flat, Ht. nia. }
  split; [|split; assumption].
  unfold run_plan_packed. fold sbs.
  rewrite (run_plan_params fs sbs N gulp0 start nsamps skipback0 Hf Hsbs Ht Hs0 Hn Hr Hg Hsb).
  rewrite (run_plan_params (unpacked_set fs nbits big) nch N gulp0 start nsamps skipback0 Hf' Hc Ht' Hs0 Hn Hr Hg Hsb).
  pose proof (fil_plan_params gulp0 start nsamps skipback0 N nch Hg Hn Hsb) as L.
  destruct (plan_params gulp0 nsamps skipback0) as [[[g sb] nreads] lr]. destruct L as [_ F].
  destruct F as [Fg Fsb Fsblt Fnr Ffit Flast Fcov].
  f_equal. unfold plan_blocks. rewrite map_app. f_equal.
  - rewrite map_map. apply map_ext_in. intros i Hi. apply In_zrange in Hi. unfold blk, unpack_block.
    assert (HP : 0 <= P sbs start g sb i) by (apply P_nonneg; lia).
    rewrite unpack_is_unpackL by (try assumption; apply Forall_slice, Hbytes).
    rewrite unpackL_slice by (try lia; nia). unfold unpacked_set, flat. cbn [map dat concat]. rewrite app_nil_r.
    f_equal. f_equal; unfold P; nia.
  - destruct (lr =? 0) eqn:E; [reflexivity|]. cbn [map unpack_block].
    assert (HP : 0 <= P sbs start g sb nreads) by (apply P_nonneg; lia).
    rewrite unpack_is_unpackL by (try assumption; apply Forall_slice, Hbytes).
    rewrite unpackL_slice by (try lia; nia). unfold unpacked_set, flat. cbn [map dat concat]. rewrite app_nil_r.
    f_equal. f_equal. f_equal; unfold P; nia. Qed.
