(** C08: what the PINNED tree did (Model/C08_pinned.v): [..._refuted] witnesses of the clauses it violated and
    [..._partial] theorems for the regime in which it was right (which is the regime the test-suite samples:
    foff = -4 MHz, start = 0, first channel).  All closed computations ([vm_compute]) on concrete headers. *)
From Coq Require Import ZArith QArith Qround Qabs Qminmax Qfield Lqa String List Bool Lia ZifyBool PrimFloat.
Require Import SPP.Model.C08_rt SPP.Model.C08_spec SPP.Model.C08_pinned SPP.Proofs.C08_lib.
Import ListNotations.
Open Scope Z_scope.

(** a band of 8 channels, fch1 = 1500 MHz, foff = -1/10 MHz, 8 bit, 100 samples of 64 us from MJD 58000 *)
Definition hA : Hdr := mkHdr 8 8 100 1500 (- (1 # 10)) (64 # 1000000) 58000 0 1.
(** the same band labelled upwards: fch1 = 1200, foff = +1/10 *)
Definition hB : Hdr := mkHdr 8 8 100 1200 (1 # 10) (64 # 1000000) 58000 0 1.
(** the fixture-like channelisation: foff = -4 (exact in binary), 64 channels *)
Definition hC : Hdr := mkHdr 64 8 100 1500 (-4) (64 # 1000000) 58000 0 1.

(** ---- frequency -> channel index ------------------------------------------------------------------------ *)

(** binary64: 1500 + 3 * (-0.1) requested from a file with fch1 = 1500, foff = -0.1 selects channel 2, not 3 *)
Lemma pinned_freq_to_index_refuted :
  pinned_chan_start_f (1500 + 3 * (-0x1.999999999999ap-4))%float 1500%float (-0x1.999999999999ap-4)%float = 2.
Proof. vm_compute. reflexivity. Qed.

(** foff = -1/3 (0x1.5555555555555p-2), fch1 = 1400: the frequency of channel 1 selects channel 0 *)
Lemma pinned_freq_to_index_third_refuted :
  pinned_chan_start_f (1400 + 1 * (-0x1.5555555555555p-2))%float 1400%float (-0x1.5555555555555p-2)%float = 0.
Proof. vm_compute. reflexivity. Qed.

(** the conversion itself: an error of any size from below moves the index (here 3 - 2^-40) *)
Lemma pinned_to_index_not_robust_refuted : exists x : Q, (Qabs (x - inject_Z 3) < 1 # 1000000000000)%Q /\ pinned_to_index x <> 3.
Proof. exists (3 - (1 # 1099511627776))%Q. split; [vm_compute; reflexivity | vm_compute; discriminate]. Qed.

(** in exact arithmetic, and for a quotient that errs upwards only, truncation is right: this is why foff = -4 works *)
Lemma pinned_to_index_partial : forall (k : Z) (x : Q), 0 <= k -> (inject_Z k <= x)%Q -> (x < inject_Z (k + 1))%Q -> pinned_to_index x = k.
Proof. intros. unfold pinned_to_index. apply Qtrunc_above; assumption. Qed.

Lemma pinned_freq_to_index_dyadic_example :
  pinned_chan_start_f (1500 + 37 * (-4))%float 1500%float (-4)%float = 37.
Proof. vm_compute. reflexivity. Qed.

(** foff > 0: the guard `fch1 > self.header.fch1` refuses every channel but the first *)
Lemma pinned_read_block_positive_foff_refuted : pinned_read_block_model hB 0 10 (label hB 3) 2 10 = None.
Proof. vm_compute. reflexivity. Qed.

Lemma pinned_read_block_positive_foff_general_refuted : forall h start nsamps k n nsr,
  (0 < h_foff h)%Q -> 1 <= k -> pinned_read_block_model h start nsamps (label h k) n nsr = None.
Proof.
  intros h start nsamps k n nsr Hf Hk. unfold pinned_read_block_model.
  assert (G : Qle_bool (label h k) (h_fch1 h) = false).
  { destruct (Qle_bool (label h k) (h_fch1 h)) eqn:E; [| reflexivity]. apply Qle_bool_iff in E. unfold label in E.
    assert (1 <= inject_Z k)%Q by (change 1%Q with (inject_Z 1); rewrite <- Zle_Qle; exact Hk). nra. }
  rewrite G. reflexivity.
Qed.

(** a request running past the last channel is accepted and returns fewer rows than the header declares *)
Lemma pinned_read_block_overrun_refuted :
  exists cs rows h', pinned_read_block_model hA 0 10 (label hA 6) 4 10 = Some (cs, rows, h') /\ rows = 2 /\ h_nchans h' = 4.
Proof. eexists _, _, _. split; [vm_compute; reflexivity | split; reflexivity]. Qed.

(** negative foff, exact arithmetic, request inside the band: the pinned read_block was right *)
Lemma pinned_read_block_partial : forall h start nsamps k n nsr,
  (h_foff h < 0)%Q -> 0 <= k -> 0 <= n -> k + n <= h_nchans h -> 0 <= start -> start + nsamps <= h_nsamples h ->
  exists h', pinned_read_block_model h start nsamps (label h k) n nsr = Some (k, n, h') /\ copies_channels h h' k /\ advanced h h' start.
Proof.
  intros h start nsamps k n nsr Hf Hk Hn Hkn Hs Hsn. unfold pinned_read_block_model.
  assert (G : Qle_bool (label h k) (h_fch1 h) = true).
  { apply Qle_bool_iff. unfold label. assert (0 <= inject_Z k)%Q by (change 0%Q with (inject_Z 0); rewrite <- Zle_Qle; exact Hk). nra. }
  rewrite G.
  assert (G1 : negb true || (n >? h_nchans h) = false) by lia. rewrite G1.
  assert (G2 : (start <? 0) || (start + nsamps >? h_nsamples h) = false) by lia. rewrite G2.
  assert (C : pinned_to_index ((label h k - h_fch1 h) / h_foff h) = k).
  { unfold pinned_to_index. apply Qtrunc_exact. unfold label. field. lra. }
  rewrite C. rewrite py_slice_len_inrange by lia. eexists. split; [reflexivity |].
  cbv [new_header fold_left known existsb pinned_fields String.eqb Ascii.eqb Bool.eqb andb orb fst snd
       set_field val_Q val_Z h_nchans h_nbits h_nsamples h_fch1 h_foff h_tsamp h_tstart h_dm h_dtype label
       advanced copies_channels pinned_mjd_after_nsamps].
  split; [intro j; rewrite inject_Z_plus; ring | reflexivity].
Qed.

(** ---- subband ------------------------------------------------------------------------------------------- *)

(** fch1 of the first of 2 sub-bands of hA: 1500.55 MHz, above the top edge of the band (1500.05) *)
Lemma pinned_subband_fch1_refuted :
  let h' := pinned_hdr_subband hA 10 2 0 in
  ~ Qbetween (label hA 0) (label hA 3) (label h' 0) /\ ~ Qbetween (label hA 0) (label hA 7) (label h' 0).
Proof. split; apply Qbetween_b_false; vm_compute; reflexivity. Qed.

(** float floor division: 4 channels of -1/10 MHz make a sub-band of "-1" MHz *)
Lemma pinned_subband_foff_refuted : (h_foff (pinned_hdr_subband hA 10 2 0) == -1)%Q /\ ~ (h_foff (pinned_hdr_subband hA 10 2 0) == h_foff hA * 4)%Q.
Proof. split; vm_compute; [reflexivity | discriminate]. Qed.

(** positive sub-integer foff collapses to a channel spacing of 0 *)
Lemma pinned_subband_foff_zero_refuted : (h_foff (pinned_hdr_subband hB 10 2 0) == 0)%Q.
Proof. vm_compute. reflexivity. Qed.

(** the DM is stored under a key that new_header drops *)
Lemma pinned_subband_dm_refuted : forall h dm nsub start, (h_dm (pinned_hdr_subband h dm nsub start) == h_dm h)%Q.
Proof.
  intros. unfold pinned_hdr_subband, pinned_upd_subband. cbv [prep_outfile].
  destruct (32 =? h_nbits h);
  cbv [new_header fold_left known existsb pinned_fields String.eqb Ascii.eqb Bool.eqb andb orb fst snd app
       set_field val_Q val_Z h_nchans h_nbits h_nsamples h_fch1 h_foff h_tsamp h_tstart h_dm h_dtype]; reflexivity.
Qed.

(** when foff*nchans/nsub happens to be a whole number of MHz the spacing is right (the fixtures: -4 * 64 / 8) *)
Lemma pinned_subband_foff_partial : forall h dm nsub start (m : Z),
  (h_foff h * inject_Z (h_nchans h) / inject_Z nsub == inject_Z m)%Q -> (h_foff (pinned_hdr_subband h dm nsub start) == inject_Z m)%Q.
Proof.
  intros h dm nsub start m E. unfold pinned_hdr_subband, pinned_upd_subband. cbv [prep_outfile].
  destruct (32 =? h_nbits h);
  cbv [new_header fold_left known existsb pinned_fields String.eqb Ascii.eqb Bool.eqb andb orb fst snd app
       set_field val_Q val_Z h_nchans h_nbits h_nsamples h_fch1 h_foff h_tsamp h_tstart h_dm h_dtype];
  unfold Qfloordiv; rewrite E, Qfloor_Z; reflexivity.
Qed.

Lemma pinned_subband_foff_fixture_example : (h_foff (pinned_hdr_subband hC 10 8 0) == h_foff hC * 8)%Q.
Proof. vm_compute. reflexivity. Qed.
(** ... but even there the first sub-band is labelled 1516 MHz, above every input channel (1500 ... 1248) *)
Lemma pinned_subband_fch1_fixture_refuted : ~ Qbetween (label hC 0) (label hC 63) (label (pinned_hdr_subband hC 10 8 0) 0).
Proof. apply Qbetween_b_false. vm_compute. reflexivity. Qed.

(** ---- tstart of sub-range products ----------------------------------------------------------------------- *)

Lemma pinned_collapse_tstart_refuted : forall h start nsamps b, (h_tstart (pinned_hdr_collapse h start nsamps b) == h_tstart h)%Q.
Proof.
  intros. unfold pinned_hdr_collapse, pinned_upd_collapse.
  cbv [new_header fold_left known existsb pinned_fields String.eqb Ascii.eqb Bool.eqb andb orb fst snd
       set_field val_Q val_Z h_nchans h_nbits h_nsamples h_fch1 h_foff h_tsamp h_tstart h_dm h_dtype]. reflexivity.
Qed.

Lemma pinned_collapse_not_advanced_refuted : ~ advanced hA (pinned_hdr_collapse hA 10 20 false) 10.
Proof. unfold advanced. vm_compute. discriminate. Qed.

Lemma pinned_downsample_not_advanced_refuted : ~ advanced hA (pinned_hdr_downsample hA 2 2 10) 10.
Proof. unfold advanced. vm_compute. discriminate. Qed.

(** start = 0 is the regime in which leaving tstart alone is right *)
Lemma pinned_collapse_tstart_partial : forall h nsamps b, advanced h (pinned_hdr_collapse h 0 nsamps b) 0.
Proof.
  intros. unfold advanced. rewrite pinned_collapse_tstart_refuted. change (inject_Z 0) with 0%Q. field.
Qed.

(** ---- single-channel products ---------------------------------------------------------------------------- *)

Lemma pinned_read_chan_label_refuted : ~ (label (pinned_hdr_read_chan hA 3 0 10 false) 0 == label hA 3)%Q.
Proof. vm_compute. discriminate. Qed.

Lemma pinned_extract_chans_label_refuted : ~ (label (pinned_hdr_extract_chans hA 3 0) 0 == label hA 3)%Q.
Proof. vm_compute. discriminate. Qed.

(** channel 0 is the one channel whose label was right *)
Lemma pinned_read_chan_label_partial : forall h start nsamps b, (label (pinned_hdr_read_chan h 0 start nsamps b) 0 == label h 0)%Q.
Proof.
  intros. unfold pinned_hdr_read_chan, pinned_upd_read_chan.
  cbv [new_header fold_left known existsb pinned_fields String.eqb Ascii.eqb Bool.eqb andb orb fst snd
       set_field val_Q val_Z h_nchans h_nbits h_nsamples h_fch1 h_foff h_tsamp h_tstart h_dm h_dtype label]. reflexivity.
Qed.

(** ---- to_file of a dedispersed block --------------------------------------------------------------------- *)

Lemma pinned_block_to_file_dm_refuted : ~ (h_dm (pinned_hdr_block_to_file hA 25) == 25)%Q.
Proof. vm_compute. discriminate. Qed.

Lemma pinned_block_to_file_dm_partial : forall h, (h_dm (pinned_hdr_block_to_file h (h_dm h)) == h_dm h)%Q.
Proof.
  intros. unfold pinned_hdr_block_to_file, pinned_upd_block_to_file. cbv [prep_outfile].
  destruct (32 =? h_nbits h);
  cbv [new_header fold_left known existsb pinned_fields String.eqb Ascii.eqb Bool.eqb andb orb fst snd app
       set_field val_Q val_Z h_nchans h_nbits h_nsamples h_fch1 h_foff h_tsamp h_tstart h_dm h_dtype]; reflexivity.
Qed.
