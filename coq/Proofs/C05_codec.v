(** C05: lemmas about the header codec model (Model/C05_HeaderCodec.v) over the regenerated tables
    (Gen/C05Header.v).  All statements are for headers of every length and content. *)
From Coq Require Import ZArith List Bool Lia ZifyBool Arith.
Require Import SPP.Gen.C05Header SPP.Model.C05_HeaderCodec.
Import ListNotations.
Open Scope Z_scope.
Ltac Zify.zify_post_hook ::= Z.to_euclidean_division_equations.

(** * byte strings *)
Lemma bytes_eqb_eq a b : bytes_eqb a b = true <-> a = b.
Proof.
  revert b; induction a as [|x a IH]; destruct b as [|y b]; cbn; split; try congruence; try discriminate.
  - intros H. apply andb_true_iff in H as [H1 H2]. apply Z.eqb_eq in H1. apply IH in H2. congruence.
  - intros [= -> ->]. rewrite Z.eqb_refl. cbn. apply IH. reflexivity.
Qed.

Lemma bytes_eqb_refl a : bytes_eqb a a = true.
Proof. apply bytes_eqb_eq. reflexivity. Qed.

Lemma bytes_eqb_neq a b : a <> b -> bytes_eqb a b = false.
Proof. intros H. destruct (bytes_eqb a b) eqn:E; [apply bytes_eqb_eq in E; contradiction|reflexivity]. Qed.

Lemma lookup_In {A} k (tbl : list (bytes * A)) a : lookup k tbl = Some a -> In (k, a) tbl.
Proof.
  induction tbl as [|[k' a'] r IH]; cbn; [discriminate|].
  destruct (bytes_eqb k k') eqn:E.
  - apply bytes_eqb_eq in E. intros [= ->]. left. congruence.
  - intros H. right. auto.
Qed.

Lemma lookup_None_notin {A} k (tbl : list (bytes * A)) : lookup k tbl = None -> ~ In k (map fst tbl).
Proof.
  induction tbl as [|[k' a'] r IH]; cbn; [tauto|].
  destruct (bytes_eqb k k') eqn:E; [discriminate|].
  intros H [->|H']; [rewrite bytes_eqb_refl in E; discriminate|]. apply IH; assumption.
Qed.

Lemma notin_lookup_None {A} k (tbl : list (bytes * A)) : ~ In k (map fst tbl) -> lookup k tbl = None.
Proof.
  induction tbl as [|[k' a'] r IH]; cbn; [reflexivity|]. intros H.
  rewrite bytes_eqb_neq by (intros ->; tauto). apply IH. tauto.
Qed.

(** * facts about the regenerated table (finite checks on the literal) *)
Lemma table_keys_ok :
  forallb (fun e => no_cont (fst e) && (blen (fst e) <? 4294967296) && negb (bytes_eqb (fst e) kw_header_end)) header_keys = true.
Proof. vm_compute. reflexivity. Qed.

Lemma keywords_ok :
  no_cont kw_header_start && no_cont kw_header_end && (blen kw_header_start <? 4294967296) && (blen kw_header_end <? 4294967296) = true.
Proof. vm_compute. reflexivity. Qed.

Lemma table_keys_utf8 : forallb (fun e => valid_utf8 (fst e)) header_keys = true.
Proof. vm_compute. reflexivity. Qed.

Lemma keywords_utf8 : valid_utf8 kw_header_start = true /\ valid_utf8 kw_header_end = true.
Proof. split; vm_compute; reflexivity. Qed.

Lemma table_key_utf8 k t : lookup k header_keys = Some t -> valid_utf8 k = true.
Proof.
  intros H. apply lookup_In in H. pose proof table_keys_utf8 as T. rewrite forallb_forall in T. exact (T _ H).
Qed.

Lemma table_key k t : lookup k header_keys = Some t ->
  no_cont k = true /\ blen k < 4294967296 /\ k <> kw_header_end.
Proof.
  intros H. apply lookup_In in H. pose proof table_keys_ok as T. rewrite forallb_forall in T.
  specialize (T _ H). cbn [fst] in T. apply andb_true_iff in T as [T T3]. apply andb_true_iff in T as [T1 T2].
  repeat split; [assumption|lia|]. intros ->. rewrite bytes_eqb_refl in T3. discriminate.
Qed.

Lemma type_of_lookup k t : lookup k header_keys = Some t -> type_of k = t.
Proof. unfold type_of. intros ->. reflexivity. Qed.

(** * length prefixes *)
Lemma length_le32 n : length (le32 n) = 4%nat.
Proof. reflexivity. Qed.

Lemma read_u32_le32 n r : 0 <= n < 4294967296 -> read_u32 (le32 n ++ r) = Some (n, r).
Proof. intros H. unfold le32. cbn [app read_u32]. f_equal. f_equal. lia. Qed.

Lemma py_len_no_cont s : no_cont s = true -> py_len s = blen s.
Proof.
  unfold py_len, blen, no_cont. induction s as [|b s IH]; cbn; [reflexivity|].
  intros H. apply andb_true_iff in H as [H1 H2]. rewrite H1. cbn [length]. specialize (IH H2). lia.
Qed.

Lemma enc_string_fmt chars s : blen s < 4294967296 -> chars = false \/ no_cont s = true ->
  enc_string chars s = Some (fmt_string s).
Proof.
  intros Hl Hc. unfold enc_string, fmt_string, pack_u32.
  assert ((if chars then py_len s else blen s) = blen s) as -> by (destruct chars, Hc as [?|?]; try discriminate; try reflexivity; apply py_len_no_cont; assumption).
  unfold blen in *. destruct (0 <=? Z.of_nat (length s)) eqn:?, (Z.of_nat (length s) <? 4294967296) eqn:?; cbn; try reflexivity; lia.
Qed.

Lemma read_string_fmt s r : blen s < 4294967296 -> valid_utf8 s = true -> read_string (fmt_string s ++ r) = Some (s, r).
Proof.
  intros H Hv. unfold read_string, fmt_string. rewrite <- app_assoc, read_u32_le32 by (unfold blen in *; lia).
  cbv zeta. replace (Z.to_nat (Z.min (blen s) (blen (s ++ r)))) with (length s) by (unfold blen; rewrite app_length; lia).
  rewrite firstn_app, skipn_app, Nat.sub_diag, firstn_all, skipn_all. cbn [firstn skipn].
  rewrite !app_nil_r, Hv. reflexivity.
Qed.

Lemma length_fmt_string s : length (fmt_string s) = (4 + length s)%nat.
Proof. unfold fmt_string. rewrite app_length. reflexivity. Qed.

(** * values *)
Lemma read_value_fmt t v r : wf_value t v -> read_value t (fmt_value t v ++ r) = Some (v, r).
Proof.
  destruct t, v; cbn [wf_value]; try contradiction; intros H.
  - cbn. f_equal. f_equal. f_equal. destruct (n mod 256 <? 128) eqn:?; lia.
  - unfold read_value, fmt_value. rewrite read_u32_le32 by assumption. reflexivity.
  - unfold read_value, fmt_value, blen. rewrite app_length.
    destruct (8 <=? Z.of_nat (length w + length r)) eqn:E; [|lia].
    replace 8%nat with (length w) by assumption.
    rewrite firstn_app, skipn_app, Nat.sub_diag, firstn_all, skipn_all. cbn [firstn skipn]. rewrite app_nil_r. reflexivity.
  - destruct H as [H Hv]. unfold read_value, fmt_value. rewrite read_string_fmt by assumption. reflexivity.
Qed.

Lemma enc_value_fmt vc t v : wf_value t v -> vc = false \/ value_no_cont v = true ->
  enc_value vc t v = Some (fmt_value t v).
Proof.
  destruct t, v; cbn [wf_value]; try contradiction; intros H Hc; cbn [enc_value fmt_value].
  - destruct (-128 <=? n) eqn:?, (n <=? 127) eqn:?; cbn; try reflexivity; lia.
  - unfold pack_u32. destruct (0 <=? n) eqn:?, (n <? 4294967296) eqn:?; cbn; try reflexivity; lia.
  - reflexivity.
  - apply enc_string_fmt; [apply H|assumption].
Qed.

Lemma fmt_value_pos t v : wf_value t v -> (1 <= length (fmt_value t v))%nat.
Proof.
  destruct t, v; cbn [wf_value fmt_value]; try contradiction; intros H.
  - cbn. lia.
  - rewrite length_le32. lia.
  - lia.
  - rewrite length_fmt_string. lia.
Qed.

(** a successful [enc_value] of something other than [None] whose length equals that of a well-formed value of
    the same type is itself well-formed (and is the layout's encoding when lengths are counted in bytes) *)
Lemma enc_value_wf vc t v b old : enc_value vc t v = Some b -> wf_value t old ->
  length b = length (fmt_value t old) -> value_utf8 v = true -> wf_value t v.
Proof.
  destruct t, v; cbn [enc_value]; try discriminate; intros E Ho Hl Hu.
  - cbn. revert E. destruct (-128 <=? n) eqn:?, (n <=? 127) eqn:?; cbn; try discriminate; intros _; clear Ho Hl; lia.
  - injection E as <-. pose proof (fmt_value_pos _ _ Ho). cbn [length] in Hl. lia.
  - cbn. revert E. unfold pack_u32. destruct (0 <=? n) eqn:?, (n <? 4294967296) eqn:?; cbn; try discriminate; intros _; clear Ho Hl; lia.
  - injection E as <-. pose proof (fmt_value_pos _ _ Ho). cbn [length] in Hl. lia.
  - injection E as <-. destruct old; cbn in Ho; try contradiction. cbn in Hl. cbn. lia.
  - injection E as <-. pose proof (fmt_value_pos _ _ Ho). cbn [length] in Hl. lia.
  - unfold enc_string in E. destruct (pack_u32 _) as [p|] eqn:Ep; [|discriminate]. injection E as <-.
    unfold pack_u32 in Ep. destruct ((0 <=? _) && (_ <? 4294967296)); [|discriminate]. injection Ep as <-.
    destruct old; cbn in Ho; try contradiction. cbn [fmt_value] in Hl. rewrite length_fmt_string, app_length, length_le32 in Hl.
    cbn. split; [unfold blen in *; lia|exact Hu].
  - injection E as <-. pose proof (fmt_value_pos _ _ Ho). cbn [length] in Hl. lia.
Qed.

(** * dictionaries *)
Lemma dict_set_notin d k v : ~ In k (map fst d) -> dict_set d k v = d ++ [(k, v)].
Proof.
  induction d as [|[k' v'] r IH]; cbn; [reflexivity|]. intros H.
  rewrite bytes_eqb_neq by (intros ->; tauto). rewrite IH by tauto. reflexivity.
Qed.

Lemma dict_set_in d k v : In k (map fst d) -> NoDup (map fst d) ->
  exists d1 old d2, d = d1 ++ (k, old) :: d2 /\ dict_set d k v = d1 ++ (k, v) :: d2 /\ ~ In k (map fst d1).
Proof.
  induction d as [|[k' v'] r IH]; cbn; [tauto|]. intros Hin Hnd. inversion Hnd as [|? ? Hk' Hr]; subst.
  destruct (bytes_eqb k k') eqn:E.
  - apply bytes_eqb_eq in E. subst k'. exists [], v', r. cbn. auto.
  - destruct Hin as [->|Hin]; [rewrite bytes_eqb_refl in E; discriminate|].
    destruct (IH Hin Hr) as (d1 & old & d2 & -> & -> & Hn). exists ((k', v') :: d1), old, d2. cbn.
    repeat split. intros [->|?]; [rewrite bytes_eqb_refl in E; discriminate|contradiction].
Qed.

Lemma fold_dict_set h : forall acc, NoDup (map fst (acc ++ h)) ->
  fold_left (fun d e => dict_set d (fst e) (snd e)) h acc = acc ++ h.
Proof.
  induction h as [|[k v] h IH]; intros acc Hnd; cbn [fold_left]; [rewrite app_nil_r; reflexivity|].
  cbn [fst snd]. rewrite dict_set_notin.
  - rewrite IH; rewrite <- app_assoc; [reflexivity|exact Hnd].
  - rewrite map_app in Hnd. cbn in Hnd. apply NoDup_remove_2 in Hnd. intros H. apply Hnd. apply in_or_app. left. exact H.
Qed.

(** * the parser accepts the layout *)
Lemma fmt_entries_app a b : fmt_entries (a ++ b) = fmt_entries a ++ fmt_entries b.
Proof. unfold fmt_entries. apply flat_map_app. Qed.

Lemma parse_loop_fmt h : forall fuel acc rest, Forall wf_entry h -> (length h < fuel)%nat ->
  parse_loop fuel (fmt_entries h ++ fmt_string kw_header_end ++ rest) acc
  = Some (fold_left (fun d e => dict_set d (fst e) (snd e)) h acc, rest).
Proof.
  pose proof keywords_ok as KW. repeat (apply andb_true_iff in KW as [KW ?]).
  induction h as [|[k v] h IH]; intros fuel acc rest Hwf Hf.
  - destruct fuel as [|f]; [cbn in Hf; lia|]. cbn [fmt_entries flat_map app parse_loop fold_left].
    rewrite read_string_fmt by (lia || apply keywords_utf8). rewrite bytes_eqb_refl. reflexivity.
  - destruct fuel as [|f]; [cbn in Hf; lia|]. inversion Hwf as [|? ? [t [Ht Hv]] Hwf']; subst. cbn [fst snd] in *.
    destruct (table_key _ _ Ht) as (_ & Hlen & Hne).
    cbn [fmt_entries flat_map]. unfold fmt_entry at 1. cbn [fst snd]. rewrite (type_of_lookup _ _ Ht).
    rewrite <- !app_assoc. cbn [parse_loop]. rewrite read_string_fmt by (assumption || exact (table_key_utf8 _ _ Ht)).
    rewrite (bytes_eqb_neq _ _ Hne), Ht, read_value_fmt by assumption.
    fold (fmt_entries h). cbn [fold_left fst snd]. apply IH; [assumption|cbn in Hf; lia].
Qed.

Lemma length_fmt_entries h : (length h <= length (fmt_entries h))%nat.
Proof.
  induction h as [|e h IH]; cbn [fmt_entries flat_map length]; [lia|]. fold (fmt_entries h).
  rewrite app_length. unfold fmt_entry. rewrite app_length, length_fmt_string. lia.
Qed.

Theorem parse_fmt h rest : wf_header h -> has_layout h = true ->
  parse_header (fmt_header h ++ rest) = Some (h, blen (fmt_header h)).
Proof.
  intros [Hnd Hwf] Hlay. pose proof keywords_ok as KW. repeat (apply andb_true_iff in KW as [KW ?]).
  unfold parse_header, fmt_header. rewrite <- !app_assoc. rewrite read_string_fmt by (lia || apply keywords_utf8). rewrite bytes_eqb_refl.
  rewrite parse_loop_fmt; [|assumption|].
  - rewrite fold_dict_set by exact Hnd. cbn [app]. rewrite Hlay. f_equal. f_equal.
    unfold blen. rewrite !app_length. lia.
  - pose proof (length_fmt_entries h). rewrite !app_length. lia.
Qed.

(** * the encoder produces the layout *)
Lemma header_no_cont_app a b : header_no_cont (a ++ b) = header_no_cont a && header_no_cont b.
Proof. unfold header_no_cont. apply forallb_app. Qed.

Lemma encode_entries_fmt kc vc h : Forall wf_entry h -> vc = false \/ header_no_cont h = true ->
  encode_entries kc vc h = Some (fmt_entries h).
Proof.
  induction h as [|[k v] h IH]; intros Hwf Hc; [reflexivity|].
  inversion Hwf as [|? ? [t [Ht Hv]] Hwf']; subst. cbn [fst snd] in *.
  assert (Hc1 : vc = false \/ value_no_cont v = true) by (destruct Hc as [?|Hc]; [auto|right; cbn in Hc; apply andb_true_iff in Hc; tauto]).
  assert (Hc2 : vc = false \/ header_no_cont h = true) by (destruct Hc as [?|Hc]; [auto|right; cbn in Hc; apply andb_true_iff in Hc; tauto]).
  destruct (table_key _ _ Ht) as (Hnc & Hlen & _).
  cbn [encode_entries]. rewrite Ht, (enc_string_fmt kc k Hlen (or_intror Hnc)), (enc_value_fmt vc t v Hv Hc1), (IH Hwf' Hc2).
  cbn [fmt_entries flat_map]. unfold fmt_entry. cbn [fst snd]. rewrite (type_of_lookup _ _ Ht), <- app_assoc. reflexivity.
Qed.

Theorem encode_fmt kc vc h : wf_header h -> vc = false \/ header_no_cont h = true ->
  encode_header_with kc vc h = Some (fmt_header h).
Proof.
  intros [_ Hwf] Hc. pose proof keywords_ok as KW. repeat (apply andb_true_iff in KW as [KW ?]).
  unfold encode_header_with, fmt_header.
  rewrite !enc_string_fmt, (encode_entries_fmt kc vc h Hwf Hc) by (try lia; right; assumption). reflexivity.
Qed.

(** * round trips *)
Theorem parse_encode kc vc h rest : wf_header h -> has_layout h = true -> vc = false \/ header_no_cont h = true ->
  exists b, encode_header_with kc vc h = Some b /\ parse_header (b ++ rest) = Some (h, blen b).
Proof. intros Hw Hl Hc. exists (fmt_header h). split; [apply encode_fmt; assumption|apply parse_fmt; assumption]. Qed.

Theorem encode_parse kc vc h rest : wf_header h -> has_layout h = true -> vc = false \/ header_no_cont h = true ->
  exists h' n, parse_header (fmt_header h ++ rest) = Some (h', n) /\ 0 <= n <= blen (fmt_header h ++ rest) /\
               encode_header_with kc vc h' = Some (firstn (Z.to_nat n) (fmt_header h ++ rest)).
Proof.
  intros Hw Hl Hc. exists h, (blen (fmt_header h)). split; [apply parse_fmt; assumption|].
  unfold blen. rewrite Nat2Z.id, firstn_app, Nat.sub_diag, firstn_all, app_length. cbn [firstn]. rewrite app_nil_r.
  split; [lia|apply encode_fmt; assumption].
Qed.

(** * edit_header *)
Lemma Some_inj {A} (x y : A) : Some x = Some y -> x = y.
Proof. congruence. Qed.

Lemma encode_entries_app kc vc a b :
  encode_entries kc vc (a ++ b) =
  match encode_entries kc vc a, encode_entries kc vc b with Some x, Some y => Some (x ++ y) | _, _ => None end.
Proof.
  induction a as [|[k v] a IH]; cbn [app encode_entries].
  - destruct (encode_entries kc vc b); reflexivity.
  - destruct (lookup k header_keys) as [t|]; [|exact IH]. rewrite IH.
    destruct (enc_string kc k), (enc_value vc t v), (encode_entries kc vc a), (encode_entries kc vc b); try reflexivity.
    rewrite <- !app_assoc. reflexivity.
Qed.

Lemma wf_header_app_inv a e b : wf_header (a ++ e :: b) ->
  Forall wf_entry a /\ wf_entry e /\ Forall wf_entry b.
Proof.
  intros [_ H]. apply Forall_app in H as [Ha H]. inversion H; subst. auto.
Qed.

Lemma no_cont_firstn n s : no_cont s = true -> no_cont (firstn n s) = true.
Proof.
  unfold no_cont. revert n. induction s as [|b s IH]; intros [|n]; cbn; try reflexivity.
  intros H. apply andb_true_iff in H as [-> H]. cbn. apply IH. assumption.
Qed.

Lemma no_cont_take_chars n s : no_cont s = true -> no_cont (take_chars n s) = true.
Proof.
  unfold no_cont. revert n. induction s as [|b s IH]; intros n; cbn; try reflexivity.
  intros H. apply andb_true_iff in H as [Hb H]. destruct (is_cont b) eqn:Eb; [discriminate|]. destruct n; cbn; [reflexivity|].
  rewrite Eb. cbn. apply IH. assumption.
Qed.

Lemma no_cont_pad old s : no_cont s = true -> no_cont (pad_name old s) = true.
Proof.
  intros H. unfold pad_name. unfold no_cont at 1. rewrite forallb_app. fold (no_cont (take_chars (nchars old) s)).
  rewrite no_cont_take_chars by assumption. cbn. induction (nchars old - nchars s)%nat; cbn; auto.
Qed.

Lemma edit_value_no_cont h k v v' : edit_value h k v = Some v' -> value_no_cont v = true -> value_no_cont v' = true.
Proof.
  unfold edit_value. destruct (bytes_eqb k key_source_name); [|congruence].
  destruct v; try congruence. destruct (lookup key_source_name h) as [[| |old|]|]; try discriminate.
  intros [= <-] H. cbn in *. apply no_cont_pad. assumption.
Qed.

(** * well-formed UTF-8 is closed under concatenation and under the character slice of [edit_header] *)
Lemma valid_utf8_app_len : forall k a b, (length a <= k)%nat -> valid_utf8 a = true -> valid_utf8 b = true -> valid_utf8 (a ++ b) = true.
Proof.
  induction k as [|k IH]; intros a b Hk Ha Hb.
  - destruct a; [assumption|cbn in Hk; lia].
  - destruct a as [|b0 r0]; [assumption|]. cbn [app]. cbn [valid_utf8] in *. cbn [length] in Hk.
    destruct ((0 <=? b0) && (b0 <? 128)); [apply IH; [lia|assumption..]|].
    destruct ((194 <=? b0) && (b0 <? 224)).
    { destruct r0 as [|b1 r1]; [discriminate|]. cbn [app]. apply andb_true_iff in Ha as [-> Ha]. cbn. apply IH; [cbn in Hk; lia|assumption..]. }
    destruct ((224 <=? b0) && (b0 <? 240)).
    { destruct r0 as [|b1 [|b2 r2]]; try discriminate. cbn [app]. apply andb_true_iff in Ha as [Hc Ha]. rewrite Hc. cbn.
      apply IH; [cbn in Hk; lia|assumption..]. }
    destruct ((240 <=? b0) && (b0 <? 245)); [|discriminate].
    destruct r0 as [|b1 [|b2 [|b3 r3]]]; try discriminate. cbn [app]. apply andb_true_iff in Ha as [Hc Ha]. rewrite Hc. cbn.
    apply IH; [cbn in Hk; lia|assumption..].
Qed.
Lemma valid_utf8_app a b : valid_utf8 a = true -> valid_utf8 b = true -> valid_utf8 (a ++ b) = true.
Proof. apply (valid_utf8_app_len (length a)). lia. Qed.

Lemma valid_take_chars_len : forall k s n, (length s <= k)%nat -> valid_utf8 s = true -> valid_utf8 (take_chars n s) = true.
Proof.
  induction k as [|k IH]; intros s n Hk Hs.
  - destruct s; [reflexivity|cbn in Hk; lia].
  - destruct s as [|b0 r0]; [reflexivity|]. cbn [valid_utf8] in Hs. cbn [length] in Hk.
    destruct ((0 <=? b0) && (b0 <? 128)) eqn:E0.
    { assert (Hn : is_cont b0 = false) by (unfold is_cont; lia). cbn [take_chars]. rewrite Hn. destruct n; [reflexivity|].
      cbn [valid_utf8]. rewrite E0. apply IH; [lia|assumption]. }
    destruct ((194 <=? b0) && (b0 <? 224)) eqn:E1.
    { assert (Hn : is_cont b0 = false) by (unfold is_cont; lia). cbn [take_chars]. rewrite Hn. destruct n; [reflexivity|].
      destruct r0 as [|b1 r1]; [discriminate|]. apply andb_true_iff in Hs as [H1 Hs].
      cbn [take_chars]. rewrite H1. cbn [valid_utf8]. rewrite E0, E1, H1. cbn. apply IH; [cbn in Hk; lia|assumption]. }
    destruct ((224 <=? b0) && (b0 <? 240)) eqn:E2.
    { assert (Hn : is_cont b0 = false) by (unfold is_cont; lia). cbn [take_chars]. rewrite Hn. destruct n; [reflexivity|].
      destruct r0 as [|b1 [|b2 r2]]; try discriminate. apply andb_true_iff in Hs as [Hc Hs].
      pose proof Hc as Hc'. apply andb_true_iff in Hc' as [Hc' _]. apply andb_true_iff in Hc' as [H1 H2].
      cbn [take_chars]. rewrite H1, H2. cbn [valid_utf8]. rewrite E0, E1, E2, Hc. cbn. apply IH; [cbn in Hk; lia|assumption]. }
    destruct ((240 <=? b0) && (b0 <? 245)) eqn:E3; [|discriminate].
    assert (Hn : is_cont b0 = false) by (unfold is_cont; lia). cbn [take_chars]. rewrite Hn. destruct n; [reflexivity|].
    destruct r0 as [|b1 [|b2 [|b3 r3]]]; try discriminate. apply andb_true_iff in Hs as [Hc Hs].
    pose proof Hc as Hc'. apply andb_true_iff in Hc' as [Hc' _]. apply andb_true_iff in Hc' as [Hc' H3]. apply andb_true_iff in Hc' as [H1 H2].
    cbn [take_chars]. rewrite H1, H2, H3. cbn [valid_utf8]. rewrite E0, E1, E2, E3, Hc. cbn. apply IH; [cbn in Hk; lia|assumption].
Qed.
Lemma valid_take_chars n s : valid_utf8 s = true -> valid_utf8 (take_chars n s) = true.
Proof. apply (valid_take_chars_len (length s)). lia. Qed.
Lemma valid_blanks n : valid_utf8 (repeat 32 n) = true.
Proof. induction n; [reflexivity|]. cbn [repeat valid_utf8]. cbn. assumption. Qed.

Lemma valid_pad_name old s : valid_utf8 s = true -> valid_utf8 (pad_name old s) = true.
Proof. intros H. unfold pad_name. apply valid_utf8_app; [apply valid_take_chars; assumption|apply valid_blanks]. Qed.

Lemma edit_value_utf8 h k v v' : edit_value h k v = Some v' -> value_utf8 v = true -> value_utf8 v' = true.
Proof.
  unfold edit_value. destruct (bytes_eqb k key_source_name); [|congruence].
  destruct v; try congruence. destruct (lookup key_source_name h) as [[| |old|]|]; try discriminate.
  intros [= <-] H. cbn in *. apply valid_pad_name. assumption.
Qed.

(** layout of the file around the value of entry [k] *)
Lemma fmt_header_split h1 k x h2 data :
  fmt_header (h1 ++ (k, x) :: h2) ++ data =
  (fmt_string kw_header_start ++ fmt_entries h1 ++ fmt_string k) ++ fmt_value (type_of k) x
   ++ (fmt_entries h2 ++ fmt_string kw_header_end ++ data).
Proof.
  unfold fmt_header. rewrite fmt_entries_app. cbn [fmt_entries flat_map]. unfold fmt_entry at 1. cbn [fst snd].
  rewrite <- !app_assoc. reflexivity.
Qed.

Lemma length_fmt_header_split h1 k x h2 :
  length (fmt_header (h1 ++ (k, x) :: h2)) =
  (length (fmt_string kw_header_start) + length (fmt_entries h1) + length (fmt_string k) + length (fmt_value (type_of k) x)
   + length (fmt_entries h2) + length (fmt_string kw_header_end))%nat.
Proof.
  unfold fmt_header. rewrite fmt_entries_app. cbn [fmt_entries flat_map]. unfold fmt_entry at 1. cbn [fst snd].
  rewrite !app_length. fold (fmt_entries h2). lia.
Qed.

(** a returning call never changes the length of the file nor any byte behind the header (every mode) *)
Theorem edit_preserves_data kc vc h data k v file' : wf_header h -> has_layout h = true ->
  edit_header_with kc vc (fmt_header h ++ data) k v = Some file' ->
  exists nb, file' = nb ++ data /\ length nb = length (fmt_header h).
Proof.
  intros Hw Hl. unfold edit_header_with. destruct (lookup k header_keys); [|discriminate].
  rewrite parse_fmt by assumption. destruct (edit_value h k v); [|discriminate].
  destruct (encode_header_with kc vc _) as [nb|]; [|discriminate].
  destruct (blen nb =? blen (fmt_header h)) eqn:E; [|discriminate]. intros Hx%Some_inj. subst file'.
  assert (length nb = length (fmt_header h)) as El by (unfold blen in E; lia).
  exists nb. split; [|assumption]. rewrite El, skipn_app, Nat.sub_diag, skipn_all. reflexivity.
Qed.

(** a returning call rewrites exactly the value of key [k] *)
Theorem edit_ok kc vc h data k v file' : wf_header h -> has_layout h = true ->
  vc = false \/ (header_no_cont h = true /\ value_no_cont v = true) -> value_utf8 v = true ->
  edit_header_with kc vc (fmt_header h ++ data) k v = Some file' ->
  exists h1 old h2 v' t,
    h = h1 ++ (k, old) :: h2 /\ lookup k header_keys = Some t /\ edit_value h k v = Some v' /\
    wf_value t old /\ wf_value t v' /\ wf_header (h1 ++ (k, v') :: h2) /\
    length (fmt_value t v') = length (fmt_value t old) /\
    file' = fmt_header (h1 ++ (k, v') :: h2) ++ data.
Proof.
  intros Hw Hl Hc Hu. pose proof keywords_ok as KW. repeat (apply andb_true_iff in KW as [KW ?]).
  unfold edit_header_with. destruct (lookup k header_keys) as [t|] eqn:Ht; [|discriminate].
  rewrite parse_fmt by assumption. destruct (edit_value h k v) as [v'|] eqn:Ev; [|discriminate].
  destruct (encode_header_with kc vc _) as [nb|] eqn:En; [|discriminate].
  destruct (blen nb =? blen (fmt_header h)) eqn:E; [|discriminate]. intros Hx%Some_inj. subst file'.
  assert (El : length nb = length (fmt_header h)) by (unfold blen in E; lia). clear E.
  rewrite El, skipn_app, Nat.sub_diag, skipn_all. cbn [skipn].
  destruct (table_key _ _ Ht) as (Hnc & Hlen & _).
  assert (Hcv : vc = false \/ value_no_cont v' = true)
    by (destruct Hc as [?|[_ Hc]]; [auto|right; eapply edit_value_no_cont; eassumption]).
  destruct (in_dec (list_eq_dec Z.eq_dec) k (map fst h)) as [Hin|Hnin].
  - destruct Hw as [Hnd Hwf].
    destruct (dict_set_in h k v' Hin Hnd) as (h1 & old & h2 & Eh & Ed & Hn1). rewrite Ed in En.
    assert (Hparts := wf_header_app_inv h1 (k, old) h2). rewrite <- Eh in Hparts.
    destruct (Hparts (conj Hnd Hwf)) as (W1 & [t' [Ht' Wo]] & W2). cbn [fst snd] in *. rewrite Ht in Ht'. injection Ht' as <-.
    assert (C1 : vc = false \/ header_no_cont h1 = true).
    { destruct Hc as [?|[Hc _]]; [auto|right]. rewrite Eh, header_no_cont_app in Hc. apply andb_true_iff in Hc. tauto. }
    assert (C2 : vc = false \/ header_no_cont h2 = true).
    { destruct Hc as [?|[Hc _]]; [auto|right]. rewrite Eh, header_no_cont_app in Hc. apply andb_true_iff in Hc as [_ Hc].
      cbn in Hc. apply andb_true_iff in Hc. tauto. }
    unfold encode_header_with in En. rewrite !enc_string_fmt in En by (try lia; right; assumption).
    rewrite encode_entries_app, (encode_entries_fmt kc vc h1 W1 C1) in En. cbn [encode_entries] in En.
    rewrite Ht, (enc_string_fmt kc k Hlen (or_intror Hnc)), (encode_entries_fmt kc vc h2 W2 C2) in En.
    destruct (enc_value vc t v') as [b|] eqn:Eb; [|discriminate]. apply Some_inj in En. subst nb.
    (* length accounting *)
    rewrite Eh, length_fmt_header_split, (type_of_lookup _ _ Ht) in El. rewrite !app_length in El.
    assert (Lb : length b = length (fmt_value t old)) by lia.
    assert (Wv : wf_value t v') by (eapply enc_value_wf; try eassumption; eapply edit_value_utf8; eassumption).
    rewrite (enc_value_fmt vc t v' Wv Hcv) in Eb. apply Some_inj in Eb. subst b.
    exists h1, old, h2, v', t. repeat split; try assumption.
    + (* NoDup *) rewrite Eh in Hnd. rewrite map_app in *. exact Hnd.
    + apply Forall_app. split; [assumption|]. constructor; [exists t; cbn; auto|assumption].
    + rewrite fmt_header_split, (type_of_lookup _ _ Ht), <- !app_assoc. reflexivity.
  - (* the key is not in the file: the new header is longer *)
    exfalso. destruct Hw as [Hnd Hwf]. rewrite dict_set_notin in En by assumption.
    assert (C : vc = false \/ header_no_cont h = true) by tauto.
    unfold encode_header_with in En. rewrite !enc_string_fmt in En by (try lia; right; assumption).
    rewrite encode_entries_app, (encode_entries_fmt kc vc h Hwf C) in En. cbn [encode_entries] in En.
    rewrite Ht, (enc_string_fmt kc k Hlen (or_intror Hnc)) in En.
    destruct (enc_value vc t v') as [b|]; [|discriminate]. apply Some_inj in En. subst nb.
    unfold fmt_header in El. rewrite !app_length, !length_fmt_string in El. cbn [length] in El. lia.
Qed.

(** * witnesses for the mode in which lengths count characters *)
Lemma wf_h_nonascii : wf_header h_nonascii /\ has_layout h_nonascii = true.
Proof.
  split; [split|reflexivity].
  - repeat constructor; cbn; intuition discriminate.
  - repeat constructor; eexists; split; try reflexivity; cbn; lia.
Qed.

Lemma wf_h_ascii : wf_header h_ascii /\ has_layout h_ascii = true /\ header_no_cont h_ascii = true.
Proof.
  split; [split|split; reflexivity].
  - repeat constructor; cbn; intuition discriminate.
  - repeat constructor; eexists; split; try reflexivity; cbn; lia.
Qed.

Lemma chars_mode_refuted kc :
  exists b, encode_header_with kc true h_nonascii = Some b /\ b <> fmt_header h_nonascii /\ parse_header b = None.
Proof. destruct kc; eexists; (split; [vm_compute; reflexivity|split; [vm_compute; discriminate|vm_compute; reflexivity]]). Qed.

(** in that mode edit_header can write a header that no longer parses (same total length, wrong prefix) *)
Lemma chars_mode_edit_refuted kc :
  exists f, edit_header_with kc true (fmt_header h_ascii ++ [1; 2; 3]) k_rawdatafile (VStr [195; 169; 97; 98]) = Some f /\
            parse_header f = None.
Proof. destruct kc; eexists; (split; [vm_compute; reflexivity|vm_compute; reflexivity]). Qed.
