(** C15 -- order statistics over canonical rationals: sorting commutes with increasing maps and is reversed by
    negation; consequences for np.median, np.partition, np.mean, the variance. *)
From Coq Require Import ZArith List Bool QArith Qcanon Qcabs Qround Lia Lqa Permutation Sorted.
Require Import SPP.Base.Rt SPP.Model.C15_np SPP.Proofs.C15_lib.
Import ListNotations.
Open Scope Z_scope.
Ltac Zify.zify_post_hook ::= Z.to_euclidean_division_equations.

Ltac qc2q := unfold Qcle, Qclt, Qcminus, Qcdiv in *; unfold Qcplus, Qcmult, Qcopp, Qcinv, Q2Qc in *; cbn [this] in *;
  repeat (rewrite ?Qred_correct in * ).

(** * Qc helpers *)
Lemma Qcleb_iff x y : Qcleb x y = true <-> (x <= y)%Qc.
Proof. unfold Qcleb, Qcle. apply Qle_bool_iff. Qed.
Lemma Qcleb_false x y : Qcleb x y = false -> (y <= x)%Qc.
Proof. intro H. destruct (Qclt_le_dec y x) as [L|L]; [now apply Qclt_le_weak|].
  apply Qcleb_iff in L. congruence. Qed.
Lemma Qceqb_iff x y : Qceqb x y = true <-> x = y.
Proof. unfold Qceqb. rewrite Qeq_bool_iff. split; [apply Qc_is_canon|intros ->; reflexivity]. Qed.
Lemma qz_neq0 z : z <> 0 -> qz z <> qz 0.
Proof. intros Hz H. apply (f_equal this) in H. unfold qz, Q2Qc in H; cbn [this] in H.
  assert (E : (inject_Z z == inject_Z 0)%Q) by (rewrite <- (Qred_correct (inject_Z z)), <- (Qred_correct (inject_Z 0)); now rewrite H).
  unfold Qeq, inject_Z in E; cbn in E. lia. Qed.
Lemma qz0 : qz 0 = Q2Qc 0. Proof. reflexivity. Qed.
Lemma qz1 : qz 1 = Q2Qc 1. Proof. reflexivity. Qed.
Lemma qz_add x y : qz (x + y) = (qz x + qz y)%Qc.
Proof. apply Qc_is_canon. unfold qz. qc2q. rewrite inject_Z_plus. reflexivity. Qed.
Lemma qz_S n : qz (Z.of_nat (S n)) = (qz (Z.of_nat n) + qz 1)%Qc.
Proof. rewrite Nat2Z.inj_succ. unfold Z.succ. apply qz_add. Qed.

(** * insertion sort *)
Lemma insert_perm x l : Permutation (insert x l) (x :: l).
Proof. induction l as [|y l IH]; cbn; [reflexivity|]. destruct (Qcleb x y); [reflexivity|].
  rewrite IH. apply perm_swap. Qed.
Lemma sort_perm l : Permutation (sort l) l.
Proof. induction l as [|x l IH]; cbn; [reflexivity|]. rewrite insert_perm. now constructor. Qed.
Lemma sort_length l : length (sort l) = length l.
Proof. apply Permutation_length, sort_perm. Qed.

Lemma insert_sorted x l : StronglySorted Qcle l -> StronglySorted Qcle (insert x l).
Proof. induction 1 as [|y l Hs IH Hy]; cbn; [repeat constructor|].
  destruct (Qcleb x y) eqn:E.
  - apply Qcleb_iff in E. constructor; [now constructor|]. constructor; [exact E|].
    eapply Forall_impl; [|exact Hy]. intros z Hz. eapply Qcle_trans; eassumption.
  - apply Qcleb_false in E. constructor; [exact IH|].
    apply (Permutation_Forall (Permutation_sym (insert_perm x l))). now constructor. Qed.
Lemma sort_sorted l : StronglySorted Qcle (sort l).
Proof. induction l as [|x l IH]; cbn; [constructor|now apply insert_sorted]. Qed.

Lemma sorted_perm_unique l1 : forall l2, Permutation l1 l2 -> StronglySorted Qcle l1 -> StronglySorted Qcle l2 -> l1 = l2.
Proof. induction l1 as [|x l1 IH]; intros l2 P S1 S2.
  - apply Permutation_nil in P. now subst.
  - destruct l2 as [|y l2]; [apply Permutation_sym, Permutation_nil in P; discriminate|].
    inversion S1 as [|? ? S1' F1]; inversion S2 as [|? ? S2' F2]; subst.
    assert (x = y).
    { apply Qcle_antisym.
      - assert (In y (x :: l1)) by (eapply Permutation_in; [apply Permutation_sym, P|now left]).
        destruct H as [->|H]; [apply Qcle_refl|]. rewrite Forall_forall in F1. now apply F1.
      - assert (In x (y :: l2)) by (eapply Permutation_in; [apply P|now left]).
        destruct H as [->|H]; [apply Qcle_refl|]. rewrite Forall_forall in F2. now apply F2. }
    subst y. f_equal. apply IH; auto. eapply Permutation_cons_inv; eassumption. Qed.

(** any sorted rearrangement of [l] is [sort l] *)
Lemma sort_unique l s : Permutation s l -> StronglySorted Qcle s -> sort l = s.
Proof. intros P S. apply sorted_perm_unique; [|apply sort_sorted|exact S].
  rewrite sort_perm. now apply Permutation_sym. Qed.

(** ** increasing maps *)
Definition increasing (f : Qc -> Qc) : Prop := forall x y, Qcleb (f x) (f y) = Qcleb x y.
Lemma insert_map f x l : increasing f -> insert (f x) (map f l) = map f (insert x l).
Proof. intro Hf. induction l as [|y l IH]; cbn; [reflexivity|]. rewrite Hf. destruct (Qcleb x y); cbn; [reflexivity|].
  now rewrite IH. Qed.
Lemma sort_map f l : increasing f -> sort (map f l) = map f (sort l).
Proof. intro Hf. induction l as [|x l IH]; cbn; [reflexivity|]. rewrite IH. now apply insert_map. Qed.

Definition affine (a b x : Qc) : Qc := (a * x + b)%Qc.
Lemma affine_increasing a b : (Q2Qc 0 < a)%Qc -> increasing (affine a b).
Proof. intros Ha x y. unfold affine. destruct (Qcleb x y) eqn:E.
  - apply Qcleb_iff in E. apply Qcleb_iff. qc2q. nra.
  - destruct (Qcleb (a * x + b) (a * y + b)) eqn:E'; [|reflexivity].
    apply Qcleb_iff in E'. assert (x <= y)%Qc by (qc2q; nra). apply Qcleb_iff in H. congruence. Qed.

(** ** negation reverses *)
Lemma SSorted_app l1 l2 : StronglySorted Qcle l1 -> StronglySorted Qcle l2 ->
  (forall a b, In a l1 -> In b l2 -> (a <= b)%Qc) -> StronglySorted Qcle (l1 ++ l2).
Proof. induction 1 as [|x l1 S IH F]; intros S2 H; cbn; [exact S2|]. constructor.
  - apply IH; [exact S2|]. intros; apply H; [now right|assumption].
  - apply Forall_app. split; [exact F|]. apply Forall_forall. intros b Hb. apply H; [now left|exact Hb]. Qed.

Lemma sorted_rev_opp s : StronglySorted Qcle s -> StronglySorted Qcle (rev (map Qcopp s)).
Proof. induction 1 as [|x s S IH F]; cbn; [constructor|]. apply SSorted_app; [exact IH|repeat constructor|].
  intros a b Ha [<-|[]]. apply in_rev, in_map_iff in Ha. destruct Ha as [z [<- Hz]].
  apply Qcopp_le_compat. rewrite Forall_forall in F. now apply F. Qed.

Lemma sort_opp l : sort (map Qcopp l) = rev (map Qcopp (sort l)).
Proof. apply sort_unique; [|apply sorted_rev_opp, sort_sorted].
  rewrite <- Permutation_rev. apply Permutation_map, sort_perm. Qed.

(** * nthq *)
Lemma nthq_map f l i : 0 <= i < vlen l -> nthq (map f l) i = f (nthq l i).
Proof. unfold vlen, nthq. intro H. rewrite nth_indep with (d' := f (qz 0)) by (rewrite map_length; lia). apply map_nth. Qed.
(** a map fixing 0 commutes with [nthq] at every index *)
Lemma nthq_map0 f l i : f (qz 0) = qz 0 -> nthq (map f l) i = f (nthq l i).
Proof. unfold nthq. intro H. rewrite <- H at 1. apply map_nth. Qed.
Lemma nthq_rev l i : 0 <= i < vlen l -> nthq (rev l) i = nthq l (vlen l - 1 - i).
Proof. unfold vlen, nthq. intro H. rewrite rev_nth by lia. f_equal. lia. Qed.
Lemma vlen_map f l : vlen (map f l) = vlen l.
Proof. unfold vlen. now rewrite map_length. Qed.
Lemma vlen_sort l : vlen (sort l) = vlen l.
Proof. unfold vlen. now rewrite sort_length. Qed.
Lemma vlen_rev l : vlen (rev l) = vlen l.
Proof. unfold vlen. now rewrite rev_length. Qed.
Lemma vlen_nonneg l : 0 <= vlen l. Proof. unfold vlen. lia. Qed.
Lemma vlen_pos l : l <> nil -> 1 <= vlen l.
Proof. destruct l; [congruence|]. unfold vlen. cbn [length]. lia. Qed.

(** * np.median *)
Lemma qz2_neq0 : qz 2 <> Q2Qc 0. Proof. apply (qz_neq0 2). lia. Qed.
Lemma qz2_eq : qz 2 = (1 + 1)%Qc. Proof. apply Qc_is_canon. reflexivity. Qed.
Lemma two_neq0 : (1 + 1)%Qc <> Q2Qc 0. Proof. rewrite <- qz2_eq. apply qz2_neq0. Qed.

Lemma median1_increasing_affine a b l : (Q2Qc 0 < a)%Qc -> l <> nil -> median1 (map (affine a b) l) = affine a b (median1 l).
Proof. intros Ha Hl. unfold median1. rewrite sort_map by now apply affine_increasing. rewrite vlen_map.
  pose proof (vlen_pos l Hl) as Hn. set (n := vlen l) in *.
  destruct (Z.even n) eqn:Ev.
  - assert (2 <= n) by (destruct (Z.eq_dec n 1) as [E|]; [rewrite E in Ev; discriminate|lia]).
    rewrite !nthq_map by (rewrite vlen_sort; fold n; lia). unfold affine. rewrite qz2_eq. field. apply two_neq0.
  - rewrite nthq_map by (rewrite vlen_sort; fold n; lia). reflexivity. Qed.

Lemma median1_opp l : median1 (map Qcopp l) = (- median1 l)%Qc.
Proof. unfold median1. rewrite sort_opp, vlen_map. set (n := vlen l).
  assert (Hn : 0 <= n) by apply vlen_nonneg.
  destruct (Z.eq_dec n 0) as [E0|N0].
  - assert (l = nil) by (destruct l; [reflexivity|unfold n, vlen in E0; cbn in E0; lia]). subst l. cbn. apply Qc_is_canon. reflexivity.
  - assert (L : vlen (map Qcopp (sort l)) = n) by (now rewrite vlen_map, vlen_sort).
    destruct (Z.even n) eqn:Ev.
    + assert (2 <= n) by (destruct (Z.eq_dec n 1) as [E|]; [rewrite E in Ev; discriminate|lia]).
      rewrite !nthq_rev by (rewrite L; lia). rewrite L.
      rewrite !nthq_map by (rewrite vlen_sort; fold n; lia).
      replace (n - 1 - (n / 2 - 1)) with (n / 2) by (apply Z.even_spec in Ev; destruct Ev as [k Hk]; lia).
      replace (n - 1 - n / 2) with (n / 2 - 1) by (apply Z.even_spec in Ev; destruct Ev as [k Hk]; lia).
      rewrite qz2_eq. field. apply two_neq0.
    + rewrite nthq_rev by (rewrite L; lia). rewrite L. rewrite nthq_map by (rewrite vlen_sort; fold n; lia).
      replace (n - 1 - n / 2) with (n / 2); [reflexivity|].
      rewrite <- Z.negb_odd in Ev. apply negb_false_iff, Z.odd_spec in Ev. destruct Ev as [k Hk]. lia. Qed.

(** a non-zero affine map commutes with the median of a non-empty list *)
Theorem median1_affine a b l : a <> Q2Qc 0 -> l <> nil -> median1 (map (affine a b) l) = affine a b (median1 l).
Proof. intros Ha Hl. destruct (Qclt_le_dec (Q2Qc 0) a) as [Hp|Hn]; [now apply median1_increasing_affine|].
  assert (Hneg : (Q2Qc 0 < - a)%Qc).
  { destruct (Qcle_lt_or_eq _ _ Hn) as [L|E]; [|congruence]. qc2q. lra. }
  replace (map (affine a b) l) with (map Qcopp (map (affine (- a) (- b)) l)).
  - rewrite median1_opp, median1_increasing_affine by assumption. unfold affine. ring.
  - rewrite map_map. apply map_ext. intro x. unfold affine. ring. Qed.

(** scaling by a positive factor needs no side condition (0 is a fixed point) *)
Definition scale (c x : Qc) : Qc := (c * x)%Qc.
Lemma scale_affine c : forall x, scale c x = affine c (Q2Qc 0) x.
Proof. intro. unfold scale, affine. ring. Qed.
Lemma scale_increasing c : (Q2Qc 0 < c)%Qc -> increasing (scale c).
Proof. intros Hc x y. rewrite !scale_affine. now apply affine_increasing. Qed.
Lemma scale_0 c : scale c (qz 0) = qz 0. Proof. unfold scale. rewrite qz0. ring. Qed.

Lemma median1_scale c l : (Q2Qc 0 < c)%Qc -> median1 (map (scale c) l) = scale c (median1 l).
Proof. intro Hc. unfold median1. rewrite sort_map by now apply scale_increasing. rewrite vlen_map.
  rewrite !nthq_map0 by apply scale_0. destruct (Z.even (vlen l)); [|reflexivity]. unfold scale. rewrite qz2_eq. field. apply two_neq0. Qed.

(** np.partition(v, k)[k] *)
Lemma kth_scale c l k : (Q2Qc 0 < c)%Qc -> kth (map (scale c) l) k = scale c (kth l k).
Proof. intro Hc. unfold kth. rewrite sort_map by now apply scale_increasing. apply nthq_map0, scale_0. Qed.

(** * sums, means *)
Lemma vsum_affine a b l : vsum (map (affine a b) l) = (a * vsum l + qz (vlen l) * b)%Qc.
Proof. induction l as [|x l IH]; cbn [map vsum fold_right].
  - unfold vlen; cbn. rewrite qz0. ring.
  - fold (vsum (map (affine a b) l)) (vsum l). rewrite IH. unfold vlen. cbn [length]. rewrite qz_S, qz1. unfold affine. ring. Qed.
Lemma vsum_scale c l : vsum (map (scale c) l) = scale c (vsum l).
Proof. induction l as [|x l IH]; cbn [map vsum fold_right]; [unfold scale; rewrite qz0; ring|].
  fold (vsum (map (scale c) l)) (vsum l). rewrite IH. unfold scale. ring. Qed.
Lemma vlen_neq0 l : l <> nil -> qz (vlen l) <> Q2Qc 0.
Proof. intro H. apply (qz_neq0 (vlen l)). pose proof (vlen_pos l H). lia. Qed.
Lemma mean1_affine a b l : l <> nil -> mean1 (map (affine a b) l) = affine a b (mean1 l).
Proof. intro Hl. unfold mean1. rewrite vsum_affine, vlen_map. unfold affine. field. now apply vlen_neq0. Qed.
Lemma mean1_scale c l : mean1 (map (scale c) l) = scale c (mean1 l).
Proof. unfold mean1. rewrite vsum_scale, vlen_map. unfold scale, Qcdiv. ring. Qed.

(** population variance (np.std squared) *)
Theorem var1_affine a b l : l <> nil -> var1 (map (affine a b) l) = (a * a * var1 l)%Qc.
Proof. intro Hl. unfold var1. rewrite mean1_affine by assumption. rewrite map_map.
  rewrite (map_ext _ (fun x => scale (a * a) ((x - mean1 l) * (x - mean1 l))%Qc)) by (intro; unfold affine, scale; ring).
  rewrite <- (map_map (fun x => ((x - mean1 l) * (x - mean1 l))%Qc) (scale (a * a))). now rewrite mean1_scale. Qed.

(** |a x + b - (a m + b)| = |a| |x - m| *)
Lemma absdev_affine a b m x : Qcabs (affine a b x - affine a b m) = scale (Qcabs a) (Qcabs (x - m)).
Proof. unfold affine, scale. rewrite <- Qcabs_Qcmult. f_equal. ring. Qed.
Lemma Qcabs_pos_of_neq0 a : a <> Q2Qc 0 -> (Q2Qc 0 < Qcabs a)%Qc.
Proof. intro H. destruct (Qcle_lt_or_eq _ _ (Qcabs_nonneg a)) as [L|E]; [exact L|]. symmetry in E. now apply Qcabs_null in E. Qed.

(** * np.diff, np.dot and the Gapper weights *)
Lemma diff1_cons x y l : diff1 (x :: y :: l) = (y - x)%Qc :: diff1 (y :: l).
Proof. reflexivity. Qed.
Lemma diff1_map_affine a b l : diff1 (map (affine a b) l) = map (scale a) (diff1 l).
Proof. induction l as [|x [|y l] IH]; try reflexivity. cbn [map] in *. rewrite !diff1_cons. cbn [map]. rewrite IH.
  f_equal. unfold affine, scale. ring. Qed.
Lemma diff1_app_last l x y : diff1 ((l ++ x :: nil) ++ y :: nil) = diff1 (l ++ x :: nil) ++ (y - x)%Qc :: nil.
Proof. induction l as [|z [|w l] IH]; try reflexivity.
  change (((z :: w :: l) ++ x :: nil) ++ y :: nil) with (z :: ((w :: l) ++ x :: nil) ++ y :: nil).
  change ((z :: w :: l) ++ x :: nil) with (z :: (w :: l) ++ x :: nil).
  cbn [app] in *. rewrite !diff1_cons. rewrite IH. reflexivity. Qed.
Lemma diff1_rev l : diff1 (rev l) = rev (map Qcopp (diff1 l)).
Proof. induction l as [|x [|y l] IH]; try reflexivity.
  rewrite diff1_cons. cbn [map rev] in *. rewrite diff1_app_last, IH. f_equal. f_equal. ring. Qed.
Lemma dot1_scale k w g : dot1 w (map (scale k) g) = scale k (dot1 w g).
Proof. revert g. induction w as [|x w IH]; intros [|y g]; cbn [dot1 map]; try (unfold scale; rewrite qz0; ring).
  rewrite IH. unfold scale. ring. Qed.
Lemma dot1_app w1 w2 g1 g2 : length w1 = length g1 -> dot1 (w1 ++ w2) (g1 ++ g2) = (dot1 w1 g1 + dot1 w2 g2)%Qc.
Proof. revert g1. induction w1 as [|x w1 IH]; intros [|y g1] H; try discriminate; cbn [app dot1].
  - rewrite qz0. ring. - rewrite IH by (cbn in H; lia). ring. Qed.
Lemma dot1_rev w : forall g, length w = length g -> dot1 (rev w) (rev g) = dot1 w g.
Proof. induction w as [|x w IH]; intros [|y g] H; try discriminate; [reflexivity|]. cbn [rev].
  rewrite dot1_app by (rewrite !rev_length; cbn in H; lia). rewrite IH by (cbn in H; lia). cbn [dot1]. rewrite qz0. ring. Qed.

Lemma sort_affine_neg a b l : (a < Q2Qc 0)%Qc -> sort (map (affine a b) l) = rev (map (affine a b) (sort l)).
Proof. intro Ha. assert (Hp : (Q2Qc 0 < - a)%Qc) by (qc2q; lra).
  replace (map (affine a b) l) with (map Qcopp (map (affine (- a) (- b)) l))
    by (rewrite map_map; apply map_ext; intro; unfold affine; ring).
  rewrite sort_opp, sort_map by now apply affine_increasing. rewrite map_map. f_equal. apply map_ext. intro. unfold affine. ring. Qed.

Lemma zrange_cons n : zrange (Z.of_nat (S n)) = 0 :: map (fun i => i + 1) (zrange (Z.of_nat n)).
Proof. unfold zrange. rewrite !Nat2Z.id. cbn [seq map]. f_equal. rewrite <- seq_shift, !map_map. apply map_ext. intro; lia. Qed.
Lemma rev_zrange m : rev (zrange m) = map (fun i => m - 1 - i) (zrange m).
Proof. destruct (Z.le_gt_cases m 0) as [H|H].
  - unfold zrange. replace (Z.to_nat m) with 0%nat by lia. reflexivity.
  - rewrite <- (Z2Nat.id m) by lia. generalize (Z.to_nat m) as n. clear. induction n as [|n IH]; [reflexivity|].
    rewrite zrange_S at 1. rewrite rev_app_distr. cbn [rev app]. rewrite IH.
    rewrite zrange_cons. cbn [map]. f_equal; [lia|]. rewrite map_map. apply map_ext. intro; lia. Qed.

(** * np.percentile (linear interpolation) *)
Definition fl (x : Qc) : Z := Qfloor x.
Lemma fl_spec x : (qz (fl x) <= x)%Qc /\ (x < qz (fl x + 1))%Qc.
Proof. unfold fl, qz. split; qc2q; [apply Qfloor_le|apply Qlt_floor]. Qed.
Lemma qz_le x y : x <= y -> (qz x <= qz y)%Qc.
Proof. intro H. unfold qz. qc2q. rewrite <- Zle_Qle. exact H. Qed.
Lemma qz_lt_inv x y : (qz x < qz y)%Qc -> x < y.
Proof. unfold qz. qc2q. intro H. now rewrite Zlt_Qlt. Qed.
Lemma fl_unique x k : (qz k <= x)%Qc -> (x < qz (k + 1))%Qc -> fl x = k.
Proof. intros H1 H2. destruct (fl_spec x) as [L U].
  assert (k < fl x + 1) by (apply qz_lt_inv; eapply Qcle_lt_trans; eassumption).
  assert (fl x < k + 1) by (apply qz_lt_inv; eapply Qcle_lt_trans; eassumption). lia. Qed.
Lemma fl_qz k : fl (qz k) = k.
Proof. apply fl_unique; [apply Qcle_refl|]. rewrite qz_add, qz1. qc2q. lra. Qed.

Definition ppos (n : Z) (p : Qc) : Qc := (qz (n - 1) * p / qz 100)%Qc.
Lemma qz100_neq0 : qz 100 <> Q2Qc 0. Proof. apply (qz_neq0 100). lia. Qed.
Lemma qz_pos z : 0 < z -> (Q2Qc 0 < qz z)%Qc.
Proof. intro H. change (Q2Qc 0) with (qz 0). unfold qz. qc2q. rewrite <- Zlt_Qlt. exact H. Qed.
Lemma qz_nonneg z : 0 <= z -> (Q2Qc 0 <= qz z)%Qc.
Proof. intro H. change (Q2Qc 0) with (qz 0). now apply qz_le. Qed.

Lemma ppos_bounds n p : 1 <= n -> (Q2Qc 0 <= p)%Qc -> (p <= qz 100)%Qc -> (Q2Qc 0 <= ppos n p)%Qc /\ (ppos n p <= qz (n - 1))%Qc.
Proof. intros Hn H0 H1. unfold ppos. pose proof (qz_nonneg (n - 1) ltac:(lia)) as Hq.
  pose proof (qz_pos 100 ltac:(lia)) as Hh. set (m := qz (n - 1)) in *. set (h := qz 100) in *.
  assert (E : (m * p / h = m * (p / h))%Qc) by (field; intro E; rewrite E in Hh; now apply (Qclt_not_le _ _ Hh), Qcle_refl).
  rewrite E. clear E.
  assert (B : (Q2Qc 0 <= p / h)%Qc /\ (p / h <= 1)%Qc).
  { split; unfold Qcdiv.
    - qc2q. apply Qmult_le_0_compat; [exact H0|]. apply Qlt_le_weak, Qinv_lt_0_compat. exact Hh.
    - apply (Qcmult_lt_0_le_reg_r _ _ h Hh). replace (p * / h * h)%Qc with p by (field; intro E; rewrite E in Hh; now apply (Qclt_not_le _ _ Hh), Qcle_refl).
      now rewrite Qcmult_1_l. }
  destruct B as [B0 B1]. split.
  - qc2q. now apply Qmult_le_0_compat.
  - rewrite <- (Qcmult_1_r m) at 2. rewrite (Qcmult_comm m (p / h)), (Qcmult_comm m 1). now apply Qcmult_le_compat_r. Qed.

Lemma fl_ppos_range n p : 1 <= n -> (Q2Qc 0 <= p)%Qc -> (p <= qz 100)%Qc -> 0 <= fl (ppos n p) <= n - 1.
Proof. intros Hn H0 H1. destruct (ppos_bounds n p Hn H0 H1) as [B0 B1]. destruct (fl_spec (ppos n p)) as [L U]. split.
  - assert (0 < fl (ppos n p) + 1); [|lia]. apply qz_lt_inv. eapply Qcle_lt_trans; [|exact U]. exact B0.
  - assert (fl (ppos n p) < n - 1 + 1); [|lia]. apply qz_lt_inv. eapply Qcle_lt_trans; [exact L|].
    eapply Qcle_lt_trans; [exact B1|]. rewrite qz_add, qz1. qc2q. lra. Qed.

Lemma percentile1_increasing_affine a b p l : (Q2Qc 0 < a)%Qc -> l <> nil -> (Q2Qc 0 <= p)%Qc -> (p <= qz 100)%Qc ->
  percentile1 p (map (affine a b) l) = affine a b (percentile1 p l).
Proof. intros Ha Hl H0 H1. unfold percentile1. rewrite sort_map by now apply affine_increasing. rewrite vlen_map.
  pose proof (vlen_pos l Hl) as Hn. fold (ppos (vlen l) p). fold (fl (ppos (vlen l) p)).
  pose proof (fl_ppos_range _ p Hn H0 H1) as R. set (lo := fl _) in *.
  rewrite !nthq_map by (rewrite vlen_sort; lia). unfold affine. ring. Qed.

Lemma qz_sub x y : qz (x - y) = (qz x - qz y)%Qc.
Proof. apply Qc_is_canon. unfold qz. qc2q. unfold Z.sub. rewrite inject_Z_plus, inject_Z_opp. reflexivity. Qed.

Lemma nthq_sort_opp l i : 0 <= i < vlen l -> nthq (sort (map Qcopp l)) i = (- nthq (sort l) (vlen l - 1 - i))%Qc.
Proof. intro H. rewrite sort_opp. assert (L : vlen (map Qcopp (sort l)) = vlen l) by now rewrite vlen_map, vlen_sort.
  rewrite nthq_rev by (rewrite L; lia). rewrite L. rewrite nthq_map by (rewrite vlen_sort; lia). reflexivity. Qed.

(** reflection: the p-th percentile of -x is minus the (100-p)-th percentile of x *)
Lemma percentile1_opp p l : l <> nil -> (Q2Qc 0 <= p)%Qc -> (p <= qz 100)%Qc ->
  percentile1 p (map Qcopp l) = (- percentile1 (qz 100 - p) l)%Qc.
Proof. intros Hl H0 H1. pose proof (vlen_pos l Hl) as Hn.
  assert (H0' : (Q2Qc 0 <= qz 100 - p)%Qc) by (qc2q; lra).
  assert (H1' : (qz 100 - p <= qz 100)%Qc) by (qc2q; lra).
  unfold percentile1. rewrite vlen_map. set (n := vlen l) in *.
  fold (ppos n p) (ppos n (qz 100 - p)). fold (fl (ppos n p)) (fl (ppos n (qz 100 - p))).
  assert (Epos : ppos n (qz 100 - p) = (qz (n - 1) - ppos n p)%Qc) by (unfold ppos; field; apply qz100_neq0).
  pose proof (fl_ppos_range n p Hn H0 H1) as R. destruct (ppos_bounds n p Hn H0 H1) as [B0 B1].
  destruct (fl_spec (ppos n p)) as [L U]. set (pos := ppos n p) in *. set (lo := fl pos) in *.
  rewrite Epos. rewrite qz_add, qz1 in U. clearbody lo. clearbody pos.
  destruct (Qc_eq_dec pos (qz lo)) as [E|NE].
  - (* integral virtual index *)
    assert (F : fl (qz (n - 1) - pos) = n - 1 - lo) by (rewrite E, <- qz_sub; apply fl_qz).
    rewrite F. rewrite !nthq_sort_opp by (fold n; lia). fold n.
    replace (qz (n - 1) - pos - qz (n - 1 - lo))%Qc with (Q2Qc 0) by (rewrite E, (qz_sub (n - 1) lo); ring).
    replace (pos - qz lo)%Qc with (Q2Qc 0) by (rewrite E; ring).
    replace (n - 1 - (n - 1 - lo)) with lo by lia. ring.
  - assert (Lt : (qz lo < pos)%Qc) by (destruct (Qcle_lt_or_eq _ _ L) as [X|X]; [exact X|congruence]).
    assert (Hlo : lo < n - 1).
    { apply qz_lt_inv. eapply Qclt_le_trans; eassumption. }
    assert (F : fl (qz (n - 1) - pos) = n - 2 - lo).
    { apply fl_unique.
      - replace (n - 2 - lo) with (n - 1 - (lo + 1)) by lia. rewrite (qz_sub (n - 1) (lo + 1)), qz_add, qz1. clear Epos.
        set (X := qz lo) in *. set (Y := qz (n - 1)) in *. clearbody X Y. qc2q. lra.
      - replace (n - 2 - lo + 1) with (n - 1 - lo) by lia. rewrite (qz_sub (n - 1) lo). clear Epos.
        set (X := qz lo) in *. set (Y := qz (n - 1)) in *. clearbody X Y. qc2q. lra. }
    rewrite F. rewrite !nthq_sort_opp by (fold n; lia). fold n.
    rewrite (Z.min_l (lo + 1) (n - 1)) by lia. rewrite (Z.min_l (n - 2 - lo + 1) (n - 1)) by lia.
    replace (n - 1 - (lo + 1)) with (n - 2 - lo) by lia. replace (n - 2 - lo + 1) with (n - 1 - lo) by lia.
    replace (qz (n - 2 - lo)) with (qz (n - 1) - qz lo - 1)%Qc
      by (replace (n - 2 - lo) with (n - 1 - lo - 1) by lia; rewrite !qz_sub, qz1; reflexivity).
    ring. Qed.

(** interquartile range: the difference of two symmetric percentiles is |a|-equivariant *)
Lemma percentile_pair_affine a b l : a <> Q2Qc 0 -> l <> nil ->
  (percentile1 (qz 75) (map (affine a b) l) - percentile1 (qz 25) (map (affine a b) l))%Qc
  = scale (Qcabs a) (percentile1 (qz 75) l - percentile1 (qz 25) l)%Qc.
Proof. intros Ha Hl.
  assert (B25 : (Q2Qc 0 <= qz 25)%Qc /\ (qz 25 <= qz 100)%Qc) by (split; [apply qz_nonneg|apply qz_le]; lia).
  assert (B75 : (Q2Qc 0 <= qz 75)%Qc /\ (qz 75 <= qz 100)%Qc) by (split; [apply qz_nonneg|apply qz_le]; lia).
  destruct (Qclt_le_dec (Q2Qc 0) a) as [Hp|Hn].
  - rewrite !percentile1_increasing_affine by tauto. unfold affine, scale. rewrite Qcabs_pos by now apply Qclt_le_weak. ring.
  - assert (Hneg : (Q2Qc 0 < - a)%Qc) by (destruct (Qcle_lt_or_eq _ _ Hn) as [L|E]; [qc2q; lra|congruence]).
    replace (map (affine a b) l) with (map Qcopp (map (affine (- a) (- b)) l))
      by (rewrite map_map; apply map_ext; intro; unfold affine; ring).
    assert (Hl' : map (affine (- a) (- b)) l <> nil) by (destruct l; [congruence|discriminate]).
    rewrite !percentile1_opp by tauto.
    replace (qz 100 - qz 75)%Qc with (qz 25) by (rewrite <- qz_sub; reflexivity).
    replace (qz 100 - qz 25)%Qc with (qz 75) by (rewrite <- qz_sub; reflexivity).
    rewrite !percentile1_increasing_affine by tauto. unfold affine, scale. rewrite Qcabs_neg by exact Hn. ring. Qed.

Lemma affine_decreasing a b x y : (a < Q2Qc 0)%Qc -> Qcleb (affine a b x) (affine a b y) = Qcleb y x.
Proof. intro Ha. unfold affine. destruct (Qcleb y x) eqn:E.
  - apply Qcleb_iff in E. apply Qcleb_iff. qc2q. nra.
  - destruct (Qcleb (a * x + b) (a * y + b)) eqn:E'; [|reflexivity].
    apply Qcleb_iff in E'. assert (y <= x)%Qc by (qc2q; nra). apply Qcleb_iff in H. congruence. Qed.
Lemma Qcltb_alt x y : Qcltb x y = negb (Qcleb y x).
Proof. reflexivity. Qed.

(** * np.max *)
Lemma max1_fold_ge l : forall m, (m <= fold_left (fun m y => if Qcleb m y then y else m) l m)%Qc.
Proof. induction l as [|y l IH]; intro m; cbn; [apply Qcle_refl|]. destruct (Qcleb m y) eqn:E.
  - apply Qcleb_iff in E. eapply Qcle_trans; [exact E|apply IH]. - apply IH. Qed.
Lemma max1_nonneg l : (forall x, In x l -> (Q2Qc 0 <= x)%Qc) -> (Q2Qc 0 <= max1 l)%Qc.
Proof. destruct l as [|x l]; intro H; cbn; [apply Qcle_refl|]. eapply Qcle_trans; [apply H; now left|apply max1_fold_ge]. Qed.
Lemma max1_fold_map f l : increasing f -> forall m,
  fold_left (fun m y => if Qcleb m y then y else m) (map f l) (f m) = f (fold_left (fun m y => if Qcleb m y then y else m) l m).
Proof. intro Hf. induction l as [|y l IH]; intro m; cbn; [reflexivity|]. rewrite Hf. destruct (Qcleb m y); apply IH. Qed.
Lemma max1_scale c l : (Q2Qc 0 < c)%Qc -> max1 (map (scale c) l) = scale c (max1 l).
Proof. intro Hc. destruct l as [|x l]; cbn [max1 map]; [symmetry; apply scale_0|]. apply max1_fold_map. now apply scale_increasing. Qed.

(** np.std without a square-root function: any non-negative numbers whose squares are the two variances *)
Lemma sq_inj_nonneg x y : (Q2Qc 0 <= x)%Qc -> (Q2Qc 0 <= y)%Qc -> (x * x = y * y)%Qc -> x = y.
Proof. intros Hx Hy E. assert (F : ((x - y) * (x + y) = Q2Qc 0)%Qc) by (transitivity (x * x - y * y)%Qc; [ring|rewrite E; ring]).
  apply Qcmult_integral in F. destruct F as [F|F].
  - transitivity (x - y + y)%Qc; [ring|rewrite F; ring].
  - assert (x = Q2Qc 0 /\ y = Q2Qc 0) as [-> ->]; [|reflexivity].
    assert (Hxy : (x <= - y)%Qc) by (apply Qcle_minus_iff; replace (- y + - x)%Qc with (- (x + y))%Qc by ring; rewrite F; apply Qcle_refl).
    assert (Hny : (- y <= Q2Qc 0)%Qc) by (qc2q; lra).
    assert (x = Q2Qc 0) by (apply Qcle_antisym; [eapply Qcle_trans; eassumption|exact Hx]).
    split; [assumption|]. subst x. apply Qcle_antisym; [|exact Hy]. qc2q. lra. Qed.

Theorem std_affine a b l s s' : l <> nil -> (Q2Qc 0 <= s)%Qc -> (Q2Qc 0 <= s')%Qc ->
  (s * s = var1 l)%Qc -> (s' * s' = var1 (map (affine a b) l))%Qc -> s' = scale (Qcabs a) s.
Proof. intros Hl Hs Hs' E E'. apply sq_inj_nonneg; [exact Hs'| |].
  - unfold scale. pose proof (Qcabs_nonneg a). qc2q. nra.
  - rewrite E', var1_affine by exact Hl. rewrite <- E. unfold scale.
    replace (Qcabs a * s * (Qcabs a * s))%Qc with (Qcabs a * Qcabs a * (s * s))%Qc by ring. f_equal.
    rewrite <- Qcabs_Qcmult. symmetry. apply Qcabs_pos. qc2q. nra. Qed.
