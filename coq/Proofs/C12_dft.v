(** C12: the discrete Fourier transform over any commutative ring with a principal N-th root of unity in which N is invertible
    (the complex numbers with exp(2 pi i / N); Z/17 with 2 for N = 8) satisfies the inversion formula and the convolution theorem.
    These are the two laws the C12 model assumes of the external FFT (H2, H3 of Model/C12_conv.v): with this file the assumption
    shrinks from "the FFT library obeys the convolution theorem" to "the FFT library computes the DFT". *)
From Coq Require Import Arith List Lia Ring_theory Ring.
Import ListNotations.

Section DFT.
  Variable R : Type.
  Variables (r0 r1 : R) (radd rmul rsub : R -> R -> R) (ropp : R -> R).
  Hypothesis Rth : ring_theory r0 r1 radd rmul rsub ropp (@eq R).
  Add Ring Rring : Rth.
  Local Notation "x [+] y" := (radd x y) (at level 50, left associativity).
  Local Notation "x [*] y" := (rmul x y) (at level 40, left associativity).

  Fixpoint rsum (n : nat) (f : nat -> R) : R := match n with O => r0 | S m => rsum m f [+] f m end.
  Fixpoint rpow (x : R) (n : nat) : R := match n with O => r1 | S m => x [*] rpow x m end.
  Definition rnat (n : nat) : R := rsum n (fun _ => r1).

  Lemma rsum_ext n f g : (forall i, (i < n)%nat -> f i = g i) -> rsum n f = rsum n g.
  Proof. induction n as [|m IH]; intro E; cbn; [reflexivity|]. rewrite IH by (intros; apply E; lia). rewrite E by lia. reflexivity. Qed.

  Lemma rsum_zero n : rsum n (fun _ => r0) = r0.
  Proof. induction n as [|m IH]; cbn; [reflexivity|]. rewrite IH. ring. Qed.

  Lemma rsum_add n f g : rsum n (fun i => f i [+] g i) = rsum n f [+] rsum n g.
  Proof. induction n as [|m IH]; cbn; [ring|]. rewrite IH. ring. Qed.

  Lemma rsum_scal n c f : rsum n (fun i => c [*] f i) = c [*] rsum n f.
  Proof. induction n as [|m IH]; cbn; [ring|]. rewrite IH. ring. Qed.

  Lemma rsum_scal_r n c f : rsum n (fun i => f i [*] c) = rsum n f [*] c.
  Proof. induction n as [|m IH]; cbn; [ring|]. rewrite IH. ring. Qed.

  Lemma rsum_swap n m (f : nat -> nat -> R) : rsum n (fun i => rsum m (fun j => f i j)) = rsum m (fun j => rsum n (fun i => f i j)).
  Proof. induction n as [|k IH]; cbn.
    - symmetry. apply rsum_zero.
    - rewrite IH. rewrite <- rsum_add. reflexivity. Qed.

  (** a sum with a single non-zero term *)
  Lemma rsum_delta n j (f : nat -> R) (g : nat -> R) : (j < n)%nat ->
    (forall i, (i < n)%nat -> i <> j -> g i = r0) -> g j = f j -> rsum n g = f j.
  Proof. induction n as [|m IH]; intros Hj Hz Hv; [lia|]. cbn.
    destruct (Nat.eq_dec j m) as [->|Hne].
    - rewrite (rsum_ext m g (fun _ => r0)) by (intros i Hi; apply Hz; lia). rewrite rsum_zero, Hv. ring.
    - rewrite IH by (try lia; try assumption; intros; apply Hz; lia). rewrite (Hz m) by lia. ring. Qed.

  Lemma rpow_add x a b : rpow x (a + b) = rpow x a [*] rpow x b.
  Proof. induction a as [|a IH]; cbn; [ring|]. rewrite IH. ring. Qed.

  Lemma rpow_mul x a b : rpow x (a * b) = rpow (rpow x a) b.
  Proof. induction b as [|b IH]; cbn.
    - rewrite Nat.mul_0_r. reflexivity.
    - rewrite Nat.mul_succ_r, Nat.add_comm, rpow_add, IH. reflexivity. Qed.

  Lemma rpow_one n : rpow r1 n = r1.
  Proof. induction n as [|n IH]; cbn; [reflexivity|]. rewrite IH. ring. Qed.

  (** * a principal N-th root of unity *)
  Variable N : nat.
  Hypothesis Npos : (0 < N)%nat.
  Variables (w Ninv : R).
  Hypothesis wN : rpow w N = r1.
  Hypothesis Ninv_ok : rnat N [*] Ninv = r1.
  Hypothesis orth : forall d, (0 < d < N)%nat -> rsum N (fun k => rpow w (k * d)) = r0.

  Lemma w_mod m : rpow w m = rpow w (m mod N).
  Proof. rewrite (Nat.div_mod m N) at 1 by lia. rewrite rpow_add, rpow_mul, wN, rpow_one. ring. Qed.

  (** orthogonality for any exponent *)
  Lemma orth_all m : rsum N (fun k => rpow w (k * m)) = if Nat.eq_dec (m mod N) 0 then rnat N else r0.
  Proof. rewrite (rsum_ext N _ (fun k => rpow w (k * (m mod N)))).
    - destruct (Nat.eq_dec (m mod N) 0) as [E|NE].
      + rewrite E. unfold rnat. apply rsum_ext. intros i _. rewrite Nat.mul_0_r. reflexivity.
      + apply orth. pose proof (Nat.mod_upper_bound m N). lia.
    - intros k _. rewrite (w_mod (k * m)), (w_mod (k * (m mod N))). f_equal.
      rewrite Nat.mul_mod_idemp_r by lia. reflexivity. Qed.

  Definition dft (a : nat -> R) (k : nat) : R := rsum N (fun j => a j [*] rpow w (j * k)).
  (** w^(-jk) = w^((N - j) k) *)
  Definition idft (s : nat -> R) (j : nat) : R := Ninv [*] rsum N (fun k => s k [*] rpow w (k * (N - j))).

  Theorem idft_dft a j : (j < N)%nat -> idft (dft a) j = a j.
  Proof. intro Hj. unfold idft, dft.
    rewrite (rsum_ext N _ (fun k => rsum N (fun i => a i [*] rpow w (k * (i + (N - j)))))).
    2:{ intros k _. rewrite <- rsum_scal_r. apply rsum_ext. intros i _.
        replace (k * (i + (N - j))) with (i * k + k * (N - j)) by lia. rewrite rpow_add. ring. }
    rewrite rsum_swap.
    rewrite (rsum_ext N _ (fun i => a i [*] rsum N (fun k => rpow w (k * (i + (N - j)))))) by (intros; apply rsum_scal).
    rewrite (rsum_delta N j (fun i => a i [*] rnat N)); try assumption.
    - replace (Ninv [*] (a j [*] rnat N)) with (a j [*] (rnat N [*] Ninv)) by ring. rewrite Ninv_ok. ring.
    - intros i Hi Hne. rewrite orth_all. destruct (Nat.eq_dec ((i + (N - j)) mod N) 0) as [E|_]; [|ring].
      exfalso. apply Nat.mod_divides in E; [|lia]. destruct E as [c Hc]. assert (c = 1%nat) by nia. subst c. lia.
    - rewrite orth_all. replace (j + (N - j)) with N by lia. rewrite Nat.mod_same by lia.
      destruct (Nat.eq_dec 0 0); [reflexivity|congruence]. Qed.

  (** circular convolution *)
  Definition rcconv (a b : nat -> R) (t : nat) : R := rsum N (fun i => a i [*] b ((t + (N - i)) mod N)).

  Theorem convolution_theorem a b t : (t < N)%nat -> idft (fun k => dft a k [*] dft b k) t = rcconv a b t.
  Proof. intro Ht. unfold idft, dft, rcconv.
    (* expand the product of the two sums *)
    rewrite (rsum_ext N _ (fun k => rsum N (fun i => rsum N (fun l => (a i [*] b l) [*] rpow w (k * (i + l + (N - t))))))).
    2:{ intros k _. rewrite <- rsum_scal_r. rewrite <- rsum_scal_r. apply rsum_ext. intros i _.
        rewrite <- rsum_scal. rewrite <- rsum_scal_r. apply rsum_ext. intros l _.
        replace (k * (i + l + (N - t))) with (i * k + l * k + k * (N - t)) by lia. rewrite !rpow_add. ring. }
    rewrite rsum_swap.
    rewrite (rsum_ext N _ (fun i => rsum N (fun l => (a i [*] b l) [*] rsum N (fun k => rpow w (k * (i + l + (N - t))))))).
    2:{ intros i _. rewrite rsum_swap. apply rsum_ext. intros l _. apply rsum_scal. }
    rewrite <- rsum_scal. apply rsum_ext. intros i Hi.
    rewrite <- rsum_scal.
    apply (rsum_delta N ((t + (N - i)) mod N) (fun l => a i [*] b l)).
    - apply Nat.mod_upper_bound. lia.
    - intros l Hl Hne. rewrite orth_all. destruct (Nat.eq_dec ((i + l + (N - t)) mod N) 0) as [E|_]; [|ring].
      exfalso. apply Hne. apply Nat.mod_divides in E; [|lia]. destruct E as [c Hc].
      assert (Hc' : i + l + N = t + N * c) by lia.
      destruct c as [|[|[|c]]]; try nia.
      + (* c = 1 *) assert (E1 : t + (N - i) = l + 1 * N) by nia.
        rewrite E1, Nat.mod_add by lia. rewrite Nat.mod_small by lia. reflexivity.
      + (* c = 2 *) assert (E2 : t + (N - i) = l) by nia.
        rewrite E2. rewrite Nat.mod_small by lia. reflexivity.
    - set (l := (t + (N - i)) mod N). rewrite orth_all.
      destruct (Nat.eq_dec ((i + l + (N - t)) mod N) 0) as [_|NE].
      + replace (Ninv [*] (a i [*] b l [*] rnat N)) with (a i [*] b l [*] (rnat N [*] Ninv)) by ring. rewrite Ninv_ok. ring.
      + exfalso. apply NE. unfold l.
        rewrite <- (Nat.add_mod_idemp_l (i + (t + (N - i)) mod N) (N - t)) by lia.
        rewrite (Nat.add_mod_idemp_r i (t + (N - i))) by lia.
        rewrite Nat.add_mod_idemp_l by lia.
        replace (i + (t + (N - i)) + (N - t)) with (2 * N) by lia. apply Nat.mod_mul. lia. Qed.
  (** Plancherel / Parseval in bilinear form: with the conjugate transform  dftc b k = sum_j b[j] w^(-jk)  (for real signals over the
      complex numbers, the complex conjugate of dft b k),  sum_k dft a k * dftc b k = N * sum_j a[j] * b[j];  a = b is Parseval's identity *)
  Definition dftc (b : nat -> R) (k : nat) : R := rsum N (fun j => b j [*] rpow w ((N - j) * k)).

  Theorem plancherel a b : rsum N (fun k => dft a k [*] dftc b k) = rnat N [*] rsum N (fun j => a j [*] b j).
  Proof. unfold dft, dftc.
    rewrite (rsum_ext N _ (fun k => rsum N (fun i => rsum N (fun l => (a i [*] b l) [*] rpow w (k * (i + (N - l))))))).
    2:{ intros k _. rewrite <- rsum_scal_r. apply rsum_ext. intros i _. rewrite <- rsum_scal. apply rsum_ext. intros l _.
        replace (k * (i + (N - l))) with (i * k + (N - l) * k) by lia. rewrite rpow_add. ring. }
    rewrite rsum_swap.
    rewrite (rsum_ext N _ (fun i => rsum N (fun l => (a i [*] b l) [*] rsum N (fun k => rpow w (k * (i + (N - l))))))).
    2:{ intros i _. rewrite rsum_swap. apply rsum_ext. intros l _. apply rsum_scal. }
    rewrite <- rsum_scal. apply rsum_ext. intros i Hi.
    rewrite (rsum_delta N i (fun l => rnat N [*] (a i [*] b l))); try assumption; try reflexivity.
    - intros l Hl Hne. rewrite orth_all. destruct (Nat.eq_dec ((i + (N - l)) mod N) 0) as [E|_]; [|ring].
      exfalso. apply Nat.mod_divides in E; [|lia]. destruct E as [c Hc]. assert (c = 1%nat) by nia. subst c. lia.
    - rewrite orth_all. replace (i + (N - i)) with N by lia. rewrite Nat.mod_same by lia.
      destruct (Nat.eq_dec 0 0); [ring|congruence]. Qed.
End DFT.
