(** C15 -- the estimators whose text differs between the pinned tree (fc376ec) and the repaired tree, REPAIRED reading
    (fixes/C15-*.diff applied): _scale_iqr subtracts the two percentile planes, _scale_mad squeezes only the reduced
    axis, _scale_doublemad gives a sample at the median the mean of the two MADs, _scale_sn goes through
    apply_along_axes like Qn and the Gapper estimator. *)
From Coq Require Import ZArith List Bool QArith Qcanon Qcabs Lia.
Require Import SPP.Base.Rt SPP.Base.Iter SPP.Model.C15_np SPP.Gen.Stats.
Require Import SPP.Proofs.C15_lib SPP.Proofs.C15_order SPP.Proofs.C15_rel SPP.Proofs.C15_equiv SPP.Proofs.C15_view SPP.Proofs.C15_lanes SPP.Proofs.C15_lanes2.
Import ListNotations.
Open Scope Z_scope.

Section Equiv.
  Variables (np_sqrt : Qc -> Qc) (np_pi : Qc) (memo : nd -> nd).
  Hypothesis Hm : memo_ok memo.
  Variables a b : Qc.
  Hypothesis Ha : a <> Q2Qc 0.
  Let c := Qcabs a.
  Let Hc : (Q2Qc 0 < c)%Qc := Qcabs_pos_of_neq0 a Ha.

  Definition quartiles : vec := qz 25 :: qz 75 :: nil.

  (** ** _scale_iqr *)
  Theorem scale_iqr_equivariant A A' axis : rel_of (affine a b) A A' -> lanes_nonempty A axis ->
    rel_of (scale c) (scale_iqr memo A axis) (scale_iqr memo A' axis).
  Proof. intros H Hne. unfold scale_iqr. fold quartiles. set (norm := qdec _ _).
    eapply rel_map2; [intros; apply div_scale| |apply rel_scalar_id].
    assert (Hs : shape (memo (np_percentiles quartiles A' axis false)) = shape (memo (np_percentiles quartiles A axis false))).
    { rewrite !(memo_shape memo Hm). unfold np_percentiles; cbn [shape].
      now rewrite (reduce_shape_rel (affine a b) _ (percentile1 (qz 0)) A A' axis false H). }
    split.
    - cbn [shape np_sub nd_map2 np_index0]. now rewrite Hs.
    - intro idx. cbn [get shape np_sub nd_map2 np_index0]. rewrite Hs. rewrite !(memo_get memo Hm).
      unfold np_percentiles. cbn [get shape hd tl]. rewrite !(memo_shape memo Hm). cbn [shape tl].
      set (s := shape (np_reduce (percentile1 (qz 0)) A axis false)).
      change (nthq quartiles 1) with (qz 75). change (nthq quartiles 0) with (qz 25).
      destruct (reduce_witness (affine a b) A A' axis false (bidx s idx) H Hne) as [L [HL [E1 E2]]].
      rewrite !E1, !E2. now apply percentile_pair_affine. Qed.

  (** ** _scale_sn_1d and _scale_sn *)
  Lemma mmedian_scale m : mmedian_last (map (map (scale c)) m) = map (scale c) (mmedian_last m).
  Proof. unfold mmedian_last. rewrite !map_map. apply map_ext. intro r. now apply median1_scale. Qed.

  Theorem scale_sn_1d_equivariant l : scale_sn_1d (map (affine a b) l) = scale c (scale_sn_1d l).
  Proof. unfold scale_sn_1d. rewrite (outer_sub_affine a b), (mabs_scale a), mmedian_scale, median1_scale by exact Hc.
    unfold scale. ring. Qed.

  Theorem scale_sn_equivariant A A' axis : rel_of (affine a b) A A' ->
    rel_of (scale c) (scale_sn memo A axis) (scale_sn memo A' axis).
  Proof. intro H. unfold scale_sn. apply (rel_apply_along_axes memo Hm _ (affine a b)); [apply scale_sn_1d_equivariant|exact H]. Qed.

  (** ** _scale_doublemad (repaired): equivariant at every sample, for either sign of [a] *)
  Definition dm_final (A loc ML MR : nd) : nd :=
    let mad_mid := memo (np_mul (scalar (qdec 5 1)) (np_add ML MR)) in
    np_where (np_lt A loc) ML (np_where (np_gt A loc) MR mad_mid).

  Lemma scale_doublemad_unfold A axis :
    scale_doublemad np_sqrt np_pi memo A axis =
    let loc := memo (np_reduce median1 A axis true) in
    let diff := memo (np_sub A loc) in
    dm_final A loc (dm_side np_sqrt np_pi memo axis (np_le A loc) (np_abs diff))
                   (dm_side np_sqrt np_pi memo axis (np_ge A loc) (np_abs diff)).
  Proof. reflexivity. Qed.

  Lemma half_sum_scale x y : (qdec 5 1 * (scale c x + scale c y) = scale c (qdec 5 1 * (x + y)))%Qc.
  Proof. unfold scale. ring. Qed.

  (** what the last two lines compute at one sample *)
  Lemma rd_dm_final sh A loc ML MR I : bc sh (shape A) -> bc sh (shape loc) -> bc sh (shape ML) -> bc sh (shape MR) ->
    length I = length sh ->
    rd (dm_final A loc ML MR) I =
      if Qcltb (rd A I) (rd loc I) then rd ML I
      else if Qcltb (rd loc I) (rd A I) then rd MR I else (qdec 5 1 * (rd ML I + rd MR I))%Qc.
  Proof. intros BA BL BML BMR HI. unfold dm_final. cbv zeta.
    assert (BMID : bc sh (shape (memo (np_mul (scalar (qdec 5 1)) (np_add ML MR))))).
    { rewrite (memo_shape memo Hm). apply bc_map2; [now left|now apply bc_map2]. }
    assert (BLT : bc sh (shape (np_lt A loc))) by now apply bc_map2.
    assert (BGT : bc sh (shape (np_gt A loc))) by now apply bc_map2.
    unfold np_where at 1. rewrite (rd_map3 sh) by (try assumption; now apply bc_map3).
    unfold np_where. rewrite (rd_map3 sh) by assumption.
    unfold np_lt, np_gt. rewrite !(rd_map2 sh) by assumption. rewrite !qtrue_qbool.
    unfold rd at 7. rewrite (memo_shape memo Hm), (memo_get memo Hm). fold (rd (np_mul (scalar (qdec 5 1)) (np_add ML MR)) I).
    unfold np_mul, np_add. rewrite !(rd_map2 sh) by (try assumption; try (now left); now apply bc_map2).
    reflexivity. Qed.

  Lemma dm_final_shape sh A loc ML MR : sh <> nil -> shape A = sh -> bc sh (shape loc) -> bc sh (shape ML) -> bc sh (shape MR) ->
    shape (dm_final A loc ML MR) = sh.
  Proof. intros Hsh HA BL BML BMR. unfold dm_final. cbv zeta.
    assert (BMID : bc sh (shape (memo (np_mul (scalar (qdec 5 1)) (np_add ML MR))))).
    { rewrite (memo_shape memo Hm). apply bc_map2; [now left|now apply bc_map2]. }
    assert (BA : bc sh (shape A)) by (rewrite HA; apply bc_full).
    assert (BW : bc sh (shape (np_where (np_gt A loc) MR (memo (np_mul (scalar (qdec 5 1)) (np_add ML MR)))))).
    { unfold np_where. apply bc_map3; try assumption. now apply bc_map2. }
    change (shape (np_where (np_lt A loc) ML (np_where (np_gt A loc) MR (memo (np_mul (scalar (qdec 5 1)) (np_add ML MR))))))
      with (bshape (bshape (bshape (shape A) (shape loc)) (shape ML)) (shape (np_where (np_gt A loc) MR (memo (np_mul (scalar (qdec 5 1)) (np_add ML MR)))))).
    rewrite HA. rewrite (bshape_full_l sh _ BL), (bshape_full_l sh _ BML), (bshape_full_l sh _ BW). reflexivity. Qed.

  Section DM.
    Variables (A A' : nd) (axis : option Z) (sh : list Z).
    Hypothesis H : rel_of (affine a b) A A'.
    Hypothesis Hne : lanes_nonempty A axis.
    Hypothesis HA : shape A = sh.
    Hypothesis Hsh : sh <> nil.
    Let Hloc := dm_loc memo Hm a b Ha A A' axis H Hne.
    Let Hdev := dm_absdiff memo Hm a b Ha A A' axis H Hne.

    Lemma dm_shapes B : shape B = sh ->
      let loc := memo (np_reduce median1 B axis true) in
      bc sh (shape loc) /\ shape (np_le B loc) = sh /\ shape (np_ge B loc) = sh /\ shape (np_abs (memo (np_sub B loc))) = sh.
    Proof. intros HB loc. assert (BL : bc sh (shape loc)).
      { unfold loc. rewrite (memo_shape memo Hm).
        assert (B0 : bc (shape B) (shape (np_reduce median1 B axis true))) by (apply bc_reduce; rewrite HB; exact Hsh).
        now rewrite HB in B0. }
      split; [exact BL|]. cbn [shape np_le np_ge np_abs nd_map nd_map2 np_sub]. rewrite (memo_shape memo Hm). cbn [shape np_sub nd_map2].
      rewrite HB. repeat split; now apply bshape_full_l. Qed.

    Theorem scale_doublemad_equivariant I : length I = length sh ->
      rd (scale_doublemad np_sqrt np_pi memo A' axis) I = scale c (rd (scale_doublemad np_sqrt np_pi memo A axis) I).
    Proof. intro HI. rewrite !scale_doublemad_unfold. cbv zeta.
      assert (HA' : shape A' = sh) by (pose proof H as [Hs _]; congruence).
      destruct (dm_shapes A HA) as [BL [SLE [SGE SX]]]. destruct (dm_shapes A' HA') as [BL' [SLE' [SGE' SX']]]. cbv zeta in *.
      rewrite !(rd_dm_final sh) by (try assumption; try (rewrite ?HA, ?HA'; apply bc_full); apply dm_side_bc; assumption).
      rewrite (rel_rd _ _ _ I H), (rel_rd _ _ _ I Hloc).
      set (x := rd A I). set (m := rd (memo (np_reduce median1 A axis true)) I).
      rewrite !Qcltb_alt.
      destruct (Qclt_le_dec (Q2Qc 0) a) as [Hp|Hn0].
      - pose proof (affine_increasing a b Hp) as Hinc. rewrite !Hinc.
        assert (HL : rel_of (scale c) (dm_side np_sqrt np_pi memo axis (np_le A (memo (np_reduce median1 A axis true))) (np_abs (memo (np_sub A (memo (np_reduce median1 A axis true))))))
                                     (dm_side np_sqrt np_pi memo axis (np_le A' (memo (np_reduce median1 A' axis true))) (np_abs (memo (np_sub A' (memo (np_reduce median1 A' axis true))))))).
        { apply (dm_side_rel np_sqrt np_pi memo Hm a Ha); [|exact Hdev].
          apply (dm_mask_pos memo Hm a b Ha A A' axis H Hne Qcleb Hp). intros u v. now rewrite Hinc. }
        assert (HR : rel_of (scale c) (dm_side np_sqrt np_pi memo axis (np_ge A (memo (np_reduce median1 A axis true))) (np_abs (memo (np_sub A (memo (np_reduce median1 A axis true))))))
                                     (dm_side np_sqrt np_pi memo axis (np_ge A' (memo (np_reduce median1 A' axis true))) (np_abs (memo (np_sub A' (memo (np_reduce median1 A' axis true))))))).
        { apply (dm_side_rel np_sqrt np_pi memo Hm a Ha); [|exact Hdev].
          apply (dm_mask_pos memo Hm a b Ha A A' axis H Hne (fun u v => Qcleb v u) Hp). intros u v. now rewrite Hinc. }
        rewrite (rel_rd _ _ _ I HL), (rel_rd _ _ _ I HR).
        destruct (negb (Qcleb m x)); [reflexivity|]. destruct (negb (Qcleb x m)); [reflexivity|]. apply half_sum_scale.
      - assert (Hn : (a < Q2Qc 0)%Qc) by (destruct (Qcle_lt_or_eq _ _ Hn0) as [L|E]; [exact L|congruence]).
        pose proof (fun u v => affine_decreasing a b u v Hn) as Hdec. rewrite !Hdec.
        assert (HL : rel_of (scale c) (dm_side np_sqrt np_pi memo axis (np_ge A (memo (np_reduce median1 A axis true))) (np_abs (memo (np_sub A (memo (np_reduce median1 A axis true))))))
                                     (dm_side np_sqrt np_pi memo axis (np_le A' (memo (np_reduce median1 A' axis true))) (np_abs (memo (np_sub A' (memo (np_reduce median1 A' axis true))))))).
        { apply (dm_side_rel np_sqrt np_pi memo Hm a Ha); [|exact Hdev].
          apply (dm_mask_neg memo Hm a b Ha A A' axis H Hne (fun u v => Qcleb v u) Qcleb). intros u v. now rewrite Hdec. }
        assert (HR : rel_of (scale c) (dm_side np_sqrt np_pi memo axis (np_le A (memo (np_reduce median1 A axis true))) (np_abs (memo (np_sub A (memo (np_reduce median1 A axis true))))))
                                     (dm_side np_sqrt np_pi memo axis (np_ge A' (memo (np_reduce median1 A' axis true))) (np_abs (memo (np_sub A' (memo (np_reduce median1 A' axis true))))))).
        { apply (dm_side_rel np_sqrt np_pi memo Hm a Ha); [|exact Hdev].
          apply (dm_mask_neg memo Hm a b Ha A A' axis H Hne Qcleb (fun u v => Qcleb v u)). intros u v. now rewrite Hdec. }
        rewrite (rel_rd _ _ _ I HL), (rel_rd _ _ _ I HR).
        destruct (Qcleb m x) eqn:E1, (Qcleb x m) eqn:E2; cbn [negb]; try reflexivity.
        + unfold scale. ring.
        + apply Qcleb_false in E1. apply Qcleb_iff in E1. congruence. Qed.
  End DM.
End Equiv.

(** * lane handling (repaired tree) *)
Section Lanes.
  Variables (np_sqrt : Qc -> Qc) (np_pi : Qc) (memo : nd -> nd).
  Hypothesis Hm : memo_ok memo.

  Lemma scale_mad_core A axis : scale_mad np_sqrt np_pi memo A axis = np_squeeze_axis (mad_core np_sqrt np_pi memo A axis) axis.
  Proof. reflexivity. Qed.

  (** _scale_doublemad read through a pair of views *)
  Lemma scale_doublemad_view V W : view_ok V -> view_ok W -> v_n W = v_n V -> forall A B, LRF V W A B ->
    LRF V W (scale_doublemad np_sqrt np_pi memo A (v_axis V)) (scale_doublemad np_sqrt np_pi memo B (v_axis W)).
  Proof. intros HV HW Hn A B HF. rewrite !(scale_doublemad_unfold np_sqrt np_pi memo). cbv zeta.
    assert (HLoc : LR V W (memo (np_reduce median1 A (v_axis V) true)) (memo (np_reduce median1 B (v_axis W) true))) by lr.
    assert (HX : LRF V W (np_abs (memo (np_sub A (memo (np_reduce median1 A (v_axis V) true))))) (np_abs (memo (np_sub B (memo (np_reduce median1 B (v_axis W) true)))))) by lr.
    assert (HML : LR V W (dm_side np_sqrt np_pi memo (v_axis V) (np_le A (memo (np_reduce median1 A (v_axis V) true))) (np_abs (memo (np_sub A (memo (np_reduce median1 A (v_axis V) true))))))
                         (dm_side np_sqrt np_pi memo (v_axis W) (np_le B (memo (np_reduce median1 B (v_axis W) true))) (np_abs (memo (np_sub B (memo (np_reduce median1 B (v_axis W) true))))))).
    { apply (dm_side_LR V W HV HW Hn np_sqrt np_pi memo Hm); [lr|exact HX]. }
    assert (HMR : LR V W (dm_side np_sqrt np_pi memo (v_axis V) (np_ge A (memo (np_reduce median1 A (v_axis V) true))) (np_abs (memo (np_sub A (memo (np_reduce median1 A (v_axis V) true))))))
                         (dm_side np_sqrt np_pi memo (v_axis W) (np_ge B (memo (np_reduce median1 B (v_axis W) true))) (np_abs (memo (np_sub B (memo (np_reduce median1 B (v_axis W) true))))))).
    { apply (dm_side_LR V W HV HW Hn np_sqrt np_pi memo Hm); [lr|exact HX]. }
    set (MLx := dm_side np_sqrt np_pi memo (v_axis V) (np_le A _) _) in *. set (MRx := dm_side np_sqrt np_pi memo (v_axis V) (np_ge A _) _) in *.
    set (MLy := dm_side np_sqrt np_pi memo (v_axis W) (np_le B _) _) in *. set (MRy := dm_side np_sqrt np_pi memo (v_axis W) (np_ge B _) _) in *.
    split.
    - unfold dm_final. cbv zeta. unfold np_where. pose proof (proj1 HF) as HF0. lr.
    - destruct HF as [HF0 [S1 S2]]. destruct HLoc as [b1 b2 _]. destruct HML as [b3 b4 _]. destruct HMR as [b5 b6 _].
      split; apply (dm_final_shape memo Hm); try assumption; apply vo_nonnil; assumption. Qed.

  (** _scale_iqr: the shape is that of a keepdims=False reduction; an element is the difference of the two percentile
      planes at that element, over the normalisation *)
  Lemma scale_iqr_get A axis idx : in_range (shape (np_reduce (percentile1 (qz 0)) A axis false)) idx ->
    shape (scale_iqr memo A axis) = shape (np_reduce (percentile1 (qz 0)) A axis false) /\
    get (scale_iqr memo A axis) idx =
      ((get (np_reduce (percentile1 (qz 75)) A axis false) idx - get (np_reduce (percentile1 (qz 25)) A axis false) idx)
       / qdec 13489795003921634 16)%Qc.
  Proof. intro Hin. unfold scale_iqr. fold quartiles.
    assert (SP : tl (shape (memo (np_percentiles quartiles A axis false))) = shape (np_reduce (percentile1 (qz 0)) A axis false)).
    { rewrite (memo_shape memo Hm). reflexivity. }
    split.
    - cbn [shape np_div np_sub nd_map2 np_index0 scalar]. rewrite SP, bshape_self. apply bshape_nil_r'.
    - cbn [get shape np_div np_sub nd_map2 np_index0 scalar]. rewrite SP. rewrite bshape_self.
      rewrite !(bidx_in_range _ idx Hin). rewrite !(memo_get memo Hm). reflexivity. Qed.

  Section Along.
    Variables (sh : list Z) (k0 : Z) (I0 : list Z) (A : nd).
    Hypothesis Hsh : sh <> nil.
    Hypothesis HA : shape A = sh.
    Hypothesis HI : in_range sh I0.
    Let k := axis_of sh k0.
    Hypothesis Hn : 1 <= nth k sh 0.
    Let L := lane A k I0.

    Theorem scale_mad_lane :
      shape (scale_mad np_sqrt np_pi memo A (Some k0)) = remove_nth k sh /\
      get (scale_mad np_sqrt np_pi memo A (Some k0)) (remove_nth k I0) = get (scale_mad np_sqrt np_pi memo (of_vec L) None) nil.
    Proof. rewrite !scale_mad_core. unfold L, k, axis_of in *.
      pose proof (LRF_lane sh k0 I0 A Hsh HA HI ltac:(lia)) as HF. cbv zeta in HF.
      pose proof (lane_view_ok sh k0 I0 Hsh HI) as HV. pose proof (vec_view_ok (nth (Z.to_nat (k0 mod Z.of_nat (length sh))) sh 0) ltac:(lia)) as HW.
      pose proof (mad_core_LR _ _ HV HW eq_refl np_sqrt np_pi memo Hm A _ HF) as HC. cbn [v_axis lane_view vec_view] in HC.
      assert (SM : shape (mad_core np_sqrt np_pi memo A (Some k0)) = set_nth (Z.to_nat (k0 mod Z.of_nat (length sh))) 1 sh).
      { rewrite (mad_core_shape np_sqrt np_pi memo Hm) by (now rewrite HA). unfold np_reduce, reduce_axis, norm_axis, ndim. cbn [shape]. now rewrite HA. }
      destruct (squeeze_axis_lane sh k0 I0 Hsh HI _ 0 SM ltac:(lia)) as [S1 G1]. split; [exact S1|]. rewrite G1.
      assert (SY : shape (mad_core np_sqrt np_pi memo (of_vec (lane A (Z.to_nat (k0 mod Z.of_nat (length sh))) I0)) None) = 1 :: nil).
      { rewrite (mad_core_shape np_sqrt np_pi memo Hm) by (cbn; discriminate). reflexivity. }
      cbn [np_squeeze_axis]. destruct (squeeze_one _ 0 SY) as [_ G2]. rewrite G2.
      apply (lr_rd _ _ _ _ HC 0). cbn [v_n lane_view]. lia. Qed.

    (** _scale_sn goes through apply_along_axes *)
    Theorem scale_sn_lane :
      shape (scale_sn memo A (Some k0)) = remove_nth k sh /\
      get (scale_sn memo A (Some k0)) (remove_nth k I0) = get (scale_sn memo (of_vec L) None) nil.
    Proof. unfold scale_sn. rewrite (apply_along_axes_vec memo). now apply apply_along_axes_lane. Qed.

    (** _scale_iqr: the two percentile planes are computed with keepdims=False *)
    Definition iqr1 (l : vec) : Qc := ((percentile1 (qz 75) l - percentile1 (qz 25) l) / qdec 13489795003921634 16)%Qc.
    Theorem scale_iqr_lane :
      shape (scale_iqr memo A (Some k0)) = remove_nth k sh /\
      get (scale_iqr memo A (Some k0)) (remove_nth k I0) = get (scale_iqr memo (of_vec L) None) nil.
    Proof. unfold L, k, axis_of in *.
      pose proof (fun f => reduce_nokd_lane sh k0 I0 Hsh HI f A HA) as R.
      set (kk := Z.to_nat (k0 mod Z.of_nat (length sh))) in *.
      destruct (scale_iqr_get A (Some k0) (remove_nth kk I0)) as [S1 G1].
      { rewrite (proj1 (R _)). now apply in_range_remove_nth. }
      destruct (scale_iqr_get (of_vec (lane A kk I0)) None nil) as [S2 G2]; [exact Logic.I|].
      rewrite S1, G1, G2. split; [apply (R (percentile1 (qz 0)))|].
      rewrite !(proj2 (R _)). unfold np_reduce, reduce_all. cbn [get]. now rewrite ravel_of_vec. Qed.

    (** _scale_doublemad: one scale per sample; along the lane it is the 1-D estimator of the lane *)
    Theorem scale_doublemad_lane j : 0 <= j < nth k sh 0 ->
      shape (scale_doublemad np_sqrt np_pi memo A (Some k0)) = sh /\
      get (scale_doublemad np_sqrt np_pi memo A (Some k0)) (set_nth k j I0)
      = get (scale_doublemad np_sqrt np_pi memo (of_vec L) None) (j :: nil).
    Proof. intro Hj. unfold L, k, axis_of in *. set (kk := Z.to_nat (k0 mod Z.of_nat (length sh))) in *.
      pose proof (LRF_lane sh k0 I0 A Hsh HA HI ltac:(fold kk; lia)) as HF. cbv zeta in HF. fold kk in HF.
      pose proof (lane_view_ok sh k0 I0 Hsh HI) as HV. pose proof (vec_view_ok (nth kk sh 0) ltac:(lia)) as HW.
      destruct (scale_doublemad_view _ _ HV HW eq_refl A _ HF) as [HR [S1 S2]]. cbn [v_axis v_sh lane_view vec_view] in *.
      split; [exact S1|].
      rewrite <- (rd_full sh) by (try assumption; now apply in_range_set_nth).
      rewrite <- (rd_full (nth kk sh 0 :: nil) _ (j :: nil)) by (try assumption; cbn; lia).
      apply (lr_rd _ _ _ _ HR j). cbn [v_n lane_view]. fold kk. lia. Qed.
  End Along.

  (** axis=None: the whole array against the flattened data *)
  Section Flat.
    Variables (sh : list Z) (A : nd).
    Hypothesis Hsh : sh <> nil.
    Hypothesis HA : shape A = sh.
    Hypothesis Hne : all_idx sh <> nil.      (* the array is not empty *)
    Let N := Z.of_nat (length (all_idx sh)).
    Lemma N_pos : 1 <= N.
    Proof. unfold N. destruct (all_idx sh); [congruence|cbn; lia]. Qed.

    Theorem scale_mad_flat :
      shape (scale_mad np_sqrt np_pi memo A None) = nil /\
      get (scale_mad np_sqrt np_pi memo A None) nil = get (scale_mad np_sqrt np_pi memo (of_vec (ravel A)) None) nil.
    Proof. rewrite !scale_mad_core. pose proof N_pos as HN.
      pose proof (LRF_flat sh A Hsh HA) as HF. fold N in HF.
      pose proof (flat_view_ok sh Hsh) as HV. pose proof (vec_view_ok N ltac:(lia)) as HW.
      pose proof (mad_core_LR _ _ HV HW eq_refl np_sqrt np_pi memo Hm A _ HF) as HC. cbn [v_axis flat_view vec_view] in HC.
      assert (SM : shape (mad_core np_sqrt np_pi memo A None) = map (fun _ => 1) sh).
      { rewrite (mad_core_shape np_sqrt np_pi memo Hm) by (now rewrite HA). unfold np_reduce, reduce_all. cbn [shape]. now rewrite HA. }
      assert (HI0 : in_range sh (nth (Z.to_nat 0) (all_idx sh) nil)) by (apply in_range_all_idx, nth_In; fold N in HN |- *; lia).
      cbn [np_squeeze_axis].
      destruct (squeeze_ones sh _ (nth (Z.to_nat 0) (all_idx sh) nil) SM (in_range_length _ _ HI0)) as [S1 G1].
      split; [exact S1|]. rewrite G1.
      assert (SY : shape (mad_core np_sqrt np_pi memo (of_vec (ravel A)) None) = 1 :: nil).
      { rewrite (mad_core_shape np_sqrt np_pi memo Hm) by (cbn; discriminate). reflexivity. }
      destruct (squeeze_one _ 0 SY) as [_ G2]. rewrite G2.
      apply (lr_rd _ _ _ _ HC 0). cbn [v_n flat_view]. fold N. lia. Qed.

    Theorem scale_iqr_flat :
      shape (scale_iqr memo A None) = nil /\
      get (scale_iqr memo A None) nil = get (scale_iqr memo (of_vec (ravel A)) None) nil.
    Proof. destruct (scale_iqr_get A None nil) as [S1 G1]; [exact Logic.I|].
      destruct (scale_iqr_get (of_vec (ravel A)) None nil) as [S2 G2]; [exact Logic.I|].
      rewrite S1, G1, G2. split; [reflexivity|]. unfold np_reduce, reduce_all. cbn [get]. now rewrite ravel_of_vec. Qed.

    Theorem scale_doublemad_flat j : 0 <= j < N ->
      shape (scale_doublemad np_sqrt np_pi memo A None) = sh /\
      get (scale_doublemad np_sqrt np_pi memo A None) (nth (Z.to_nat j) (all_idx sh) nil)
      = get (scale_doublemad np_sqrt np_pi memo (of_vec (ravel A)) None) (j :: nil).
    Proof. intro Hj. pose proof (LRF_flat sh A Hsh HA) as HF. fold N in HF.
      pose proof (flat_view_ok sh Hsh) as HV. pose proof (vec_view_ok N ltac:(lia)) as HW.
      destruct (scale_doublemad_view _ _ HV HW eq_refl A _ HF) as [HR [S1 S2]]. cbn [v_axis v_sh flat_view vec_view] in *.
      split; [exact S1|].
      assert (HIj : in_range sh (nth (Z.to_nat j) (all_idx sh) nil)) by (apply in_range_all_idx, nth_In; fold N; lia).
      rewrite <- (rd_full sh) by assumption.
      rewrite <- (rd_full (N :: nil) _ (j :: nil)) by (try assumption; cbn; lia).
      apply (lr_rd _ _ _ _ HR j). cbn [v_n flat_view]. fold N. lia. Qed.
  End Flat.
End Lanes.
