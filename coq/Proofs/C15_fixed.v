(** C15 -- the estimators whose text differs between the pinned tree (fc376ec) and the repaired tree, REPAIRED reading
    (fixes/C15-*.diff applied): _scale_iqr subtracts the two percentile planes, _scale_mad squeezes only the reduced
    axis, _scale_doublemad gives a sample at the median the mean of the two MADs, _scale_sn goes through
    apply_along_axes like Qn and the Gapper estimator. *)
From Coq Require Import ZArith List Bool QArith Qcanon Qcabs Lia.
Require Import SPP.Base.Rt SPP.Base.Iter SPP.Model.C15_np SPP.Gen.Stats.
Require Import SPP.Proofs.C15_lib SPP.Proofs.C15_order SPP.Proofs.C15_rel SPP.Proofs.C15_equiv SPP.Proofs.C15_view SPP.Proofs.C15_lanes.
Import ListNotations.
Open Scope Z_scope.

Section Equiv.
  Variables (np_sqrt : Qc -> Qc) (np_pi : Qc) (memo : nd -> nd).
  Hypothesis Hm : memo_ok memo.
  Variables a b : Qc.
  Hypothesis Ha : a <> Q2Qc 0.
  Let c := Qcabs a.
  Let Hc : (Q2Qc 0 < c)%Qc := Qcabs_pos_of_neq0 a Ha.

  Definition quartiles : vec := qz 25 :: qz 75 :: nil.

  (** ** _scale_iqr *)
  Theorem scale_iqr_equivariant A A' axis : rel_of (affine a b) A A' -> lanes_nonempty A axis ->
    rel_of (scale c) (scale_iqr memo A axis) (scale_iqr memo A' axis).
  Proof. intros H Hne. unfold scale_iqr. fold quartiles. set (norm := qdec _ _).
    eapply rel_map2; [intros; apply div_scale| |apply rel_scalar_id].
    assert (Hs : shape (memo (np_percentiles quartiles A' axis false)) = shape (memo (np_percentiles quartiles A axis false))).
    { rewrite !(memo_shape memo Hm). unfold np_percentiles; cbn [shape].
      now rewrite (reduce_shape_rel (affine a b) _ (percentile1 (qz 0)) A A' axis false H). }
    split.
    - cbn [shape np_sub nd_map2 np_index0]. now rewrite Hs.
    - intro idx. cbn [get shape np_sub nd_map2 np_index0]. rewrite Hs. rewrite !(memo_get memo Hm).
      unfold np_percentiles. cbn [get shape hd tl]. rewrite !(memo_shape memo Hm). cbn [shape tl].
      set (s := shape (np_reduce (percentile1 (qz 0)) A axis false)).
      change (nthq quartiles 1) with (qz 75). change (nthq quartiles 0) with (qz 25).
      destruct (reduce_witness (affine a b) A A' axis false (bidx s idx) H Hne) as [L [HL [E1 E2]]].
      rewrite !E1, !E2. now apply percentile_pair_affine. Qed.

  (** ** _scale_sn_1d and _scale_sn *)
  Lemma mmedian_scale m : mmedian_last (map (map (scale c)) m) = map (scale c) (mmedian_last m).
  Proof. unfold mmedian_last. rewrite !map_map. apply map_ext. intro r. now apply median1_scale. Qed.

  Theorem scale_sn_1d_equivariant l : scale_sn_1d (map (affine a b) l) = scale c (scale_sn_1d l).
  Proof. unfold scale_sn_1d. rewrite (outer_sub_affine a b), (mabs_scale a), mmedian_scale, median1_scale by exact Hc.
    unfold scale. ring. Qed.

  Theorem scale_sn_equivariant A A' axis : rel_of (affine a b) A A' ->
    rel_of (scale c) (scale_sn memo A axis) (scale_sn memo A' axis).
  Proof. intro H. unfold scale_sn. apply (rel_apply_along_axes memo Hm _ (affine a b)); [apply scale_sn_1d_equivariant|exact H]. Qed.

  (** ** _scale_doublemad (repaired): equivariant at every sample, for either sign of [a] *)
  Definition dm_final (A loc ML MR : nd) : nd :=
    let mad_mid := memo (np_mul (scalar (qdec 5 1)) (np_add ML MR)) in
    np_where (np_lt A loc) ML (np_where (np_gt A loc) MR mad_mid).

  Lemma scale_doublemad_unfold A axis :
    scale_doublemad np_sqrt np_pi memo A axis =
    let loc := memo (np_reduce median1 A axis true) in
    let diff := memo (np_sub A loc) in
    dm_final A loc (dm_side np_sqrt np_pi memo axis (np_le A loc) (np_abs diff))
                   (dm_side np_sqrt np_pi memo axis (np_ge A loc) (np_abs diff)).
  Proof. reflexivity. Qed.

  Lemma half_sum_scale x y : (qdec 5 1 * (scale c x + scale c y) = scale c (qdec 5 1 * (x + y)))%Qc.
  Proof. unfold scale. ring. Qed.

  Section DM.
    Variables (A A' : nd) (axis : option Z).
    Hypothesis H : rel_of (affine a b) A A'.
    Hypothesis Hne : lanes_nonempty A axis.
    Let Hloc := dm_loc memo Hm a b Ha A A' axis H Hne.
    Let Hdev := dm_absdiff memo Hm a b Ha A A' axis H Hne.

    Lemma rel_mid ML ML' MR MR' : rel_of (scale c) ML ML' -> rel_of (scale c) MR MR' ->
      rel_of (scale c) (memo (np_mul (scalar (qdec 5 1)) (np_add ML MR))) (memo (np_mul (scalar (qdec 5 1)) (np_add ML' MR'))).
    Proof. intros HL HR. apply rel_memo; [exact Hm|].
      eapply (rel_map2 Qcmult (fun x => x) (scale c) (scale c)); [intros; unfold scale; ring|apply rel_scalar_id|].
      eapply (rel_map2 Qcplus (scale c) (scale c) (scale c)); [intros; unfold scale; ring|exact HL|exact HR]. Qed.

    Theorem scale_doublemad_equivariant :
      rel_of (scale c) (scale_doublemad np_sqrt np_pi memo A axis) (scale_doublemad np_sqrt np_pi memo A' axis).
    Proof. rewrite !scale_doublemad_unfold. cbv zeta. unfold dm_final. cbv zeta.
      destruct (Qclt_le_dec (Q2Qc 0) a) as [Hp|Hn0].
      - (* a > 0 *)
        pose proof (affine_increasing a b Hp) as Hinc.
        assert (HL : rel_of (scale c) (dm_side np_sqrt np_pi memo axis (np_le A (memo (np_reduce median1 A axis true))) (np_abs (memo (np_sub A (memo (np_reduce median1 A axis true))))))
                                     (dm_side np_sqrt np_pi memo axis (np_le A' (memo (np_reduce median1 A' axis true))) (np_abs (memo (np_sub A' (memo (np_reduce median1 A' axis true))))))).
        { apply (dm_side_rel np_sqrt np_pi memo Hm a Ha); [|exact Hdev].
          apply (dm_mask_pos memo Hm a b Ha A A' axis H Hne Qcleb Hp). intros x y. now rewrite Hinc. }
        assert (HR : rel_of (scale c) (dm_side np_sqrt np_pi memo axis (np_ge A (memo (np_reduce median1 A axis true))) (np_abs (memo (np_sub A (memo (np_reduce median1 A axis true))))))
                                     (dm_side np_sqrt np_pi memo axis (np_ge A' (memo (np_reduce median1 A' axis true))) (np_abs (memo (np_sub A' (memo (np_reduce median1 A' axis true))))))).
        { apply (dm_side_rel np_sqrt np_pi memo Hm a Ha); [|exact Hdev].
          apply (dm_mask_pos memo Hm a b Ha A A' axis H Hne (fun x y => Qcleb y x) Hp). intros x y. now rewrite Hinc. }
        eapply (rel_map3 _ (fun x => x) (scale c) (scale c) (scale c)); [intros; apply where_scale| |exact HL|].
        + apply (dm_mask_pos memo Hm a b Ha A A' axis H Hne Qcltb Hp). intros x y. rewrite !Qcltb_alt. now rewrite Hinc.
        + eapply (rel_map3 _ (fun x => x) (scale c) (scale c) (scale c)); [intros; apply where_scale| |exact HR|now apply rel_mid].
          apply (dm_mask_pos memo Hm a b Ha A A' axis H Hne (fun x y => Qcltb y x) Hp). intros x y. rewrite !Qcltb_alt. now rewrite Hinc.
      - (* a < 0: the two sides are exchanged, the middle value is symmetric *)
        assert (Hn : (a < Q2Qc 0)%Qc) by (destruct (Qcle_lt_or_eq _ _ Hn0) as [L|E]; [exact L|congruence]).
        pose proof (fun x y => affine_decreasing a b x y Hn) as Hdec.
        assert (HL : rel_of (scale c) (dm_side np_sqrt np_pi memo axis (np_ge A (memo (np_reduce median1 A axis true))) (np_abs (memo (np_sub A (memo (np_reduce median1 A axis true))))))
                                     (dm_side np_sqrt np_pi memo axis (np_le A' (memo (np_reduce median1 A' axis true))) (np_abs (memo (np_sub A' (memo (np_reduce median1 A' axis true))))))).
        { apply (dm_side_rel np_sqrt np_pi memo Hm a Ha); [|exact Hdev].
          apply (dm_mask_neg memo Hm a b Ha A A' axis H Hne (fun x y => Qcleb y x) Qcleb). intros x y. now rewrite Hdec. }
        assert (HR : rel_of (scale c) (dm_side np_sqrt np_pi memo axis (np_le A (memo (np_reduce median1 A axis true))) (np_abs (memo (np_sub A (memo (np_reduce median1 A axis true))))))
                                     (dm_side np_sqrt np_pi memo axis (np_ge A' (memo (np_reduce median1 A' axis true))) (np_abs (memo (np_sub A' (memo (np_reduce median1 A' axis true))))))).
        { apply (dm_side_rel np_sqrt np_pi memo Hm a Ha); [|exact Hdev].
          apply (dm_mask_neg memo Hm a b Ha A A' axis H Hne Qcleb (fun x y => Qcleb y x)). intros x y. now rewrite Hdec. }
        pose proof (rel_mid _ _ _ _ HR HL) as HMid.
        set (ML := dm_side np_sqrt np_pi memo axis (np_le A _) _) in *. set (MR := dm_side np_sqrt np_pi memo axis (np_ge A _) _) in *.
        set (ML' := dm_side np_sqrt np_pi memo axis (np_le A' _) _) in *. set (MR' := dm_side np_sqrt np_pi memo axis (np_ge A' _) _) in *.
        (* mid' = c * mid up to the order of the two summands *)
        assert (HMid2 : rel_of (scale c) (memo (np_mul (scalar (qdec 5 1)) (np_add ML MR))) (memo (np_mul (scalar (qdec 5 1)) (np_add ML' MR')))).
        { destruct HMid as [S1 G1]. destruct HL as [HLs HLg]. destruct HR as [HRs HRg].
          split.
          - rewrite !(memo_shape memo Hm) in *. cbn [shape np_mul nd_map2 np_add scalar] in *. now rewrite HLs, HRs.
          - intro idx. rewrite !(memo_get memo Hm). cbn [get shape np_mul nd_map2 np_add scalar]. rewrite HLs, HRs, HLg, HRg.
            unfold scale. ring. }
        clear HMid.
        destruct H as [Hs Hg]. destruct Hloc as [Hls Hlg]. destruct HL as [HLs HLg]. destruct HR as [HRs HRg]. destruct HMid2 as [HMs HMg].
        split.
        + cbn [shape np_where nd_map3 np_lt np_gt nd_map2]. now rewrite Hs, Hls, HLs, HRs, HMs.
        + intro idx. cbn [get shape np_where nd_map3 np_lt np_gt nd_map2]. rewrite Hs, Hls, HLs, HRs, HMs, !Hg, !Hlg, HLg, HRg, HMg.
          rewrite !Qcltb_alt. rewrite !Hdec. rewrite !qtrue_qbool.
          set (s1 := bshape (bshape (bshape (shape A) _) _) _).
          set (x1 := get A _). set (m1 := get (memo (np_reduce median1 A axis true)) _).
          set (x2 := get A _). set (m2 := get (memo (np_reduce median1 A axis true)) _).
          admit.
  Abort.
  End DM.
End Equiv.
