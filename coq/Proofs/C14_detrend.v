(** C14, linear detrending: kernels.detrend_1d, translated to exact rationals by tools/py2coq/gen_c14.py
    (Gen/C14_stats.v, regenerated on every run), returns the least-squares residual of a straight-line fit:
    it is the input minus a straight line, it satisfies both normal equations, and no other straight line leaves a
    smaller sum of squares.  For every length >= 1. *)
From Coq Require Import ZArith QArith Qfield List Lia.
Require Import SPP.Base.Rt SPP.Gen.C14_stats SPP.Model.C14_filters SPP.Proofs.C14_qsums.
Open Scope Q_scope.

(** * kernels.detrend_1d *)
Lemma detrend_size1 arr k : detrend_1d_run 1 arr k == 0.
Proof. reflexivity. Qed.

(** first normal equation: the residuals sum to zero *)
Lemma detrend_sum_zero m arr : (2 <= m)%Z -> sumQ (Z.to_nat m) (detrend_1d_run m arr) == 0.
Proof. intros Hm. destruct (size_factors m Hm) as (H0 & H1 & H2).
  unfold detrend_1d_run. cbv zeta. destruct (Z.eqb_spec m 1) as [->|_]; [lia|].
  rewrite iter_two_sums. rewrite sumQ_resid. rewrite !sumQ_from_eq, sumQ_idx. rewrite Z2Nat.id by lia.
  set (M := inject_Z m) in *.
  match goal with |- context [sumQ ?n (fun i => inject_Z i * @?D i)] => set (XY := sumQ n (fun i => inject_Z i * D i)) end.
  match goal with |- context [sumQ ?n ?D] => set (Y := sumQ n D) end.
  field. nz_side H0 H1 H2. Qed.

(** second normal equation: the residuals are orthogonal to the sample index *)
Lemma detrend_moment_zero m arr : (2 <= m)%Z ->
  sumQ (Z.to_nat m) (fun i => inject_Z i * detrend_1d_run m arr i) == 0.
Proof. intros Hm. destruct (size_factors m Hm) as (H0 & H1 & H2).
  unfold detrend_1d_run. cbv zeta. destruct (Z.eqb_spec m 1) as [->|_]; [lia|].
  rewrite iter_two_sums. rewrite sumQ_resid_w. rewrite !sumQ_from_eq, sumQ_idx, sumQ_sq. rewrite Z2Nat.id by lia.
  set (M := inject_Z m) in *.
  match goal with |- context [sumQ ?n (fun i => inject_Z i * @?D i)] => set (XY := sumQ n (fun i => inject_Z i * D i)) end.
  match goal with |- context [sumQ ?n ?D] => set (Y := sumQ n D) end.
  field. nz_side H0 H1 H2. Qed.

(** the output is the input minus a straight line *)
Lemma detrend_is_line_residual m arr : (1 <= m)%Z ->
  exists s c, forall k, (0 <= k < m)%Z -> detrend_1d_run m arr k == arr k - (s * inject_Z k + c).
Proof. intro Hm. destruct (Z.eq_dec m 1) as [->|Hne].
  - exists 0, (arr 0%Z). intros k Hk. assert (k = 0%Z) as -> by lia. rewrite detrend_size1. ring.
  - unfold detrend_1d_run. cbv zeta. destruct (Z.eqb_spec m 1) as [->|_]; [lia|].
    rewrite iter_two_sums. eexists. eexists. intros k _.
    match goal with |- ?d - ?t == _ => setoid_replace d with (arr k) by ring end. reflexivity. Qed.

Lemma detrend_normal_equations m arr : (1 <= m)%Z ->
  sumQ (Z.to_nat m) (detrend_1d_run m arr) == 0 /\
  sumQ (Z.to_nat m) (fun i => inject_Z i * detrend_1d_run m arr i) == 0.
Proof. intro Hm. destruct (Z.eq_dec m 1) as [->|Hne].
  - split; apply sumQ_zero; intros i _; rewrite detrend_size1; ring.
  - split; [apply detrend_sum_zero | apply detrend_moment_zero]; lia. Qed.

(** * Least squares: no straight line leaves a smaller sum of squares *)
Lemma detrend_least_squares m arr a b : (1 <= m)%Z ->
  sumQ (Z.to_nat m) (fun k => detrend_1d_run m arr k * detrend_1d_run m arr k) <=
  sumQ (Z.to_nat m) (fun k => (arr k - (a * inject_Z k + b)) * (arr k - (a * inject_Z k + b))).
Proof. intro Hm. destruct (detrend_is_line_residual m arr Hm) as (s & c & Hr).
  destruct (detrend_normal_equations m arr Hm) as [E1 E2].
  set (r := detrend_1d_run m arr) in *.
  rewrite (sumQ_ext _ (fun k => (arr k - (a * inject_Z k + b)) * (arr k - (a * inject_Z k + b)))
                      (fun k => (r k + ((s - a) * inject_Z k + (c - b))) * (r k + ((s - a) * inject_Z k + (c - b))))).
  - rewrite sumQ_expand, E1, E2.
    setoid_replace (sumQ (Z.to_nat m) (fun k => r k * r k)) with (sumQ (Z.to_nat m) (fun k => r k * r k) + 0) at 1 by ring.
    match goal with |- _ <= ?A + ?x * 0 + ?y * 0 + ?B => setoid_replace (A + x * 0 + y * 0 + B) with (A + B) by ring end.
    apply Qplus_le_compat; [apply Qle_refl | apply sumQ_sq_nonneg].
  - intros k Hk. rewrite Z2Nat.id in Hk by lia. rewrite (Hr k Hk). ring. Qed.
