(** C18: PSRFITS reads are position independent.  Lemmas about Model/C18_PFits.v over Gen/C18Pfits.v
    (regenerated from readers.py, io/pfits.py, header.py) and Gen/Plan.v (pfits_plan). *)
From Coq Require Import ZArith List Bool Lia ZifyBool.
Require Import SPP.Base.Rt SPP.Base.Iter SPP.Gen.Plan SPP.Gen.C18Pfits SPP.Model.Stream SPP.Model.Plan SPP.Model.C18_PFits
               SPP.Proofs.C02_stream SPP.Proofs.C01_plan.
Import ListNotations.
Open Scope Z_scope.
Ltac Zify.zify_post_hook ::= Z.to_euclidean_division_equations.

(** * lists of rows *)
Lemma lenr_app {A} (a b : list A) : lenr (a ++ b) = lenr a + lenr b.
Proof. unfold lenr. rewrite app_length. lia. Qed.
Lemma lenr_nonneg {A} (l : list A) : 0 <= lenr l.
Proof. unfold lenr. lia. Qed.
Lemma lenr_map {A B} (f : A -> B) l : lenr (map f l) = lenr l.
Proof. unfold lenr. rewrite map_length. reflexivity. Qed.
Lemma lenr_zrange n : 0 <= n -> lenr (zrange n) = n.
Proof. intro. unfold lenr. rewrite zrange_length. lia. Qed.

Lemma pyslice_map {A B} (g : A -> B) l lo hi : pyslice (map g l) lo hi = map g (pyslice l lo hi).
Proof. unfold pyslice. rewrite skipn_map, firstn_map. reflexivity. Qed.

Lemma pyslice_len {A} (l : list A) lo hi : 0 <= lo <= hi -> hi <= lenr l -> lenr (pyslice l lo hi) = hi - lo.
Proof. intros H1 H2. unfold pyslice, lenr in *. rewrite firstn_length, skipn_length. lia. Qed.

Lemma pyslice_len_le {A} (l : list A) lo hi : lenr (pyslice l lo hi) <= lenr l - lo \/ lenr (pyslice l lo hi) = 0.
Proof. unfold pyslice, lenr. rewrite firstn_length, skipn_length. lia. Qed.

Lemma pyslice_app_l {A} (l1 l2 : list A) lo hi : 0 <= lo -> hi <= lenr l1 -> pyslice (l1 ++ l2) lo hi = pyslice l1 lo hi.
Proof. intros H1 H2. unfold pyslice, lenr in *.
  destruct (Z_le_gt_dec hi lo) as [Hle|Hgt].
  - replace (Z.to_nat (hi - lo)) with 0%nat by lia. reflexivity.
  - rewrite skipn_app. rewrite firstn_app. rewrite skipn_length.
    replace (Z.to_nat (hi - lo) - (length l1 - Z.to_nat lo))%nat with 0%nat by lia. cbn. rewrite app_nil_r. reflexivity. Qed.

Lemma pyslice_app_r {A} (l1 l2 : list A) lo hi : lenr l1 <= lo -> pyslice (l1 ++ l2) lo hi = pyslice l2 (lo - lenr l1) (hi - lenr l1).
Proof. intro H. unfold pyslice, lenr in *. rewrite skipn_app.
  rewrite (skipn_all2 l1) by lia. cbn [app].
  replace (hi - Z.of_nat (length l1) - (lo - Z.of_nat (length l1))) with (hi - lo) by lia.
  f_equal. f_equal. lia. Qed.

Lemma pyslice_pyslice {A} (l : list A) a b lo hi : 0 <= a -> 0 <= lo -> a + hi <= b ->
  pyslice (pyslice l a b) lo hi = pyslice l (a + lo) (a + hi).
Proof. intros Ha Hlo Hb. unfold pyslice.
  destruct (Z_le_gt_dec hi lo) as [Hle|Hgt].
  - replace (Z.to_nat (hi - lo)) with 0%nat by lia. replace (Z.to_nat (a + hi - (a + lo))) with 0%nat by lia. reflexivity.
  - rewrite skipn_firstn_comm. rewrite firstn_firstn. rewrite C02_stream.skipn_skipn.
    f_equal; [lia|]. f_equal. lia. Qed.

Lemma pyslice_all {A} (l : list A) n : lenr l <= n -> pyslice l 0 n = l.
Proof. intro H. unfold pyslice, lenr in *. cbn [Z.to_nat skipn]. apply firstn_all2. lia. Qed.

(** concatenation of equally long pieces *)
Lemma lenr_concat_uniform {A B} (f : A -> list B) b l : (forall x, In x l -> lenr (f x) = b) -> lenr (concat (map f l)) = lenr l * b.
Proof. induction l as [|x l IH]; intro H; cbn [map concat]; [reflexivity|].
  rewrite lenr_app, IH, H by (try (left; reflexivity); intros; apply H; right; assumption). unfold lenr. cbn [length]. lia. Qed.

Lemma seq_shift_Z k : forall o a, map Z.of_nat (seq (a + o) k) = map (fun i => Z.of_nat a + i) (map Z.of_nat (seq o k)).
Proof. induction k as [|k IH]; intros o a; cbn [seq map]; [reflexivity|]. f_equal; [lia|].
  replace (S (a + o)) with (a + S o)%nat by lia. apply IH. Qed.

Lemma zrange_app a k : 0 <= a -> 0 <= k -> zrange (a + k) = zrange a ++ map (fun i => a + i) (zrange k).
Proof. intros Ha Hk. unfold zrange. replace (Z.to_nat (a + k)) with (Z.to_nat a + Z.to_nat k)%nat by lia.
  rewrite seq_app, map_app. f_equal. cbn [Nat.add].
  rewrite <- (Nat.add_0_r (Z.to_nat a)). rewrite seq_shift_Z. apply map_ext. intro; lia. Qed.

(** rows [a, a+k) of a table of N pieces of b rows each, sliced at [lo, hi) = the whole table sliced at a*b+lo *)
Lemma pyslice_concat_range {B} (f : Z -> list B) b N a k lo hi :
  (forall i, 0 <= i < N -> lenr (f i) = b) -> 0 <= b -> 0 <= a -> 0 <= k -> a + k <= N -> 0 <= lo -> hi <= k * b ->
  pyslice (concat (map f (map (fun i => a + i) (zrange k)))) lo hi = pyslice (concat (map f (zrange N))) (a * b + lo) (a * b + hi).
Proof. intros Hf Hb Ha Hk HN Hlo Hhi.
  replace N with (a + (k + (N - a - k))) by lia.
  rewrite (zrange_app a) by lia. rewrite (zrange_app k) by lia.
  rewrite !map_app, !concat_app.
  assert (L1 : lenr (concat (map f (zrange a))) = a * b).
  { rewrite (lenr_concat_uniform f b); [rewrite lenr_zrange; lia|]. intros x Hx. apply In_zrange in Hx. apply Hf. lia. }
  assert (L2 : lenr (concat (map f (map (fun i => a + i) (zrange k)))) = k * b).
  { rewrite (lenr_concat_uniform f b); [rewrite lenr_map, lenr_zrange; lia|].
    intros x Hx. apply in_map_iff in Hx as [i [<- Hi]]. apply In_zrange in Hi. apply Hf. lia. }
  rewrite pyslice_app_r by lia. rewrite L1.
  replace (a * b + lo - a * b) with lo by lia. replace (a * b + hi - a * b) with hi by lia.
  rewrite pyslice_app_l by lia. reflexivity. Qed.

(** * a readable file *)
Record wf (F : pfile) : Prop := {
  wf_nsub : 1 <= p_nsub F; wf_nsblk : 1 <= p_nsblk F; wf_nchan : 1 <= p_nchan F;
  wf_nstot : 1 <= p_nstot F <= p_nsub F * p_nsblk F;
  wf_status : file_status F = None       (* the layout is one the reader can read at all *)
}.

Lemma sub_rows_len F i : 0 <= p_nsblk F -> lenr (sub_rows F i) = p_nsblk F.
Proof. intro. unfold sub_rows. rewrite lenr_map, lenr_zrange; lia. Qed.

Lemma all_rows_len F : 0 <= p_nsblk F -> 0 <= p_nsub F -> lenr (all_rows F) = p_nsub F * p_nsblk F.
Proof. intros. unfold all_rows. rewrite lenr_map.
  rewrite (lenr_concat_uniform (sub_rows F) (p_nsblk F)); [rewrite lenr_zrange; lia|]. intros; apply sub_rows_len; lia. Qed.

Lemma first_err_none l : (forall x, In x l -> x = None) -> first_err l = None.
Proof. induction l as [|x l IH]; intro H; cbn; [reflexivity|]. rewrite (H x) by (left; reflexivity). apply IH. intros; apply H; right; assumption. Qed.

Lemma rs_rows_eq a k : rs_rows a k = map (fun i => a + i) (zrange k).
Proof. unfold rs_rows. replace (a + k - a) with k by lia. reflexivity. Qed.

Lemma read_subints_ok F a k : file_status F = None -> 0 <= a -> 1 <= k -> a + k <= p_nsub F ->
  read_subints F a k = ROk (map (flip_row F) (concat (map (sub_rows F) (map (fun i => a + i) (zrange k))))).
Proof. intros Hs Ha Hk Hn. unfold read_subints. rewrite rs_rows_eq.
  rewrite first_err_none.
  - destruct (map (fun i => a + i) (zrange k)) eqn:E; [|reflexivity].
    apply (f_equal (@length Z)) in E. rewrite map_length, zrange_length in E. cbn in E. lia.
  - intros x Hx. apply in_map_iff in Hx as [i [<- Hi]]. apply in_map_iff in Hi as [j [<- Hj]]. apply In_zrange in Hj.
    unfold row_status. replace ((0 <=? a + j) && (a + j <? p_nsub F)) with true by lia. exact Hs. Qed.

(** rows [a, a+k) sliced at [lo,hi) are the file's rows sliced at a*NSBLK + lo *)
Lemma read_subints_slice F a k lo hi : wf F -> 0 <= a -> 1 <= k -> a + k <= p_nsub F -> 0 <= lo -> hi <= k * p_nsblk F ->
  exists d, read_subints F a k = ROk d /\ pyslice d lo hi = pyslice (all_rows F) (a * p_nsblk F + lo) (a * p_nsblk F + hi).
Proof. intros W Ha Hk Hn Hlo Hhi. destruct W. eexists. split; [apply read_subints_ok; assumption|].
  unfold all_rows. rewrite !pyslice_map. f_equal.
  apply pyslice_concat_range with (N := p_nsub F); try lia. intros; apply sub_rows_len; lia. Qed.

(** * read_block *)
(** the computed sub-integrations cover the request *)
Definition rb_cov (nsub nsblk start nsamps : Z) : Prop :=
  let '(a, k, lo, hi, rows) := rb_sub start nsamps nsblk in
  0 <= a /\ 1 <= k /\ a + k <= nsub /\ 0 <= lo /\ a * nsblk + lo = start /\ hi = lo + nsamps /\ hi <= k * nsblk /\ rows = nsamps.

Definition in_range (F : pfile) (start nsamps : Z) : Prop := 0 <= start /\ 1 <= nsamps /\ start + nsamps <= p_nstot F.

Lemma rb_reject_false F start nsamps : in_range F start nsamps -> rb_reject start nsamps (p_nstot F) = false.
Proof. unfold in_range, rb_reject. lia. Qed.

Lemma read_block_covered F start nsamps : wf F -> in_range F start nsamps -> rb_cov (p_nsub F) (p_nsblk F) start nsamps ->
  read_block F start nsamps = ROk (pyslice (all_rows F) start (start + nsamps)).
Proof. intros W R C. unfold read_block. rewrite rb_reject_false by assumption.
  unfold rb_cov in C. destruct (rb_sub start nsamps (p_nsblk F)) as [[[[a k] lo] hi] rows].
  destruct C as (Ha & Hk & Hn & Hlo & Hs & Hhi & Hc & Hr).
  destruct (read_subints_slice F a k lo hi W Ha Hk Hn Hlo Hc) as [d [-> E]].
  rewrite E. replace (a * p_nsblk F + lo) with start by lia. replace (a * p_nsblk F + hi) with (start + nsamps) by lia.
  destruct W, R as (R1 & R2 & R3).
  rewrite pyslice_len by (try rewrite all_rows_len; lia).
  replace (start + nsamps - start =? rows) with true by lia. reflexivity. Qed.

(** the whole-file read is covered by the regenerated arithmetic (start = 0 is aligned) *)
Lemma rb_cov_aligned nsub nsblk start nsamps : 1 <= nsblk -> 0 <= start -> 1 <= nsamps -> start + nsamps <= nsub * nsblk ->
  start mod nsblk = 0 -> rb_cov nsub nsblk start nsamps.
Proof. intros. unfold rb_cov, rb_sub, py_divmod. cbv zeta. repeat split; try lia; try nia. Qed.

Lemma whole_spec F : wf F -> whole F = ROk (pyslice (all_rows F) 0 (p_nstot F)).
Proof. intro W. unfold whole. pose proof W as [? ? ? ? ?].
  rewrite (read_block_covered F 0 (p_nstot F) W); [reflexivity|unfold in_range; lia|].
  apply rb_cov_aligned; try lia. apply Z.mod_0_l. lia. Qed.

Lemma whole_len F : wf F -> lenr (pyslice (all_rows F) 0 (p_nstot F)) = p_nstot F.
Proof. intros [? ? ? ? ?]. rewrite pyslice_len; try rewrite all_rows_len; lia. Qed.

(** a covered request returns the corresponding columns of the whole-file read *)
Lemma read_block_covered_whole F start nsamps : wf F -> in_range F start nsamps -> rb_cov (p_nsub F) (p_nsblk F) start nsamps ->
  exists w, whole F = ROk w /\ read_block F start nsamps = ROk (pyslice w start (start + nsamps)).
Proof. intros W R C. exists (pyslice (all_rows F) 0 (p_nstot F)). split; [apply whole_spec; assumption|].
  rewrite read_block_covered by assumption. destruct R as (R1 & R2 & R3).
  rewrite pyslice_pyslice by lia. reflexivity. Qed.

Lemma read_block_aligned F start nsamps : wf F -> in_range F start nsamps -> start mod p_nsblk F = 0 ->
  exists w, whole F = ROk w /\ read_block F start nsamps = ROk (pyslice w start (start + nsamps)).
Proof. intros W R A. apply read_block_covered_whole; try assumption. destruct W, R as (? & ? & ?).
  apply rb_cov_aligned; try lia; nia. Qed.

(** the property for read_block, and its negation on a concrete file *)
Definition RBSpec : Prop := forall F start nsamps, wf F -> in_range F start nsamps ->
  exists w, whole F = ROk w /\ read_block F start nsamps = ROk (pyslice w start (start + nsamps)).
Definition RBRefuted : Prop := exists F start nsamps, wf F /\ in_range F start nsamps /\
  exists w, whole F = ROk w /\ read_block F start nsamps <> ROk (pyslice w start (start + nsamps)).

Lemma rb_refuted_not_spec : RBRefuted -> ~ RBSpec.
Proof. intros (F & s & n & W & R & w & Hw & Hn) S. destruct (S F s n W R) as (w' & Hw' & Hb).
  rewrite Hw in Hw'. injection Hw' as <-. contradiction. Qed.

(** a two-row Stokes file with 2 samples x 4 polarisations x 2 channels per row (readable under either treatment of unit axes) *)
Definition wit_file : pfile :=
  mkpf 2 2 4 2 4 8 1 (-1) 0 1 (fun i t p c => 10 * (2 * i + t) + c + 100 * p) (fun _ _ => 1) (fun _ _ => 0) (fun _ _ => 1).
Lemma wit_wf : wf wit_file.
Proof. constructor; cbn; try lia. vm_compute. destruct keeps_unit_axes; reflexivity. Qed.

Ltac rb_all_covered :=
  intros F start nsamps W R; apply read_block_covered_whole; try assumption;
  destruct W, R as (? & ? & ?); unfold rb_cov, rb_sub, py_divmod; cbv zeta; repeat split; try lia; try nia.
Ltac rb_witness s n :=
  exists wit_file, s, n; split; [exact wit_wf|]; split; [unfold in_range; cbn; lia|];
  eexists; split; [rewrite whole_spec by exact wit_wf; reflexivity|]; vm_compute; discriminate.

(** which of the two holds for the arithmetic read from the source today; the flag is computed by the proof search:
    first the universal statement (linear arithmetic with div/mod), else one of the witnesses *)
Definition rb_decision : { b : bool & if b then RBSpec else RBRefuted }.
Proof. first [ exists true; cbv iota; unfold RBSpec; solve [rb_all_covered]
             | exists false; cbv iota; unfold RBRefuted; first [ solve [rb_witness 1 2] | solve [rb_witness 1 1] | solve [rb_witness 0 3] | solve [rb_witness 2 2] ] ]. Defined.
Definition rb_sound : bool := projT1 rb_decision.
Lemma rb_verdict : if rb_sound then RBSpec else RBRefuted.
Proof. exact (projT2 rb_decision). Qed.

(** * the element formula and the channel order *)
Lemma pyslice_zrange_one n i : 0 <= i < n -> pyslice (zrange n) i (i + 1) = [i].
Proof. intro H. replace n with (i + (1 + (n - i - 1))) by lia. rewrite zrange_app by lia.
  rewrite pyslice_app_r by (rewrite lenr_zrange; lia). rewrite lenr_zrange by lia.
  replace (i - i) with 0 by lia. replace (i + 1 - i) with 1 by lia.
  rewrite zrange_app by lia. rewrite map_app. rewrite pyslice_app_l; [|lia|rewrite lenr_map, lenr_zrange; lia].
  change (zrange 1) with [0]. cbn [map]. replace (i + 0) with i by lia. reflexivity. Qed.

Lemma row_at F t : wf F -> 0 <= t < p_nsub F * p_nsblk F ->
  pyslice (all_rows F) t (t + 1) =
    [flip_row F (map (fun c => pol_elem F (t / p_nsblk F) (t mod p_nsblk F) c) (zrange (p_nchan F)))].
Proof. intros [? ? ? ? ?] Ht. set (b := p_nsblk F) in *. set (a := t / b). set (lo := t mod b).
  assert (Hd : t = a * b + lo /\ 0 <= lo < b /\ 0 <= a < p_nsub F) by (unfold a, lo; nia).
  destruct Hd as (Ht' & Hlo & Ha). unfold all_rows. rewrite pyslice_map.
  replace t with (a * b + lo) at 1 2 by lia. replace (a * b + lo + 1) with (a * b + (lo + 1)) by lia.
  rewrite <- (pyslice_concat_range (sub_rows F) b (p_nsub F) a 1 lo (lo + 1)); try lia.
  2:{ intros; apply sub_rows_len; fold b; lia. }
  change (zrange 1) with [0]. cbn [map concat]. rewrite app_nil_r. replace (a + 0) with a by lia.
  unfold sub_rows. fold b. rewrite pyslice_map, pyslice_zrange_one by lia. reflexivity. Qed.

Lemma nth_map_zrange (g : Z -> Z) n c : 0 <= c < n -> nth (Z.to_nat c) (map g (zrange n)) 0 = g c.
Proof. intro H. unfold zrange. rewrite map_map.
  rewrite (nth_indep _ 0 ((fun i => g (Z.of_nat i)) 0%nat)) by (rewrite map_length, seq_length; lia).
  rewrite (map_nth (fun i => g (Z.of_nat i))). rewrite seq_nth by lia. f_equal. lia. Qed.

Lemma flip_row_nth F r c : lenr r = p_nchan F -> 0 <= c < p_nchan F ->
  nth (Z.to_nat c) (flip_row F r) 0 = nth (Z.to_nat (chan_src (p_df F) (p_nchan F) c)) r 0.
Proof. intros Hl Hc. unfold flip_row, chan_src, lenr in *. destruct (rs_flip (p_df F)); [|reflexivity].
  rewrite rev_nth by lia. f_equal. lia. Qed.

Lemma chan_src_range df n c : 0 <= c < n -> 0 <= chan_src df n c < n.
Proof. unfold chan_src. destruct (rs_flip df); lia. Qed.

(** sample t (row t / NSBLK, position t mod NSBLK), delivered channel c *)
Lemma element F t c : wf F -> 0 <= t < p_nsub F * p_nsblk F -> 0 <= c < p_nchan F ->
  exists r, pyslice (all_rows F) t (t + 1) = [r] /\ lenr r = p_nchan F /\
    nth (Z.to_nat c) r 0 = pol_elem F (t / p_nsblk F) (t mod p_nsblk F) (chan_src (p_df F) (p_nchan F) c).
Proof. intros W Ht Hc. eexists. split; [apply row_at; assumption|]. destruct W.
  assert (L : lenr (map (fun c0 => pol_elem F (t / p_nsblk F) (t mod p_nsblk F) c0) (zrange (p_nchan F))) = p_nchan F)
    by (rewrite lenr_map, lenr_zrange; lia).
  split.
  - unfold flip_row. destruct (rs_flip (p_df F)); [unfold lenr in *; rewrite rev_length|]; exact L.
  - rewrite flip_row_nth by assumption. apply nth_map_zrange. apply chan_src_range; assumption. Qed.

Lemma sub_value_order raw z s o w : sub_value raw z s o w = ((raw - z) * s + o) * w.
Proof. reflexivity. Qed.
Lemma pol_value_spec csc v :
  pol_value 0 csc v = Some ((v 0 + v 1) * csc) /\ pol_value 1 csc v = Some (v 0) /\ pol_value 2 csc v = Some (v 0) /\
  (pol_value 3 csc v = None \/ pol_value 3 csc v = Some ((v 0 + v 1) * csc)).
Proof. unfold pol_value. cbn. repeat split; try reflexivity; try (f_equal; ring).
  first [left; reflexivity | right; f_equal; ring]. Qed.

(** delivered channels are in descending-frequency order whatever the order in the file *)
Lemma data_descending f0 df nchan c : df <> 0 -> 0 <= c -> c + 1 < nchan ->
  data_freq f0 df nchan (c + 1) < data_freq f0 df nchan c.
Proof. intros. unfold data_freq, chan_src, rs_flip. destruct (df >? 0) eqn:E; nia. Qed.

(** the header's labels: fch1 + c * foff against the frequency of delivered channel c *)
Definition LabelSpec : Prop := forall f0 df nchan c, df <> 0 -> 0 <= c < nchan -> label_freq f0 df nchan c = data_freq f0 df nchan c.
Definition LabelRefuted : Prop := exists f0 df nchan c, df <> 0 /\ 0 <= c < nchan /\ label_freq f0 df nchan c <> data_freq f0 df nchan c.
Lemma label_refuted_not_spec : LabelRefuted -> ~ LabelSpec.
Proof. intros (f0 & df & n & c & H1 & H2 & H3) S. apply H3. apply S; assumption. Qed.
Definition label_decision : { b : bool & if b then LabelSpec else LabelRefuted }.
Proof. first [ exists true; cbv iota; unfold LabelSpec, label_freq, data_freq, chan_src, hdr_fch1, hdr_foff, rs_flip; intros f0 df nchan c H1 H2;
               solve [ repeat match goal with |- context [if ?b then _ else _] => destruct b eqn:? end; nia ]
             | exists false; cbv iota; first [ exists 1400, 2, 3, 0; split; [lia|]; split; [lia|]; vm_compute; discriminate
                                              | exists 1400, (-2), 3, 1; split; [lia|]; split; [lia|]; vm_compute; discriminate
                                              | exists 1400, 2, 3, 1; split; [lia|]; split; [lia|]; vm_compute; discriminate ] ]. Defined.
Definition label_sound : bool := projT1 label_decision.
Lemma label_verdict : if label_sound then LabelSpec else LabelRefuted.
Proof. exact (projT2 label_decision). Qed.
(** for files whose channels descend the labels are right under either treatment *)
Lemma label_descending f0 df nchan c : df < 0 -> 0 <= c < nchan -> label_freq f0 df nchan c = data_freq f0 df nchan c.
Proof. intros. unfold label_freq, data_freq, chan_src, hdr_fch1, hdr_foff, rs_flip.
  repeat match goal with |- context [if ?b then _ else _] => destruct b eqn:? end; nia. Qed.

(** * read_plan *)
Definition mkfullp (g sb ii : Z) : Z * Z * Z := (ii, g, - sb).

(** what the proofs need of the regenerated plan arithmetic (as C01's plan_facts for FilReader) ... *)
Definition PlanArith : Prop := forall g0 start n s0, 1 <= g0 -> 1 <= n -> Z.abs s0 < Z.min n g0 ->
  exists g sb nreads lr,
    pfits_plan g0 start n s0 = Some (g, sb, map (mkfullp g sb) (zrange nreads) ++ (if lr =? 0 then [] else [(nreads, lr, 0)]))
    /\ plan_facts g0 n s0 g sb nreads lr.

(** ... and of the regenerated loop body: the rows read cover exactly the block, the block's own length is yielded
    and the next block begins block + skip further *)
Definition pl_cov (nsub nsblk start nsamps block skip : Z) : Prop :=
  let '(a, k, lo, hi, start', cnt) := pl_sub start nsamps block skip nsblk in
  0 <= a /\ 1 <= k /\ a + k <= nsub /\ 0 <= lo /\ a * nsblk + lo = start /\ hi = lo + block /\ hi <= k * nsblk /\
  start' = start + block + skip /\ cnt = block.
Definition BodyArith : Prop := forall nsub nsblk start nsamps block skip,
  1 <= nsblk -> 0 <= start -> 1 <= block -> block <= nsamps -> start + block <= nsub * nsblk -> pl_cov nsub nsblk start nsamps block skip.

(** the SIGPROC file holding the same samples as the whole-file read (time-major, channel fastest) *)
Definition sigproc_of (F : pfile) : list file := [mkfile [] (concat (pyslice (all_rows F) 0 (p_nstot F)))].

Lemma In_firstn_ {A} (x : A) : forall n l, In x (firstn n l) -> In x l.
Proof. induction n as [|n IH]; intros [|y l]; cbn; try tauto. intros [->|H]; [left; reflexivity|right; apply IH; assumption]. Qed.
Lemma In_skipn_ {A} (x : A) : forall n l, In x (skipn n l) -> In x l.
Proof. induction n as [|n IH]; intros [|y l]; cbn; try tauto. intro H. right. apply IH. assumption. Qed.
Lemma In_pyslice {A} (x : A) l lo hi : In x (pyslice l lo hi) -> In x l.
Proof. unfold pyslice. intro H. apply In_firstn_ in H. apply In_skipn_ in H. exact H. Qed.

Lemma all_rows_uniform F r : 0 <= p_nchan F -> In r (all_rows F) -> lenr r = p_nchan F.
Proof. intros Hc H. unfold all_rows in H. apply in_map_iff in H as [r0 [<- H]].
  apply in_concat in H as [rows [H1 H2]]. apply in_map_iff in H1 as [i [<- _]].
  unfold sub_rows in H2. apply in_map_iff in H2 as [t [<- _]].
  unfold flip_row. destruct (rs_flip (p_df F)); unfold lenr; [rewrite rev_length|]; rewrite map_length, zrange_length; lia. Qed.

Lemma skipn_concat_uniform {A} m (rows : list (list A)) : (forall r, In r rows -> length r = m) ->
  forall s, skipn (s * m) (concat rows) = concat (skipn s rows).
Proof. induction rows as [|r rows IH]; intros H s.
  - rewrite !skipn_nil. reflexivity.
  - destruct s as [|s]; [reflexivity|]. cbn [concat skipn].
    rewrite skipn_app. rewrite (H r) by (left; reflexivity).
    replace (S s * m - m)%nat with (s * m)%nat by lia. rewrite IH by (intros; apply H; right; assumption).
    rewrite skipn_all2 by (rewrite (H r) by (left; reflexivity); lia). reflexivity. Qed.
Lemma firstn_concat_uniform {A} m (rows : list (list A)) : (forall r, In r rows -> length r = m) ->
  forall n, firstn (n * m) (concat rows) = concat (firstn n rows).
Proof. induction rows as [|r rows IH]; intros H n.
  - rewrite !firstn_nil. reflexivity.
  - destruct n as [|n]; [reflexivity|]. cbn [concat firstn].
    rewrite firstn_app. rewrite (H r) by (left; reflexivity).
    replace (S n * m - m)%nat with (n * m)%nat by lia. rewrite IH by (intros; apply H; right; assumption).
    rewrite firstn_all2 by (rewrite (H r) by (left; reflexivity); lia). reflexivity. Qed.

Lemma slice_concat_rows (rows : list row) nch s n : (forall r, In r rows -> lenr r = nch) -> 0 <= nch -> 0 <= s -> 0 <= n ->
  slice (concat rows) (s * nch) (n * nch) = concat (pyslice rows s (s + n)).
Proof. intros H Hc Hs Hn. unfold slice, pyslice. replace (s + n - s) with n by lia.
  assert (H' : forall r, In r rows -> length r = Z.to_nat nch) by (intros r Hr; specialize (H r Hr); unfold lenr in H; lia).
  rewrite !Z2Nat.inj_mul by lia. rewrite skipn_concat_uniform by assumption.
  apply firstn_concat_uniform. intros r Hr. apply H'. apply In_skipn_ in Hr. exact Hr. Qed.

Lemma lenr_concat_rows (rows : list row) b : (forall r, In r rows -> lenr r = b) -> lenr (concat rows) = lenr rows * b.
Proof. intro H. rewrite <- (map_id rows) at 1. apply lenr_concat_uniform. exact H. Qed.

Lemma sigproc_total F : wf F -> total (sigproc_of F) = p_nstot F * p_nchan F.
Proof. intros W. pose proof W as [? ? ? ? ?]. replace (total (sigproc_of F)) with (lenr (concat (pyslice (all_rows F) 0 (p_nstot F))))
    by (unfold sigproc_of, total, datalen, lenr; cbn [map fold_right dat]; lia).
  rewrite (lenr_concat_rows _ (p_nchan F)); [rewrite whole_len by assumption; lia|].
  intros r Hr. apply In_pyslice in Hr. apply all_rows_uniform; [lia|assumption]. Qed.

Lemma sigproc_flat F : flat (sigproc_of F) = concat (pyslice (all_rows F) 0 (p_nstot F)).
Proof. unfold flat, sigproc_of. cbn [map concat dat]. apply app_nil_r. Qed.

(** samples [s, s+n) of the PSRFITS rows, ravelled, are elements [s*nchan, (s+n)*nchan) of the SIGPROC data *)
Lemma data_eq F s n : wf F -> 0 <= s -> 0 <= n -> s + n <= p_nstot F ->
  concat (pyslice (all_rows F) s (s + n)) = slice (flat (sigproc_of F)) (s * p_nchan F) (n * p_nchan F).
Proof. intros W Hs Hn Hr. pose proof W as [? ? ? ? ?]. rewrite sigproc_flat.
  rewrite slice_concat_rows; try lia.
  - rewrite pyslice_pyslice by lia. reflexivity.
  - intros r H. apply In_pyslice in H. apply all_rows_uniform; [lia|assumption]. Qed.

Section PLoop.
  Variables (F : pfile) (start nsamps g sb : Z).
  Hypotheses (HB : BodyArith) (W : wf F) (Hs0 : 0 <= start) (Hn : 1 <= nsamps) (Hr : start + nsamps <= p_nstot F) (Hsb : 0 <= sb < g).
  Let fs := sigproc_of F.
  Let nch := p_nchan F.

  Lemma pf_block i len skip r acc : 0 <= i -> 1 <= len -> i * (g - sb) + len <= nsamps ->
    pf_loop F nsamps ((i, len, skip) :: r) (start + i * (g - sb)) acc =
    pf_loop F nsamps r (start + i * (g - sb) + len + skip) (acc ++ [(len, i, slice (flat fs) (P nch start g sb i) (len * nch))]).
  Proof. intros Hi Hl Hfit. pose proof W as [? ? ? ? ?]. cbn [pf_loop].
    assert (Hnn : 0 <= i * (g - sb)) by nia.
    pose proof (HB (p_nsub F) (p_nsblk F) (start + i * (g - sb)) nsamps len skip ltac:(lia) ltac:(lia) ltac:(lia) ltac:(lia) ltac:(nia)) as C.
    unfold pl_cov in C. destruct (pl_sub (start + i * (g - sb)) nsamps len skip (p_nsblk F)) as [[[[[a k] lo] hi] start'] cnt].
    destruct C as (Ha & Hk & Hns & Hlo & Hst & Hhi & Hc & Hst' & Hcnt).
    destruct (read_subints_slice F a k lo hi W Ha Hk Hns Hlo Hc) as [d [-> E]]. rewrite E.
    replace (a * p_nsblk F + lo) with (start + i * (g - sb)) by lia.
    replace (a * p_nsblk F + hi) with (start + i * (g - sb) + len) by lia.
    rewrite (data_eq F (start + i * (g - sb)) len W) by lia.
    subst start' cnt. unfold P. fold nch. fold fs. reflexivity. Qed.

  Lemma pf_full_blocks r : forall k i0 acc, (k = 0%nat \/ (Z.of_nat i0 + Z.of_nat k - 1) * (g - sb) + g <= nsamps) ->
    pf_loop F nsamps (map (mkfullp g sb) (map Z.of_nat (seq i0 k)) ++ r) (start + Z.of_nat i0 * (g - sb)) acc =
    pf_loop F nsamps r (start + Z.of_nat (i0 + k) * (g - sb)) (acc ++ map (blk fs nch start g sb) (map Z.of_nat (seq i0 k))).
  Proof. induction k as [|k IH]; intros i0 acc Hfit.
    - cbn [seq map app]. rewrite app_nil_r, Nat.add_0_r. reflexivity.
    - destruct Hfit as [Hfit|Hfit]; [discriminate|]. cbn [seq map app]. unfold mkfullp at 1.
      rewrite pf_block by nia.
      replace (start + Z.of_nat i0 * (g - sb) + g + - sb) with (start + Z.of_nat (S i0) * (g - sb)) by nia.
      rewrite IH by (destruct k; [left; reflexivity|right; nia]).
      rewrite <- app_assoc. cbn [app]. replace (S i0 + k)%nat with (i0 + S k)%nat by lia. reflexivity. Qed.
End PLoop.

(** plan_facts determine the plan *)
Lemma plan_facts_unique g0 n s0 g sb nr lr g' sb' nr' lr' :
  plan_facts g0 n s0 g sb nr lr -> plan_facts g0 n s0 g' sb' nr' lr' -> g = g' /\ sb = sb' /\ nr = nr' /\ lr = lr'.
Proof. intros [A1 A2 A3 A4 A5 A6 A7] [B1 B2 B3 B4 B5 B6 B7]. subst g' sb'. subst g sb.
  set (g := Z.min n g0) in *. set (sb := Z.abs s0) in *.
  assert (E : nr = nr').
  { destruct (lr =? 0) eqn:E1, (lr' =? 0) eqn:E2; destruct A6 as [A6|A6], B6 as [B6|B6]; try lia; nia. }
  subst nr'. repeat split; try reflexivity.
  destruct (lr =? 0) eqn:E1, (lr' =? 0) eqn:E2; destruct A6 as [A6|A6], B6 as [B6|B6]; lia. Qed.

(** the trace of PFITSReader.read_plan is the trace FilReader.read_plan delivers on the SIGPROC file holding the same samples *)
Definition PlanSpec : Prop := forall F g0 start nsamps s0, wf F -> in_range F start nsamps -> 1 <= g0 -> Z.abs s0 < Z.min nsamps g0 ->
  exists bl, pf_run_plan F g0 start nsamps s0 = TOk bl /\ run_plan (sigproc_of F) (p_nchan F) g0 start nsamps s0 = POk bl.

Lemma plan_sound_cond : PlanArith -> BodyArith -> PlanSpec.
Proof. intros PA BA F g0 start nsamps s0 W (R1 & R2 & R3) Hg Hs. pose proof W as [? ? ? ? ?].
  pose proof (sigproc_total F W) as Ht.
  destruct (run_plan_explicit (sigproc_of F) (p_nchan F) (p_nstot F) g0 start nsamps s0) as (g' & sb' & nr' & lr' & F' & E'); try lia.
  { reflexivity. }
  destruct (PA g0 start nsamps s0 Hg R2 Hs) as (g & sb & nr & lr & E & Fa).
  destruct (plan_facts_unique _ _ _ _ _ _ _ _ _ _ _ Fa F') as (<- & <- & <- & <-).
  exists (plan_blocks (sigproc_of F) (p_nchan F) start g sb nr lr). split; [|exact E'].
  unfold pf_run_plan. rewrite E. destruct Fa as [Fg Fsb Fsblt Fnr Ffit Flast Fcov].
  unfold plan_blocks, zrange. set (k := Z.to_nat nr). assert (Hk : Z.of_nat k = nr) by lia.
  replace start with (start + Z.of_nat 0 * (g - sb)) at 1 by (cbn; lia).
  rewrite (pf_full_blocks F start nsamps g sb BA W R1 R2 R3 Fsblt) by (right; rewrite Hk; cbn; lia).
  cbn [app]. rewrite Nat.add_0_l, Hk.
  destruct (Z.eqb_spec lr 0) as [E0|NE].
  - cbn [pf_loop]. rewrite app_nil_r. reflexivity.
  - destruct Flast as [?|Flast]; [contradiction|].
    rewrite (pf_block F start nsamps g sb BA W R1 R2 R3 Fsblt) by (try lia; destruct (lr =? 0); nia).
    cbn [pf_loop]. reflexivity. Qed.

(** hence: the stitched blocks are exactly the requested samples, each once, in order (C01 for the SIGPROC path) *)
Lemma plan_spec_stitch : PlanSpec -> forall F g0 start nsamps s0, wf F -> in_range F start nsamps -> 1 <= g0 -> Z.abs s0 < Z.min nsamps g0 ->
  exists bl, pf_run_plan F g0 start nsamps s0 = TOk bl /\
    stitch (Z.abs s0 * p_nchan F) bl = concat (pyslice (all_rows F) start (start + nsamps)) /\
    Forall (block_ok (p_nchan F) g0) bl /\
    map (fun b => snd (fst b)) bl = zrange (len (map (fun _ => 0) bl)).
Proof. intros S F g0 start nsamps s0 W R Hg Hs. destruct (S F g0 start nsamps s0 W R Hg Hs) as (bl & E1 & E2).
  pose proof W as [? ? ? ? ?]. destruct R as (R1 & R2 & R3).
  destruct (plan_sound (sigproc_of F) (p_nchan F) (p_nstot F) g0 start nsamps s0) as (bl' & E3 & St & Bk & Ix); try lia.
  { reflexivity. } { apply sigproc_total; assumption. }
  rewrite E2 in E3. injection E3 as <-. exists bl. repeat split; try assumption.
  rewrite St. symmetry. apply data_eq; try assumption; lia. Qed.

Definition plan_good (F : pfile) (g0 start nsamps s0 : Z) : Prop :=
  exists bl, pf_run_plan F g0 start nsamps s0 = TOk bl /\
    stitch (Z.abs s0 * p_nchan F) bl = concat (pyslice (all_rows F) start (start + nsamps)) /\
    Forall (block_ok (p_nchan F) g0) bl.
Definition PlanRefuted : Prop := exists F g0 start nsamps s0, wf F /\ in_range F start nsamps /\ 1 <= g0 /\ Z.abs s0 < Z.min nsamps g0 /\
  ~ plan_good F g0 start nsamps s0.
Lemma plan_refuted_not_spec : PlanRefuted -> ~ PlanSpec.
Proof. intros (F & g0 & s & n & s0 & W & R & Hg & Hs & Hn) S. apply Hn.
  destruct (plan_spec_stitch S F g0 s n s0 W R Hg Hs) as (bl & ? & ? & ? & ?). exists bl. repeat split; assumption. Qed.

(** the plan arithmetic, as in C01 (fil_plan_eq), for the form FilReader.read_plan has after its repair *)
Ltac plan_arith_tac :=
  let g0 := fresh "g0" in let start := fresh "start" in let nsamps := fresh "nsamps" in let skipback0 := fresh "skipback0" in
  intros g0 start nsamps skipback0 Hg Hn Hs; unfold pfits_plan;
  set (g := Z.min nsamps g0); set (sb := Z.abs skipback0);
  replace (sb >=? g) with false by lia;
  set (nreads := (nsamps - g) / (g - sb) + 1);
  set (lr0 := nsamps - nreads * (g - sb));
  assert (Hq : 0 <= (nsamps - g) / (g - sb)) by (apply Z.div_pos; lia);
  assert (Hd : (g - sb) * ((nsamps - g) / (g - sb)) <= nsamps - g < (g - sb) * ((nsamps - g) / (g - sb)) + (g - sb))
    by (pose proof (Z.div_mod (nsamps - g) (g - sb) ltac:(lia)); pose proof (Z.mod_pos_bound (nsamps - g) (g - sb) ltac:(lia)); lia);
  assert (Hlr : sb <= lr0 < g) by (unfold lr0, nreads; nia);
  destruct (Z.eqb_spec lr0 sb) as [E|NE];
  [ exists g, sb, nreads, 0; split;
    [ change (0 =? 0) with true; cbn [negb]; rewrite app_nil_r; reflexivity
    | constructor; try reflexivity; try lia; try (unfold nreads; nia); change (0 =? 0) with true; unfold lr0, nreads in *; nia ]
  | exists g, sb, nreads, lr0; split;
    [ destruct (Z.eqb_spec lr0 0) as [E0|NE0]; cbn [negb]; [rewrite app_nil_r; reflexivity|reflexivity]
    | constructor; try reflexivity; try lia; try (unfold nreads; nia);
      try solve [destruct (Z.eqb_spec lr0 0); [left; assumption|right; lia]];
      try solve [destruct (Z.eqb_spec lr0 0); unfold lr0, nreads in *; nia] ] ].
Ltac body_arith_tac :=
  intros nsub nsblk start nsamps block skip H1 H2 H3 H4 H5; unfold pl_cov, pl_sub, py_divmod; cbv zeta; repeat split; try lia; try nia.

Definition wit_file3 : pfile :=
  mkpf 3 2 4 2 6 8 1 (-1) 0 1 (fun i t p c => 10 * (2 * i + t) + c + 100 * p) (fun _ _ => 1) (fun _ _ => 0) (fun _ _ => 1).
Lemma wit3_wf : wf wit_file3.
Proof. constructor; cbn; try lia. vm_compute. destruct keeps_unit_axes; reflexivity. Qed.
(** a plan on wit_file3 that is not honoured: the run ends in an error, or a block has the wrong size, or the stitched data differ *)
Ltac plan_witness g0 s n s0 :=
  exists wit_file3, g0, s, n, s0; split; [exact wit3_wf|]; split; [unfold in_range; cbn; lia|]; split; [lia|]; split; [cbn; lia|];
  intros (bl & E & St & Bk); vm_compute in E;
  first [ discriminate E
        | injection E as <-; first [ vm_compute in St; discriminate St
                                   | repeat (match goal with H : Forall _ (_ :: _) |- _ => inversion H; clear H; subst end);
                                     unfold block_ok, len in *; cbn in *; lia ] ].

Definition plan_decision : { b : bool & if b then PlanSpec else PlanRefuted }.
Proof. first [ exists true; cbv iota; apply plan_sound_cond; [ unfold PlanArith; solve [plan_arith_tac] | unfold BodyArith; solve [body_arith_tac] ]
             | exists false; cbv iota; unfold PlanRefuted;
               first [ solve [plan_witness 2 0 6 0] | solve [plan_witness 3 1 3 2] | solve [plan_witness 2 1 4 0] | solve [plan_witness 3 0 6 2] | solve [plan_witness 2 1 2 0] ] ]. Defined.
Definition plan_sound_flag : bool := projT1 plan_decision.
Lemma plan_verdict : if plan_sound_flag then PlanSpec else PlanRefuted.
Proof. exact (projT2 plan_decision). Qed.

(** * what holds whatever the verdicts: a single block from an aligned start *)
Lemma plan_one_block_cond F g0 start n : wf F -> in_range F start n -> n <= g0 ->
  pfits_plan g0 start n 0 = Some (n, 0, [(0, n, 0)]) -> pl_cov (p_nsub F) (p_nsblk F) start n n 0 -> plan_good F g0 start n 0.
Proof. intros W (R1 & R2 & R3) Hg E C. pose proof W as [? ? ? ? ?]. unfold plan_good, pf_run_plan. rewrite E. cbn [pf_loop].
  unfold pl_cov in C. destruct (pl_sub start n n 0 (p_nsblk F)) as [[[[[a k] lo] hi] start'] cnt].
  destruct C as (Ha & Hk & Hns & Hlo & Hst & Hhi & Hc & Hst' & Hcnt).
  destruct (read_subints_slice F a k lo hi W Ha Hk Hns Hlo Hc) as [d [-> Ed]]. rewrite Ed.
  replace (a * p_nsblk F + lo) with start by lia. replace (a * p_nsblk F + hi) with (start + n) by lia.
  eexists. split; [reflexivity|]. cbn [app stitch stitch_tail]. rewrite app_nil_r. split; [reflexivity|].
  constructor; [|constructor]. unfold block_ok. subst cnt. split; [|lia].
  change (len ?l) with (lenr l). rewrite (lenr_concat_rows _ (p_nchan F)).
  - rewrite pyslice_len; try rewrite all_rows_len; try lia.
  - intros r Hr. apply In_pyslice in Hr. apply all_rows_uniform; [lia|assumption]. Qed.

Lemma plan_one_block_aligned F g0 start n : wf F -> in_range F start n -> n <= g0 -> start mod p_nsblk F = 0 ->
  plan_good F g0 start n 0.
Proof. intros W R Hg A. pose proof W as [? ? ? ? ?]. pose proof R as (R1 & R2 & R3).
  apply plan_one_block_cond; try assumption.
  - unfold pfits_plan, py_divmod. rewrite Z.min_l by lia. change (Z.abs 0) with 0. rewrite ?Z.sub_0_r, ?Z.sub_diag.
    replace (0 >=? n) with false by lia.
    first [ (* divmod(nsamps, gulp - skipback) *)
            rewrite Z.div_same, Z_mod_same_full by lia; replace (0 <? 0) with false by reflexivity; change (0 =? 0) with true; cbn; reflexivity
          | (* (nsamps - gulp) // (gulp - skipback) + 1 *)
            rewrite Z.div_0_l by lia; cbn [Z.add]; rewrite Z.mul_1_l, Z.sub_diag; change (0 =? 0) with true; cbn; reflexivity ].
  - unfold pl_cov, pl_sub, py_divmod. cbv zeta. repeat split; try lia; try nia. Qed.

(** * layouts the reader cannot read: every request fails with the same error (the property's precondition) *)
Lemma read_subints_err F a k e : file_status F = Some e -> 0 <= a < p_nsub F -> 1 <= k -> read_subints F a k = RErr e.
Proof. intros Hs Ha Hk. unfold read_subints. rewrite rs_rows_eq.
  replace k with (1 + (k - 1)) by lia. rewrite zrange_app by lia. change (zrange 1) with [0]. cbn [map app first_err].
  unfold row_status at 1. replace ((0 <=? a + 0) && (a + 0 <? p_nsub F)) with true by lia. rewrite Hs. reflexivity. Qed.

Lemma unreadable_everywhere F e start nsamps : 1 <= p_nsub F -> 1 <= p_nsblk F -> p_nstot F <= p_nsub F * p_nsblk F ->
  file_status F = Some e -> in_range F start nsamps ->
  (let '(a, k, _, _, _) := rb_sub start nsamps (p_nsblk F) in 0 <= a < p_nsub F /\ 1 <= k) -> read_block F start nsamps = RErr e.
Proof. intros H1 H2 H3 Hs R C. unfold read_block. rewrite rb_reject_false by assumption.
  destruct (rb_sub start nsamps (p_nsblk F)) as [[[[a k] lo] hi] rows]. destruct C as [Ca Ck].
  rewrite (read_subints_err F a k e) by assumption. reflexivity. Qed.

Lemma unreadable_whole F e : 1 <= p_nsub F -> 1 <= p_nsblk F -> 1 <= p_nstot F <= p_nsub F * p_nsblk F ->
  file_status F = Some e -> whole F = RErr e.
Proof. intros H1 H2 H3 Hs. unfold whole. apply unreadable_everywhere; try lia; try assumption; [unfold in_range; lia|].
  pose proof (rb_cov_aligned (p_nsub F) (p_nsblk F) 0 (p_nstot F) H2 ltac:(lia) ltac:(lia) ltac:(lia) ltac:(apply Z.mod_0_l; lia)) as C.
  unfold rb_cov in C. destruct (rb_sub 0 (p_nstot F) (p_nsblk F)) as [[[[a k] lo] hi] rows]. nia. Qed.

(** total-intensity (one polarisation) and two-polarisation files *)
Definition wit_file_1pol : pfile :=
  mkpf 2 2 1 2 4 8 2 (-1) 0 1 (fun i t p c => 10 * (2 * i + t) + c) (fun _ _ => 1) (fun _ _ => 0) (fun _ _ => 1).
Definition wit_file_2pol : pfile :=
  mkpf 2 2 2 2 4 8 3 (-1) 0 1 (fun i t p c => 10 * (2 * i + t) + c + 100 * p) (fun _ _ => 1) (fun _ _ => 0) (fun _ _ => 1).
Lemma one_pol_status : file_status wit_file_1pol = if keeps_unit_axes then None else Some PValueError.
Proof. vm_compute. destruct keeps_unit_axes; reflexivity. Qed.
Lemma two_pol_status : file_status wit_file_2pol = None \/ file_status wit_file_2pol = Some PUnbound.
Proof. vm_compute. destruct keeps_unit_axes; first [left; reflexivity | right; reflexivity]. Qed.

Lemma whole_file F : wf F -> whole F = ROk (pyslice (all_rows F) 0 (p_nstot F)) /\ lenr (pyslice (all_rows F) 0 (p_nstot F)) = p_nstot F.
Proof. intro W. split; [exact (whole_spec F W)|exact (whole_len F W)]. Qed.
