(** C17: frame condition -- when the update code has no place that could modify the header, no history changes it, and the
    machine with the header in its state is the machine of the theorems run with that header's tobs and frequencies. *)
From Coq Require Import ZArith QArith List Bool String.
Require Import SPP.Base.Rt SPP.Gen.FoldRefs SPP.Model.C17_FoldedCube SPP.Model.C17_Header SPP.Proofs.C17_foldedcube.
Import ListNotations.
Open Scope Z_scope.

Lemma runH_frame W R nsubints nsubbands nbins FH T : W = [] -> forall ops s h,
  runH W R nsubints nsubbands nbins FH T ops (s, h) =
  match run R nsubints nsubbands nbins (h_tobs h) (FH h) T ops s with None => None | Some s' => Some (s', h) end.
Proof.
  intros -> ops. induction ops as [|o ops IH]; intros s h; cbn [runH run]; [reflexivity|].
  unfold stepH. destruct (step R nsubints nsubbands nbins (h_tobs h) (FH h) T s o) as [s1|]; [|reflexivity].
  cbn [clobber fold_right]. apply IH.
Qed.

(** every history leaves the header as it was, and (folding references) ends in the expected cube for THAT header *)
Lemma header_frame W R : W = [] -> sound_refs R = true ->
  forall nsubints nsubbands nbins FH T c0 dm0 p0 h ops, nsubbands <> 0 -> nbins <> 0 -> ~ (p0 == 0)%Q ->
  exists s, runH W R nsubints nsubbands nbins FH T ops (init c0 dm0 p0, h) = Some (s, h) /\
    data s = expected nbins (h_tobs h) (FH h) T c0 dm0 p0 (final_dm ops dm0) (final_period ops p0).
Proof.
  intros HW HR nsubints nsubbands nbins FH T c0 dm0 p0 h ops H1 H2 H3.
  destruct (sound_history_independent R HR nsubints nsubbands nbins (h_tobs h) (FH h) T c0 dm0 p0 ops H1 H2 H3) as (s & Hr & Hd & _).
  exists s. split; [|exact Hd]. rewrite (runH_frame W R nsubints nsubbands nbins FH T HW). now rewrite Hr.
Qed.

(** for every choice of references: if a history runs, the header is untouched *)
Lemma header_untouched W R nsubints nsubbands nbins FH T : W = [] -> forall ops s h s' h',
  runH W R nsubints nsubbands nbins FH T ops (s, h) = Some (s', h') -> h' = h.
Proof.
  intros HW ops s h s' h' H. rewrite (runH_frame W R nsubints nsubbands nbins FH T HW) in H.
  destruct (run R nsubints nsubbands nbins (h_tobs h) (FH h) T ops s); inversion H; reflexivity.
Qed.

(** a source that wrote header.tobs in an update: repeating a period update moves the cube (so the hypothesis is needed) *)
Definition wH_p : Q := 803 # 800.
Definition wH_obs (W : list string) (ops : list op) : option (cube * hdrv) :=
  option_map (fun st : fstate * hdrv => (data (fst st), snd st)) (wH_run W ops).
Lemma header_write_witness :
  exists c1 c2 h1 h2, wH_obs ["tobs"%string] [UPeriod wH_p] = Some (c1, h1) /\
    wH_obs ["tobs"%string] [UPeriod wH_p; UPeriod wH_p] = Some (c2, h2) /\ c1 <> c2 /\ h1 <> wH_h /\
    wH_obs [] [UPeriod wH_p; UPeriod wH_p] = Some (c1, wH_h) /\ c1 <> cube_art 2.
Proof. vm_compute. do 4 eexists. repeat split; try reflexivity; intro H; discriminate H. Qed.
