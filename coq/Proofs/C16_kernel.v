(** C16, data side: the generated kernel [mask_channels_run] (Gen/Kernels.v, regenerated from kernels.py) writes the
    mask value at every sample of every masked channel and leaves every other element alone, for all sizes; the
    block loop of apply_channel_mask therefore produces the same file for every way of cutting it into blocks;
    for sub-byte files the unpack -> mask -> pack pipeline re-reads as the specification. *)
From Coq Require Import ZArith List Bool Lia ZifyBool.
Require Import SPP.Base.Rt SPP.Base.Iter SPP.Gen.Kernels SPP.Gen.C16Rfi SPP.Model.Bits SPP.Proofs.C03_bits SPP.Model.C16_File.
Import ListNotations.
Open Scope Z_scope.
Ltac Zify.zify_post_hook ::= Z.to_euclidean_division_equations.

(** * The inner loop: channel [c] of [n] samples *)
Lemma inner_spec (nc c mv : Z) (n : nat) (a : arr) : 0 <= c < nc -> forall k,
  iter n (fun isamp array => let array := upd array (nc * isamp + c) mv in array) a k =
  if (0 <=? k) && (k <? nc * Z.of_nat n) && (k mod nc =? c) then mv else a k.
Proof. intros Hc. induction n as [|m IH]; intro k.
  - cbn [iter]. destruct (0 <=? k) eqn:?, (k <? nc * Z.of_nat 0) eqn:?; cbn; try reflexivity; lia.
  - cbn [iter]. cbv zeta. unfold upd at 1. destruct (Z.eqb_spec k (nc * Z.of_nat m + c)) as [->|NE].
    + assert ((nc * Z.of_nat m + c) mod nc = c) as -> by (symmetry; apply Z.mod_unique with (q := Z.of_nat m); lia).
      rewrite Z.eqb_refl.
      destruct (0 <=? nc * Z.of_nat m + c) eqn:?, (nc * Z.of_nat m + c <? nc * Z.of_nat (S m)) eqn:?; cbn; try reflexivity; nia.
    + cbv zeta in IH. rewrite IH.
      destruct (Z.eqb_spec (k mod nc) c) as [E|NEc].
      * (* same channel: k = nc*q + c with q <> m *)
        assert (k = nc * (k / nc) + c) by (pose proof (Z.div_mod k nc); lia).
        assert (k / nc <> Z.of_nat m) by (intro; apply NE; lia).
        destruct (0 <=? k) eqn:?, (k <? nc * Z.of_nat m) eqn:?, (k <? nc * Z.of_nat (S m)) eqn:?; cbn; try reflexivity; nia.
      * rewrite !andb_false_r. reflexivity. Qed.

(** * The whole kernel *)
Theorem mask_channels_spec (array mask : arr) (mv nchans nsamps : Z) : 0 <= nchans -> 0 <= nsamps ->
  forall k, mask_channels_run array mask mv nchans nsamps k = clean_spec array mask mv nchans nsamps k.
Proof. intros Hc Hs k. unfold mask_channels_run, clean_spec, in_block, masked. cbv zeta.
  (* invariant: after channels [0, m) *)
  assert (Inv : forall m : nat, Z.of_nat m <= nchans -> forall k,
    iter m (fun ichan array0 =>
       if negb (mask ichan =? 0)
       then iter (Z.to_nat nsamps) (fun isamp array1 => upd array1 (nchans * isamp + ichan) mv) array0
       else array0) array k =
    if (0 <=? k) && (k <? nchans * nsamps) && (k mod nchans <? Z.of_nat m) && negb (mask (k mod nchans) =? 0) then mv else array k).
  { induction m as [|m IH]; intros Hm j.
    - cbn [iter]. destruct ((0 <=? j) && (j <? nchans * nsamps)) eqn:Hin; [|reflexivity].
      assert (0 < nchans) by nia. pose proof (Z.mod_pos_bound j nchans ltac:(lia)).
      replace (j mod nchans <? Z.of_nat 0) with false by lia. reflexivity.
    - cbn [iter]. assert (Hcm : 0 <= Z.of_nat m < nchans) by lia.
      destruct (mask (Z.of_nat m) =? 0) eqn:Em; cbn [negb].
      + rewrite IH by lia. destruct (Z.eqb_spec (j mod nchans) (Z.of_nat m)) as [E|NE].
        * rewrite E, Em. cbn [negb]. now rewrite !andb_false_r.
        * replace (j mod nchans <? Z.of_nat (S m)) with (j mod nchans <? Z.of_nat m) by lia. reflexivity.
      + pose proof (inner_spec nchans (Z.of_nat m) mv (Z.to_nat nsamps)) as HI. cbv zeta in HI.
        rewrite HI by lia. rewrite Z2Nat.id by lia. rewrite IH by lia.
        destruct (Z.eqb_spec (j mod nchans) (Z.of_nat m)) as [E|NE].
        * rewrite E, Em. cbn [negb]. replace (Z.of_nat m <? Z.of_nat (S m)) with true by lia.
          replace (Z.of_nat m <? Z.of_nat m) with false by lia.
          rewrite !andb_true_r, !andb_false_r.
          destruct ((0 <=? j) && (j <? nchans * nsamps)); reflexivity.
        * rewrite andb_false_r.
          replace (j mod nchans <? Z.of_nat (S m)) with (j mod nchans <? Z.of_nat m) by lia. reflexivity. }
  specialize (Inv (Z.to_nat nchans) ltac:(lia) k). rewrite Inv. rewrite Z2Nat.id by lia.
  destruct ((0 <=? k) && (k <? nchans * nsamps)) eqn:Hin; [|reflexivity]. cbn [andb].
  assert (0 < nchans) by nia.
  replace (k mod nchans <? nchans) with true by (pose proof (Z.mod_pos_bound k nchans); lia).
  reflexivity. Qed.

(** the two halves of the statement, in index form *)
Corollary mask_channels_masked array mask mv nchans nsamps c s :
  0 <= c < nchans -> 0 <= s < nsamps -> mask c <> 0 ->
  mask_channels_run array mask mv nchans nsamps (nchans * s + c) = mv.
Proof. intros Hc Hs Hm. rewrite mask_channels_spec by lia. unfold clean_spec, in_block, masked.
  assert ((nchans * s + c) mod nchans = c) as -> by (symmetry; apply Z.mod_unique with (q := s); lia).
  replace ((0 <=? nchans * s + c) && (nchans * s + c <? nchans * nsamps)) with true by nia.
  destruct (Z.eqb_spec (mask c) 0); [contradiction|reflexivity]. Qed.

Corollary mask_channels_unmasked array mask mv nchans nsamps c s :
  0 <= nchans -> 0 <= nsamps -> 0 <= c < nchans -> mask c = 0 ->
  mask_channels_run array mask mv nchans nsamps (nchans * s + c) = array (nchans * s + c).
Proof. intros Hn Hs Hc Hm. rewrite mask_channels_spec by lia. unfold clean_spec, in_block, masked.
  assert ((nchans * s + c) mod nchans = c) as -> by (symmetry; apply Z.mod_unique with (q := s); lia).
  rewrite Hm. cbn. now rewrite andb_false_r. Qed.

Corollary mask_channels_outside array mask mv nchans nsamps k :
  0 <= nchans -> 0 <= nsamps -> ~ (0 <= k < nchans * nsamps) ->
  mask_channels_run array mask mv nchans nsamps k = array k.
Proof. intros Hn Hs Hk. rewrite mask_channels_spec by lia. unfold clean_spec, in_block.
  replace ((0 <=? k) && (k <? nchans * nsamps)) with false by lia. reflexivity. Qed.

(** the result does not depend on what the buffer held beyond the block, nor on the order of the channels
    (each element is a function of its own input element only) *)
Corollary mask_channels_pointwise a1 a2 mask mv nchans nsamps k :
  0 <= nchans -> 0 <= nsamps -> a1 k = a2 k ->
  mask_channels_run a1 mask mv nchans nsamps k = mask_channels_run a2 mask mv nchans nsamps k.
Proof. intros. rewrite !mask_channels_spec by lia. unfold clean_spec. rewrite H1. reflexivity. Qed.

(** * The block loop of apply_channel_mask: every partition into blocks gives the same cleaned file *)
Lemma block_spec x stale mask mv nchans off n k : 0 < nchans -> 0 <= n -> 0 <= k < nchans * n ->
  apply_channel_mask_block (block_of x stale nchans off n) mask mv nchans n k =
  if masked mask ((nchans * off + k) mod nchans) then mv else x (nchans * off + k).
Proof. intros Hc Hn Hk. unfold apply_channel_mask_block. rewrite mask_channels_spec by lia.
  unfold clean_spec, in_block, block_of.
  replace ((0 <=? k) && (k <? nchans * n)) with true by lia. cbn [andb].
  replace ((nchans * off + k) mod nchans) with (k mod nchans); [reflexivity|].
  rewrite Z.add_comm, Z.mul_comm. now rewrite Z.mod_add by lia. Qed.

Lemma total_nonneg l : Forall (fun n => 0 <= n) l -> 0 <= total l.
Proof. induction 1 as [|n l Hn Hl IH]; unfold total in *; cbn [fold_right]; cbv beta in *; lia. Qed.

Lemma clean_blocks_spec x stale mask mv nchans : 0 < nchans -> forall lens off out,
  Forall (fun n => 0 <= n) lens -> 0 <= off -> forall j,
  clean_blocks x stale mask mv nchans lens off out j =
  if (nchans * off <=? j) && (j <? nchans * (off + total lens))
  then (if masked mask (j mod nchans) then mv else x j) else out j.
Proof. intros Hc lens. induction lens as [|n rest IH]; intros off out Hl Hoff j.
  - cbn [clean_blocks total fold_right]. rewrite Z.add_0_r.
    replace ((nchans * off <=? j) && (j <? nchans * off)) with false by lia. reflexivity.
  - inversion Hl as [|? ? Hn Hrest]; subst. cbn [clean_blocks]. cbv zeta.
    rewrite IH by (assumption || lia). clear IH.
    assert (Ht : 0 <= total rest) by (apply total_nonneg; assumption).
    change (total (n :: rest)) with (n + total rest).
    destruct ((nchans * (off + n) <=? j) && (j <? nchans * (off + n + total rest))) eqn:E1.
    + replace ((nchans * off <=? j) && (j <? nchans * (off + (n + total rest)))) with true by nia. reflexivity.
    + unfold append.
      destruct ((nchans * off <=? j) && (j <? nchans * off + nchans * n)) eqn:E2.
      * replace ((nchans * off <=? j) && (j <? nchans * (off + (n + total rest)))) with true by nia.
        rewrite block_spec by lia. replace (nchans * off + (j - nchans * off)) with j by lia. reflexivity.
      * replace ((nchans * off <=? j) && (j <? nchans * (off + (n + total rest)))) with false by nia. reflexivity. Qed.

Theorem clean_file_spec x stale mask mv nchans lens : 0 < nchans -> Forall (fun n => 0 <= n) lens ->
  forall j, 0 <= j < nchans * total lens ->
  clean_file x stale mask mv nchans lens j = clean_spec x mask mv nchans (total lens) j.
Proof. intros Hc Hl j Hj. unfold clean_file. rewrite clean_blocks_spec by (assumption || lia).
  unfold clean_spec, in_block.
  replace ((nchans * 0 <=? j) && (j <? nchans * (0 + total lens))) with true by lia.
  replace ((0 <=? j) && (j <? nchans * total lens)) with true by lia. reflexivity. Qed.

(** nothing is written beyond the data: the file has exactly [nchans * total lens] elements *)
Theorem clean_file_length x stale mask mv nchans lens : 0 < nchans -> Forall (fun n => 0 <= n) lens ->
  forall j, ~ (0 <= j < nchans * total lens) -> clean_file x stale mask mv nchans lens j = 0.
Proof. intros Hc Hl j Hj. unfold clean_file. rewrite clean_blocks_spec by (assumption || lia).
  replace ((nchans * 0 <=? j) && (j <? nchans * (0 + total lens))) with false by lia. reflexivity. Qed.

(** two partitions of the same number of samples give the same file (gulp independence) *)
Corollary clean_file_partition_independent x s1 s2 mask mv nchans l1 l2 : 0 < nchans ->
  Forall (fun n => 0 <= n) l1 -> Forall (fun n => 0 <= n) l2 -> total l1 = total l2 ->
  forall j, clean_file x s1 mask mv nchans l1 j = clean_file x s2 mask mv nchans l2 j.
Proof. intros Hc H1 H2 E j. destruct (Z_lt_ge_dec j 0) as [|Hge]; [|destruct (Z_lt_ge_dec j (nchans * total l1))].
  - rewrite !clean_file_length by (assumption || lia). reflexivity.
  - rewrite !clean_file_spec by (assumption || lia). now rewrite E.
  - rewrite !clean_file_length by (assumption || lia). reflexivity. Qed.

(** the blocks of a gulp are such a partition *)
Lemma total_app a b : total (a ++ b) = total a + total b.
Proof. unfold total. induction a as [|x a IH]; cbn [app fold_right] in *; lia. Qed.
Lemma total_repeat g k : total (repeat g k) = Z.of_nat k * g.
Proof. unfold total. induction k as [|k IH]; cbn [repeat fold_right] in *; lia. Qed.

Lemma gulp_lens_partition n g : 1 <= n -> 1 <= g ->
  total (gulp_lens n g) = n /\ Forall (fun m => 0 <= m) (gulp_lens n g).
Proof. intros Hn Hg. unfold gulp_lens. set (g' := Z.min n g). assert (1 <= g') by (unfold g'; lia).
  assert (0 <= n / g') by (apply Z.div_pos; lia). split.
  - rewrite total_app, total_repeat, Z2Nat.id by lia.
    destruct (Z.eqb_spec (n mod g') 0); cbn [total fold_right]; pose proof (Z.div_mod n g'); lia.
  - apply Forall_app. split.
    + apply Forall_forall. intros m Hm. apply repeat_spec in Hm. lia.
    + destruct (n mod g' =? 0); constructor; [pose proof (Z.mod_pos_bound n g'); lia|constructor]. Qed.

Theorem clean_file_every_gulp x stale mask mv nchans n g : 0 < nchans -> 1 <= n -> 1 <= g ->
  forall j, 0 <= j < nchans * n ->
  clean_file x stale mask mv nchans (gulp_lens n g) j = clean_spec x mask mv nchans n j.
Proof. intros Hc Hn Hg j Hj. destruct (gulp_lens_partition n g Hn Hg) as [Ht Hf].
  rewrite clean_file_spec by (assumption || lia). now rewrite Ht. Qed.

(** * Sub-byte depths: unpack, mask, pack; re-reading the written bytes gives the specification *)
Theorem clean_block_packed_spec nb big nbytes bytes mask mv nchans nsamps ubuf pbuf u2 :
  In nb [1; 2; 4] -> 0 <= nchans -> 0 <= nsamps -> bf nb * nbytes = nchans * nsamps ->
  (forall i, 0 <= i < nbytes -> 0 <= bytes i < 256) ->
  representable nb mv = true ->
  forall j, 0 <= j < nchans * nsamps ->
  unpack_run nb big nbytes (clean_block_packed nb big nbytes bytes mask mv nchans nsamps ubuf pbuf) u2 j =
  clean_spec (unpack_run nb big nbytes bytes ubuf) mask mv nchans nsamps j.
Proof. intros Hnb Hc Hs Hsz Hb Hmv j Hj. unfold clean_block_packed. cbv zeta.
  destruct (bf_pos nb Hnb) as [Hbf _].
  assert (Hnbytes : 0 <= nbytes) by nia.
  assert (Hnbp : 0 < nb) by (cbn [In] in Hnb; lia).
  unfold representable in Hmv.
  rewrite unpack_pack; try assumption; try lia.
  - unfold apply_channel_mask_block. now rewrite mask_channels_spec by lia.
  - intros i Hi. unfold apply_channel_mask_block. rewrite mask_channels_spec by lia. unfold clean_spec.
    destruct (in_block nchans nsamps i && masked mask (i mod nchans)); [lia|].
    rewrite unpack_run_spec by assumption. replace ((0 <=? i) && (i <? bf nb * nbytes)) with true by lia.
    apply field_range. lia. Qed.
