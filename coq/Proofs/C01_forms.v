(** C01, the call forms of read_plan: nsamps left out (to the end of the set), negative skipback, and the overlap clause. *)
From Coq Require Import ZArith List Bool Lia ZifyBool.
Require Import SPP.Base.Rt SPP.Base.Iter SPP.Gen.Plan SPP.Model.Stream SPP.Model.Plan SPP.Model.PlanForms SPP.Proofs.C02_stream SPP.Proofs.C01_plan.
Import ListNotations.
Open Scope Z_scope.
Ltac Zify.zify_post_hook ::= Z.to_euclidean_division_equations.

(** * nsamps given / left out *)
Lemma run_plan_opt_some fs nch gulp0 start n skipback0 :
  run_plan_opt fs nch gulp0 start (Some n) skipback0 = run_plan fs nch gulp0 start n skipback0.
Proof. reflexivity. Qed.

Lemma run_plan_opt_none fs nch N gulp0 start skipback0 : 1 <= nch -> total fs = N * nch ->
  run_plan_opt fs nch gulp0 start None skipback0 = run_plan fs nch gulp0 start (N - start) skipback0.
Proof. intros Hc Ht. unfold run_plan_opt, fil_plan_nsamps. rewrite Ht, Z.div_mul by lia. reflexivity. Qed.

Theorem plan_to_end_sound fs nch N gulp0 start skipback0 :
  1 <= nfiles fs -> 1 <= nch -> total fs = N * nch -> 0 <= start < N -> 1 <= gulp0 ->
  Z.abs skipback0 < Z.min (N - start) gulp0 ->
  exists bl, run_plan_opt fs nch gulp0 start None skipback0 = POk bl /\
    stitch (Z.abs skipback0 * nch) bl = skipn (Z.to_nat (start * nch)) (flat fs) /\
    Forall (block_ok nch gulp0) bl /\
    map (fun b => snd (fst b)) bl = zrange (len (map (fun _ => 0) bl)).
Proof. intros Hf Hc Ht Hs Hg Hsb. rewrite (run_plan_opt_none fs nch N) by assumption.
  destruct (plan_sound fs nch N gulp0 start (N - start) skipback0 Hf Hc Ht ltac:(lia) ltac:(lia) ltac:(lia) Hg Hsb) as [bl [E [S [F I]]]].
  exists bl. repeat split; try assumption. rewrite S. unfold slice. apply firstn_all2.
  rewrite skipn_length. pose proof (len_flat fs) as L. unfold len in L. nia. Qed.

(** nothing left (start at or beyond the last sample) or a skipback not below the effective gulp: refused before any yield *)
Theorem plan_to_end_reject fs nch N gulp0 start skipback0 : 1 <= nch -> total fs = N * nch ->
  Z.abs skipback0 >= Z.min (N - start) gulp0 -> run_plan_opt fs nch gulp0 start None skipback0 = PErr [] ValueError.
Proof. intros Hc Ht H. rewrite (run_plan_opt_none fs nch N) by assumption. apply plan_reject. exact H. Qed.

(** * the sign of skipback is ignored *)
Lemma fil_plan_opp gulp0 start nsamps skipback0 hn sn ss nch :
  fil_plan gulp0 start nsamps (- skipback0) hn sn ss nch = fil_plan gulp0 start nsamps skipback0 hn sn ss nch.
Proof. unfold fil_plan. rewrite Z.abs_opp. reflexivity. Qed.

Theorem run_plan_opp fs nch gulp0 start nsamps skipback0 :
  run_plan_opt fs nch gulp0 start nsamps (- skipback0) = run_plan_opt fs nch gulp0 start nsamps skipback0.
Proof. unfold run_plan_opt, run_plan. rewrite fil_plan_opp. reflexivity. Qed.

(** * the overlap clause *)
Lemma firstn_slice l a n d : 0 <= d <= n -> firstn (Z.to_nat d) (slice l a n) = slice l a d.
Proof. intro H. unfold slice. rewrite firstn_firstn. f_equal. lia. Qed.

Lemma lastn_slice l a n d : 0 <= a -> 0 <= d <= n -> a + n <= len l -> lastn d (slice l a n) = slice l (a + n - d) d.
Proof. intros Ha Hd Hl. unfold lastn. rewrite slice_len by lia. rewrite skipn_slice by lia. f_equal; lia. Qed.

Section Overlap.
  Variables (fs : list file) (nch N start nsamps g sb : Z).
  Hypothesis (Hc : 1 <= nch) (Ht : total fs = N * nch) (Hs0 : 0 <= start) (Hr : start + nsamps <= N) (Hsb : 0 <= sb < g).

  Lemma ov_pair i m : 0 <= i -> i * (g - sb) + g <= nsamps -> sb <= m ->
    firstn (Z.to_nat (sb * nch)) (slice (flat fs) (P nch start g sb (i + 1)) (m * nch)) = lastn (sb * nch) (slice (flat fs) (P nch start g sb i) (g * nch)).
  Proof. intros Hi Hfit Hm. pose proof (P_nonneg nch start g sb Hc Hs0 Hsb i Hi) as HP.
    rewrite firstn_slice by nia. rewrite lastn_slice; [| lia | nia | rewrite len_flat; unfold P in *; nia].
    f_equal. unfold P. ring. Qed.

  Definition tail_ok (i : Z) (tl : list (Z * Z * list Z)) : Prop :=
    tl = [] \/ exists x y lr, tl = [(x, y, slice (flat fs) (P nch start g sb (i + 1)) (lr * nch))] /\ sb <= lr.

  Lemma ov_full : forall (m a : nat) tl, Z.of_nat (a + m) * (g - sb) + g <= nsamps -> tail_ok (Z.of_nat (a + m)) tl ->
    overlaps_from (sb * nch) (slice (flat fs) (P nch start g sb (Z.of_nat a)) (g * nch))
      (map (blk fs nch start g sb) (map Z.of_nat (seq (S a) m)) ++ tl).
  Proof. induction m as [|m IH]; intros a tl Hfit Htl.
    - cbn [seq map app]. rewrite Nat.add_0_r in *. destruct Htl as [->|[x [y [lr [-> Hlr]]]]]; [exact I|].
      cbn [overlaps_from]. split; [|exact I]. apply ov_pair; lia.
    - cbn [seq map app]. unfold blk at 1. cbn [overlaps_from]. split.
      + replace (Z.of_nat (S a)) with (Z.of_nat a + 1) by lia. apply ov_pair; nia.
      + apply IH; replace (S a + m)%nat with (a + S m)%nat by lia; assumption. Qed.
End Overlap.

Theorem plan_overlap fs nch N gulp0 start nsamps skipback0 :
  1 <= nfiles fs -> 1 <= nch -> total fs = N * nch ->
  0 <= start -> 1 <= nsamps -> start + nsamps <= N -> 1 <= gulp0 ->
  Z.abs skipback0 < Z.min nsamps gulp0 ->
  exists bl, run_plan fs nch gulp0 start nsamps skipback0 = POk bl /\ overlaps (Z.abs skipback0 * nch) bl.
Proof. intros Hf Hc Ht Hs0 Hn Hr Hg Hsb.
  destruct (run_plan_explicit fs nch N gulp0 start nsamps skipback0 Hf Hc Ht Hs0 Hn Hr Hg Hsb) as [g [sb [nreads [lr [F E]]]]].
  exists (plan_blocks fs nch start g sb nreads lr). split; [exact E|].
  destruct F as [Fg Fsb Fsblt Fnr Ffit Flast Fcov]. rewrite <- Fsb.
  unfold plan_blocks, zrange. destruct (Z.to_nat nreads) as [|k] eqn:Ek; [lia|].
  cbn [seq map app]. unfold blk at 1. cbn [overlaps].
  change (slice (flat fs) (P nch start g sb 0) (g * nch)) with (slice (flat fs) (P nch start g sb (Z.of_nat 0)) (g * nch)).
  apply (ov_full fs nch N start nsamps g sb Hc Ht Hs0 Hr Fsblt k 0%nat).
  - replace (Z.of_nat (0 + k)) with (nreads - 1) by lia. exact Ffit.
  - unfold tail_ok. replace (Z.of_nat (0 + k) + 1) with nreads by lia.
    destruct (Z.eqb_spec lr 0) as [E0|NE]; [left; reflexivity|right].
    exists lr, nreads, lr. split; [reflexivity|]. destruct Flast; lia. Qed.

Theorem plan_to_end_overlap fs nch N gulp0 start skipback0 :
  1 <= nfiles fs -> 1 <= nch -> total fs = N * nch -> 0 <= start < N -> 1 <= gulp0 ->
  Z.abs skipback0 < Z.min (N - start) gulp0 ->
  exists bl, run_plan_opt fs nch gulp0 start None skipback0 = POk bl /\ overlaps (Z.abs skipback0 * nch) bl.
Proof. intros Hf Hc Ht Hs Hg Hsb. rewrite (run_plan_opt_none fs nch N) by assumption.
  apply (plan_overlap fs nch N); try assumption; lia. Qed.
