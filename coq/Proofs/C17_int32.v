(** C17: the int32 bookkeeping ([run32], Model/C17_Int32.v) coincides with the unbounded machine while no shift reaches
    2**30 bins, and is history dependent beyond. *)
From Coq Require Import ZArith QArith Qround List Bool Lia.
Require Import SPP.Base.Rt SPP.Gen.FoldRefs SPP.Model.C17_FoldedCube SPP.Model.C17_Int32 SPP.Proofs.C17_rot
  SPP.Proofs.C17_foldedcube.
Import ListNotations.
Open Scope Z_scope.

Lemma wrap32_small z : -2147483648 <= z < 2147483648 -> wrap32 z = z.
Proof. intro H. unfold wrap32. rewrite Z.mod_small by lia. lia. Qed.

Lemma amt32_small z : -2147483648 < z < 2147483648 -> amt32 z = z.
Proof. intro H. unfold amt32. rewrite (wrap32_small z) by lia. rewrite wrap32_small by lia. lia. Qed.

Definition small (s : fstate) : Prop := forall k, Z.abs (fph s k) < 1073741824 /\ Z.abs (tph s k) < 1073741824.

Lemma small_init c d p : small (init c d p).
Proof. intro k. cbn. lia. Qed.

Section M.
  Variable R : refs.
  Variables nsubints nsubbands nbins : Z.
  Variable tobs : Q.
  Variable F : Q -> Q -> arr.
  Variable T : Q -> arr.
  Hypothesis HB : shifts_bounded F T.

  Lemma dm_del s d del s' : small s -> get_dmdelays R nsubbands nbins F s d = Some (del, s') ->
    (forall b, -2147483648 < del b < 2147483648) /\ small s' /\ data s' = data s.
  Proof.
    intros Hs H. destruct HB as [HF _]. unfold get_dmdelays in H.
    destruct (Qeq_bool _ 0).
    - inversion H; subst; clear H. split; [|split]; cbn; [| |reflexivity].
      + intro b. destruct (Hs b). lia.
      + intro k. destruct (Hs k). cbn. lia.
    - destruct ((nsubbands =? 0) || (nbins =? 0)); [discriminate|]. inversion H; subst; clear H.
      split; [|split]; cbn; [| |reflexivity].
      + intro b. destruct (Hs b). match goal with |- context [F ?x ?y b] => specialize (HF x y b) end. lia.
      + intro k. destruct (Hs k). cbn. split; [apply HF|lia].
  Qed.

  Lemma p_del s p del s' : small s -> get_pdelays R nbins tobs T s p = Some (del, s') ->
    (forall i, -2147483648 < del i < 2147483648) /\ small s' /\ data s' = data s.
  Proof.
    intros Hs H. destruct HB as [_ HT]. unfold get_pdelays in H.
    destruct (Qeq_bool _ 0 || Qeq_bool _ 0); [discriminate|].
    destruct (Qeq_bool _ 0).
    - inversion H; subst; clear H. split; [|split]; cbn; [| |reflexivity].
      + intro j. destruct (Hs j). lia.
      + intro k. destruct (Hs k). cbn. lia.
    - inversion H; subst; clear H. split; [|split]; cbn; [| |reflexivity].
      + intro j. destruct (Hs j). match goal with |- context [T ?x j] => specialize (HT x j) end. lia.
      + intro k. destruct (Hs k). cbn. split; [lia|apply HT].
  Qed.

  Lemma step32_eq s o : small s -> step32 R nsubints nsubbands nbins tobs F T s o = step R nsubints nsubbands nbins tobs F T s o.
  Proof.
    intro Hs. destruct o as [d|p]; cbn [step32 step].
    - unfold update_dm32, update_dm. destruct (get_dmdelays R nsubbands nbins F s d) as [[del s']|] eqn:E; [|reflexivity].
      destruct (dm_del _ _ _ _ Hs E) as (Hd & _ & _).
      destruct (fph_0d s && (0 <? nsubints)); [reflexivity|]. do 2 f_equal.
      unfold mapi. apply mapi_from_ext. intros i row. apply mapi_from_ext. intros b pr. now rewrite amt32_small.
    - unfold update_period32, update_period. destruct (get_pdelays R nbins tobs T s p) as [[del s']|] eqn:E; [|reflexivity].
      destruct (p_del _ _ _ _ Hs E) as (Hd & _ & _). do 2 f_equal.
      unfold mapi. apply mapi_from_ext. intros i row. apply mapi_from_ext. intros b pr. now rewrite amt32_small.
  Qed.

  Lemma step_small s o s' : small s -> step R nsubints nsubbands nbins tobs F T s o = Some s' -> small s'.
  Proof.
    intros Hs H. destruct o as [d|p]; cbn [step] in H.
    - unfold update_dm in H. destruct (get_dmdelays R nsubbands nbins F s d) as [[del s1]|] eqn:E; [|discriminate].
      destruct (dm_del _ _ _ _ Hs E) as (_ & Hs1 & _).
      destruct (fph_0d s && (0 <? nsubints)); [discriminate|]. inversion H; subst. exact Hs1.
    - unfold update_period in H. destruct (get_pdelays R nbins tobs T s p) as [[del s1]|] eqn:E; [|discriminate].
      destruct (p_del _ _ _ _ Hs E) as (_ & Hs1 & _). inversion H; subst. exact Hs1.
  Qed.

  Lemma run32_eq ops : forall s, small s ->
    run32 R nsubints nsubbands nbins tobs F T ops s = run R nsubints nsubbands nbins tobs F T ops s.
  Proof.
    induction ops as [|o ops IH]; intros s Hs; cbn [run32 run]; [reflexivity|].
    rewrite (step32_eq s o Hs). destruct (step R nsubints nsubbands nbins tobs F T s o) as [s1|] eqn:E; [|reflexivity].
    apply IH. eapply step_small; eauto.
  Qed.
End M.

(** below 2**30 bins the int32 machine IS the machine of the theorems, for every choice of references *)
Lemma int32_faithful R nsubints nsubbands nbins tobs F T c0 dm0 p0 ops : shifts_bounded F T ->
  run32 R nsubints nsubbands nbins tobs F T ops (init c0 dm0 p0) = run R nsubints nsubbands nbins tobs F T ops (init c0 dm0 p0).
Proof. intro HB. apply run32_eq; [exact HB|apply small_init]. Qed.

Lemma int32_history_independent R : sound_refs R = true ->
  forall nsubints nsubbands nbins tobs F T c0 dm0 p0 ops, shifts_bounded F T ->
    nsubbands <> 0 -> nbins <> 0 -> ~ (p0 == 0)%Q ->
    exists s, run32 R nsubints nsubbands nbins tobs F T ops (init c0 dm0 p0) = Some s /\
      data s = expected nbins tobs F T c0 dm0 p0 (final_dm ops dm0) (final_period ops p0) /\
      dm s = final_dm ops dm0 /\ period s = final_period ops p0.
Proof.
  intros HR nsubints nsubbands nbins tobs F T c0 dm0 p0 ops HB H1 H2 H3.
  rewrite (int32_faithful R nsubints nsubbands nbins tobs F T c0 dm0 p0 ops HB).
  exact (sound_history_independent R HR nsubints nsubbands nbins tobs F T c0 dm0 p0 ops H1 H2 H3).
Qed.

(** beyond: two shifts that each fit int32 but whose difference does not -- even with the folding values as references the
    cube depends on the intermediate target and is not restored by the return to the folding period *)
Lemma int32_wrap_witness :
  (forall i, Z.abs (w32_T (3 * (w32_up - 1))%Q i) < 2147483648 \/ ~ (0 <= i < 2)) /\
  exists s1 s2 s3, w32_run_fold [UPeriod w32_up; UPeriod w32_down] = Some s1 /\ w32_run_fold [UPeriod w32_down] = Some s2 /\
    w32_run_fold [UPeriod w32_up; UPeriod w32_down; UPeriod 1%Q] = Some s3 /\
    period s1 = period s2 /\ tph s1 1 = tph s2 1 /\ data s1 <> data s2 /\ data s3 <> w32_cube /\
    prof (data s1) 1 0 = [11; 12; 10] /\ prof (data s2) 1 0 = [10; 11; 12].
Proof.
  split.
  - intro i. destruct (Z_lt_dec i 0); [right; lia|]. destruct (Z_lt_dec i 2); [|right; lia]. left.
    assert (i = 0 \/ i = 1) as [->| ->] by lia; vm_compute; reflexivity.
  - vm_compute. do 3 eexists. repeat split; try reflexivity; intro H; discriminate H.
Qed.

Lemma shifts_bounded_example : shifts_bounded (fun _ _ b => b mod 1000) (fun x i => (i * Qfloor x) mod 1000 - 500).
Proof. split; intros.
  - pose proof (Z.mod_pos_bound b 1000). lia.
  - pose proof (Z.mod_pos_bound (i * Qfloor x) 1000). lia. Qed.
