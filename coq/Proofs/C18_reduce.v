(** C18: streaming reductions over the PSRFITS reader equal those over the SIGPROC file holding the same samples
    (consequence of the trace equality PlanSpec; the SIGPROC side is C06). *)
From Coq Require Import ZArith List Bool Lia.
Require Import SPP.Base.Rt SPP.Gen.Kernels SPP.Gen.Plan SPP.Gen.BaseSites SPP.Gen.C18Pfits SPP.Model.Stream SPP.Model.Plan SPP.Model.C06_pipe
               SPP.Model.C18_PFits SPP.Model.C18_reduce SPP.Proofs.C02_stream SPP.Proofs.C01_plan SPP.Proofs.C06_reduce SPP.Proofs.C18_pfits.
Import ListNotations.
Open Scope Z_scope.

Lemma collapse_same : PlanSpec -> forall F gulp start nsamps, wf F -> in_range F start nsamps -> 1 <= gulp ->
  pf_collapse_pipe F gulp start nsamps = collapse_pipe (sigproc_of F) (p_nchan F) gulp start nsamps /\
  exists out, pf_collapse_pipe F gulp start nsamps = Some out /\
    forall t, 0 <= t < nsamps -> out t = chansum (sigproc_of F) (p_nchan F) (start + t).
Proof. intros S F gulp start nsamps W R Hg. pose proof R as (R1 & R2 & R3). pose proof W as [? ? ? ? ?].
  destruct (S F gulp start nsamps collapse_skipback W R Hg) as (bl & E1 & E2); [unfold collapse_skipback; cbn; lia|].
  assert (E : pf_collapse_pipe F gulp start nsamps = collapse_pipe (sigproc_of F) (p_nchan F) gulp start nsamps)
    by (unfold pf_collapse_pipe, collapse_pipe; rewrite E1, E2; reflexivity).
  split; [exact E|]. rewrite E.
  apply (collapse_spec (sigproc_of F) (p_nchan F) (p_nstot F)); try lia; [reflexivity|apply sigproc_total; assumption]. Qed.

Lemma bandpass_same : PlanSpec -> forall F gulp start nsamps, wf F -> in_range F start nsamps -> 1 <= gulp ->
  pf_bandpass_pipe F gulp start nsamps = bandpass_pipe (sigproc_of F) (p_nchan F) gulp start nsamps /\
  exists out n, pf_bandpass_pipe F gulp start nsamps = Some (out, n) /\ n = nsamps /\
    forall c, 0 <= c < p_nchan F -> out c = chancol (sigproc_of F) (p_nchan F) start c (Z.to_nat nsamps).
Proof. intros S F gulp start nsamps W R Hg. pose proof R as (R1 & R2 & R3). pose proof W as [? ? ? ? ?].
  destruct (S F gulp start nsamps bandpass_skipback W R Hg) as (bl & E1 & E2); [unfold bandpass_skipback; cbn; lia|].
  assert (E : pf_bandpass_pipe F gulp start nsamps = bandpass_pipe (sigproc_of F) (p_nchan F) gulp start nsamps)
    by (unfold pf_bandpass_pipe, bandpass_pipe; rewrite E1, E2; reflexivity).
  split; [exact E|]. rewrite E.
  apply (bandpass_spec (sigproc_of F) (p_nchan F) (p_nstot F)); try lia; [reflexivity|apply sigproc_total; assumption]. Qed.

(** X (sigproc_of F) is the whole-file read, ravelled: sample t, channel c at t*nchan + c *)
Lemma sigproc_X F k : X (sigproc_of F) k = of_list (concat (pyslice (all_rows F) 0 (p_nstot F))) k.
Proof. unfold X. rewrite sigproc_flat. reflexivity. Qed.
