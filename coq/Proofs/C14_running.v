(** C14, running filter: index logic of stats.running_filter (pad sizes and slice offset regenerated from the source in
    Gen/C14_stats.v; NumPy's symmetric pad as the index map [sym]; the moving-window function as a section variable
    specified as "aggregate of the trailing [w] entries").  For EVERY width w >= 1: odd, even, larger than the data. *)
From Coq Require Import ZArith List Bool Lia ZifyBool.
Require Import SPP.Base.Rt SPP.Base.Iter SPP.Gen.C14_stats SPP.Model.C14_filters.
Import ListNotations.
Open Scope Z_scope.
Ltac Zify.zify_post_hook ::= Z.to_euclidean_division_equations.

(** * The pad sizes and the slice offset, as the source computes them *)
Lemma rf_pads w : 1 <= w ->
  rf_pad_left w = w / 2 /\ 0 <= rf_pad_left w /\ 0 <= rf_pad_right w /\
  rf_pad_left w + rf_pad_right w = w - 1 /\ rf_slice_start w = w - 1.
Proof. intro H. unfold rf_pad_left, rf_pad_right, rf_slice_start.
  destruct (w mod 2 =? 0) eqn:E; cbn [negb]; lia. Qed.

Lemma running_filter_len_eq n w : 1 <= w -> running_filter_len n w = n.
Proof. intro H. unfold running_filter_len, pad_len. destruct (rf_pads w H) as (_ & _ & _ & H1 & H2). lia. Qed.

(** * The symmetric reflection *)
Lemma sym_range n k : 1 <= n -> 0 <= sym n k < n.
Proof. intro H. unfold sym. cbv zeta. destruct (k mod (2 * n) <? n) eqn:E; lia. Qed.

Lemma sym_inside n k : 0 <= k < n -> sym n k = k.
Proof. intro H. unfold sym. cbv zeta. rewrite Z.mod_small by lia. destruct (k <? n) eqn:E; lia. Qed.

Lemma sym_period n k : 1 <= n -> sym n (k + 2 * n) = sym n k.
Proof. intro H. unfold sym. cbv zeta. replace (k + 2 * n) with (k + 1 * (2 * n)) by lia. rewrite Z.mod_add by lia. reflexivity. Qed.

(** mirror about the left edge (between positions -1 and 0, edge sample repeated) and about the right edge *)
Lemma sym_mirror_left n k : 1 <= n -> sym n (- 1 - k) = sym n k.
Proof. intro H. unfold sym. cbv zeta.
  assert (E : (- 1 - k) mod (2 * n) = 2 * n - 1 - k mod (2 * n)).
  { symmetry. apply Z.mod_unique with (q := - (k / (2 * n)) - 1); [left; lia|]. pose proof (Z.div_mod k (2 * n)). lia. }
  rewrite E. destruct (k mod (2 * n) <? n) eqn:?, (2 * n - 1 - k mod (2 * n) <? n) eqn:?; lia. Qed.

Lemma sym_mirror_right n k : 1 <= n -> sym n (2 * n - 1 - k) = sym n k.
Proof. intro H. replace (2 * n - 1 - k) with ((- 1 - k) + 2 * n) by lia. rewrite sym_period by lia. apply sym_mirror_left. lia. Qed.

Lemma sym_left n k : 0 <= k < n -> sym n (- 1 - k) = k.
Proof. intro H. rewrite sym_mirror_left by lia. apply sym_inside. lia. Qed.

Lemma sym_right n k : 0 <= k < n -> sym n (n + k) = n - 1 - k.
Proof. intro H. replace (n + k) with (2 * n - 1 - (n - 1 - k)) by lia. rewrite sym_mirror_right by lia. apply sym_inside. lia. Qed.

(** the padded array is the input in the middle *)
Lemma pad_sym_middle x n pl k : 0 <= k < n -> pad_sym x n pl (pl + k) = x k.
Proof. intro H. unfold pad_sym. replace (pl + k - pl) with k by lia. now rewrite sym_inside. Qed.

Section Running.
  Variable agg : list Z -> Z.
  (** bottleneck's move_mean / move_median (min_count = window): for t >= w-1 the aggregate of the trailing w entries *)
  Variable move : arr -> Z -> Z -> arr.
  Hypothesis move_spec : forall a len w t, 1 <= w -> w - 1 <= t < len -> move a len w t = agg (trailing a w t).

  Lemma running_filter_spec x n w : 1 <= n -> 1 <= w ->
    running_filter_len n w = n /\
    forall i, 0 <= i < n ->
      running_filter_model move x n w i = agg (centred_window x n w i) /\
      (* the moving function is only read where it is defined, inside the padded array *)
      w - 1 <= i + rf_slice_start w < pad_len n (rf_pad_left w) (rf_pad_right w) /\
      (* and every sample of the window is a sample of the input *)
      (forall j, 0 <= sym n (i - w / 2 + j) < n).
  Proof. intros Hn Hw. split; [apply running_filter_len_eq; assumption|]. intros i Hi.
    destruct (rf_pads w Hw) as (Hl & Hl0 & Hr0 & Hlr & Hs). split; [|split].
    - unfold running_filter_model. cbv zeta. rewrite move_spec by (unfold pad_len; lia).
      f_equal. unfold trailing, centred_window. apply map_ext_in. intros j Hj. unfold pad_sym. f_equal. f_equal. lia.
    - unfold pad_len. lia.
    - intro j. apply sym_range. lia. Qed.

  Lemma deredden_spec x n w i : 1 <= n -> 1 <= w -> 0 <= i < n ->
    deredden_model move x n w i = x i - agg (centred_window x n w i).
  Proof. intros Hn Hw Hi. unfold deredden_model, deredden_out.
    destruct (running_filter_spec x n w Hn Hw) as [_ H]. destruct (H i Hi) as [-> _]. reflexivity. Qed.
End Running.

(** for an odd width the window is symmetric about the sample; away from the edges no reflection is involved *)
Lemma centred_window_interior x n w i : 1 <= w -> w / 2 <= i -> i + (w - 1 - w / 2) < n ->
  centred_window x n w i = map (fun j => x (i - w / 2 + j)) (zrange w).
Proof. intros Hw Hl Hr. unfold centred_window. apply map_ext_in. intros j Hj. apply In_zrange in Hj.
  rewrite sym_inside by lia. reflexivity. Qed.

Lemma centred_window_length x n w i : length (centred_window x n w i) = Z.to_nat w.
Proof. unfold centred_window. rewrite map_length. apply zrange_length. Qed.

(** the trailing-window instance satisfies the hypothesis (non-vacuity) *)
Lemma move_trailing_spec agg : forall a len w t, 1 <= w -> w - 1 <= t < len -> move_trailing agg a len w t = agg (trailing a w t).
Proof. reflexivity. Qed.

(** what "reflected symmetrically at both ends" means: the series itself inside, mirrored about each edge with the edge
    sample repeated, and so on periodically (pads longer than the series) *)
Lemma sym_edges n : 1 <= n ->
  (forall k, 0 <= k < n -> sym n k = k) /\
  (forall k, 0 <= k < n -> sym n (- 1 - k) = k) /\
  (forall k, 0 <= k < n -> sym n (n + k) = n - 1 - k) /\
  (forall k, sym n (k + 2 * n) = sym n k) /\
  (forall k, 0 <= sym n k < n).
Proof. intro H. repeat split; intros; try apply sym_inside; try apply sym_left; try apply sym_right; try apply sym_period;
  try apply sym_range; try lia; apply sym_range; lia. Qed.
