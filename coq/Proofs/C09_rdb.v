(** C09 -- FilReader.read_dedisp_block delivers x[c][start + d_c + k] for ALL k < nsamps, for every integer
    delay vector, provided the sample loop sweeps the union of the channel windows.  The generic lemma is about
    [rdb_core]; the bridge instantiates it with the loop parameters regenerated from readers.py. *)
From Coq Require Import ZArith List Bool Lia ZifyBool.
Require Import SPP.Base.Rt SPP.Base.Iter SPP.Model.C09_Arr2 SPP.Model.C09_Spec SPP.Gen.C09 SPP.Model.C09_Rdb
  SPP.Proofs.C09_arr2.
Import ListNotations.
Open Scope Z_scope.

Lemma memz_In c l : memz c l = true <-> In c l.
Proof.
  unfold memz. rewrite existsb_exists. split.
  - intros [y [Hy E]]. apply Z.eqb_eq in E. now subst.
  - intro H. exists c. split; [exact H|apply Z.eqb_refl].
Qed.

Lemma memz_filter f n c : 0 <= c < n -> memz c (filter f (zrange n)) = f c.
Proof.
  intro Hc. destruct (f c) eqn:E.
  - apply memz_In. apply filter_In. split; [now apply In_zrange|exact E].
  - destruct (memz c (filter f (zrange n))) eqn:M; [|reflexivity].
    apply memz_In in M. apply filter_In in M. destruct M as [_ M]. congruence.
Qed.

Lemma memz_filter_out f n c : ~ (0 <= c < n) -> memz c (filter f (zrange n)) = false.
Proof.
  intro Hc. destruct (memz c (filter f (zrange n))) eqn:M; [|reflexivity].
  apply memz_In in M. apply filter_In in M. destruct M as [M _]. apply In_zrange in M. contradiction.
Qed.

Definition clampz (n z : Z) : Z := Z.max 0 (Z.min n z).

Section Sweep.
  Variables (x : arr2) (N nchans nsamps start first last : Z) (d : arr) (relevant : Z -> Z -> bool).
  Hypothesis Hnc : 1 <= nchans.
  Hypothesis Hns : 1 <= nsamps.
  Hypothesis Hrel : forall s c, relevant s c = (start + d c <=? s) && (s <? start + d c + nsamps).
  (** the sweep [first, last) lies in the file and covers every channel's window *)
  Hypothesis Hfirst : 0 <= first.
  Hypothesis Hlast : last <= N.
  Hypothesis Hcover : forall c, 0 <= c < nchans -> first <= start + d c /\ start + d c + nsamps <= last.

  Let inv (i : Z) (st : rdb_state) : Prop :=
    rs_pos st = first + i /\
    (forall c, 0 <= c < nchans -> rs_count st c = clampz nsamps (first + i - (start + d c))) /\
    (forall c k, 0 <= c < nchans -> 0 <= k < rs_count st c -> rs_data st c k = x c (start + d c + k)).

  Lemma rdb_step_inv i st : 0 <= i < last - first -> inv i st ->
    exists st', rdb_step false relevant (fun v => v) x N nchans nsamps (first + i) st = Some st' /\ inv (i + 1) st'.
  Proof.
    intros Hi [Hpos [Hcnt Hdat]]. unfold rdb_step. cbn [rdb_select]. cbv zeta.
    rewrite Hpos. replace ((first + i <? 0) || (N <=? first + i)) with false by lia.
    set (sel := filter (relevant (first + i)) (zrange nchans)).
    assert (Hsel : forall c, 0 <= c < nchans -> memz c sel = relevant (first + i) c) by (intros; now apply memz_filter).
    destruct (existsb (fun c => negb ((0 <=? rs_count st c) && (rs_count st c <? nsamps))) sel) eqn:Ex.
    { exfalso. apply existsb_exists in Ex. destruct Ex as [c [Hin Hc]].
      apply filter_In in Hin. destruct Hin as [Hin Hr]. apply In_zrange in Hin.
      rewrite Hrel in Hr. rewrite (Hcnt c Hin) in Hc. unfold clampz in Hc. lia. }
    eexists. split; [reflexivity|]. unfold inv. cbn [rs_pos rs_count rs_data]. split; [lia|]. split.
    - intros c Hc. rewrite (Hsel c Hc), Hrel, (Hcnt c Hc). unfold clampz.
      destruct ((start + d c <=? first + i) && (first + i <? start + d c + nsamps)) eqn:E; lia.
    - intros c k Hc Hk. rewrite (Hsel c Hc), Hrel in *. rewrite (Hcnt c Hc) in *. unfold clampz in *.
      destruct ((start + d c <=? first + i) && (first + i <? start + d c + nsamps)) eqn:E; cbn [andb].
      + destruct (Z.eqb_spec k (Z.max 0 (Z.min nsamps (first + i - (start + d c))))) as [->|Hne].
        * f_equal. lia.
        * apply Hdat; [exact Hc|]. rewrite (Hcnt c Hc). unfold clampz. lia.
      + apply Hdat; [exact Hc|]. rewrite (Hcnt c Hc). unfold clampz. lia.
  Qed.

  Lemma rdb_core_sweep :
    exists out, rdb_core false false first first last relevant (fun v => v) x N nchans nsamps = Some out /\
      forall c k, 0 <= c < nchans -> 0 <= k < nsamps -> out c k = x c (start + d c + k).
  Proof.
    unfold rdb_core. pose proof (Hcover 0 ltac:(lia)) as H0.
    replace ((first <? 0) || (N <=? first)) with false by lia.
    destruct (iter_opt_inv inv (Z.to_nat (last - first))
                (fun i st => rdb_step false relevant (fun v => v) x N nchans nsamps (first + i) st)
                (mk_rdb (fun _ _ => 0) zeros first)) as [st [E [Hpos [Hcnt Hdat]]]].
    - unfold inv. cbn [rs_pos rs_count rs_data]. split; [lia|]. split.
      + intros c Hc. destruct (Hcover c Hc). unfold zeros, clampz. lia.
      + intros c k _ Hk. unfold zeros in Hk. lia.
    - intros i t Hi Ht. apply rdb_step_inv; [lia|exact Ht].
    - rewrite E. exists (rs_data st). split; [reflexivity|].
      intros c k Hc Hk. apply Hdat; [exact Hc|]. rewrite (Hcnt c Hc). destruct (Hcover c Hc). unfold clampz. lia.
  Qed.
End Sweep.

(** the range test of read_dedisp_block *)
Lemma rdb_out_of_range_false d nchans start nsamps N :
  (forall c, 0 <= c < nchans -> 0 <= start + d c /\ start + d c + nsamps <= N) ->
  rdb_out_of_range d nchans start nsamps N = false.
Proof.
  intro H. unfold rdb_out_of_range, rdb_max_sample, rdb_min_sample.
  apply orb_false_iff. split.
  - destruct (existsb _ _) eqn:E; [|reflexivity]. apply existsb_exists in E. destruct E as [c [Hin Hc]].
    apply In_zrange in Hin. destruct (H c Hin). lia.
  - destruct (existsb _ _) eqn:E; [|reflexivity]. apply existsb_exists in E. destruct E as [c [Hin Hc]].
    apply In_zrange in Hin. destruct (H c Hin). lia.
Qed.

Lemma rdb_out_of_range_true d nchans start nsamps N c :
  0 <= c < nchans -> start + d c < 0 \/ N < start + d c + nsamps ->
  rdb_out_of_range d nchans start nsamps N = true.
Proof.
  intros Hc H. unfold rdb_out_of_range, rdb_max_sample, rdb_min_sample. apply orb_true_iff.
  destruct H as [H|H]; [left|right]; apply existsb_exists; exists c; (split; [now apply In_zrange|lia]).
Qed.

Lemma rdb_run_range_error x N nchans d start nsamps c :
  0 <= c < nchans -> start + d c < 0 \/ N < start + d c + nsamps -> rdb_run x N nchans d start nsamps = None.
Proof.
  intros Hc H. unfold rdb_run, rdb_core. now rewrite (rdb_out_of_range_true d nchans start nsamps N c Hc H).
Qed.

(** the bridge: with the loop parameters regenerated from readers.py the sweep covers every channel window.
    (This is the lemma that does not hold for a loop that sweeps only [start, start + nsamps).) *)
Lemma rdb_run_all_samples x N nchans d start nsamps : 1 <= nchans -> 1 <= nsamps ->
  (forall c, 0 <= c < nchans -> 0 <= start + d c /\ start + d c + nsamps <= N) ->
  exists out, rdb_run x N nchans d start nsamps = Some out /\
    forall c k, 0 <= c < nchans -> 0 <= k < nsamps -> out c k = spec_rdb x start d c k.
Proof.
  intros Hnc Hns Hin. unfold rdb_run. rewrite (rdb_out_of_range_false _ _ _ _ _ Hin).
  unfold rdb_hull, rdb_seek, rdb_loop_lo, rdb_loop_hi, rdb_first_sample, rdb_last_sample.
  destruct (amin_spec nchans (fun c => rdb_min_sample d nchans start nsamps c) Hnc) as [Hmin [cm [Hcm Em]]].
  destruct (amax_spec nchans (fun c => rdb_max_sample d nchans start nsamps c) Hnc) as [Hmax [cx [Hcx Ex]]].
  set (first := amin nchans (fun c => rdb_min_sample d nchans start nsamps c)) in *.
  set (last := amax nchans (fun c => rdb_max_sample d nchans start nsamps c)) in *.
  unfold rdb_max_sample, rdb_min_sample in *.
  apply (rdb_core_sweep x N nchans nsamps start first last d); try assumption.
  - intros s c. unfold rdb_relevant, rdb_max_sample, rdb_min_sample. lia.
  - destruct (Hin cm Hcm). lia.
  - destruct (Hin cx Hcx). lia.
  - intros c Hc. specialize (Hmin c Hc). specialize (Hmax c Hc). cbv beta in *. lia.
Qed.

(** the loop form of the pinned tree leaves the tail of every delayed channel unwritten (zero) *)
Lemma rdb_pinned_refuted :
  exists x N nchans d start nsamps out,
    (forall c, 0 <= c < nchans -> 0 <= start + d c /\ start + d c + nsamps <= N) /\
    rdb_pinned x N nchans d start nsamps = Some out /\
    exists c k, 0 <= c < nchans /\ 0 <= k < nsamps /\ out c k <> spec_rdb x start d c k.
Proof.
  exists (fun c p => 10 * c + p + 1), 8, 2, (fun c => c), 1, 3.
  eexists. split; [intros c Hc; assert (c = 0 \/ c = 1) as [->| ->] by lia; lia|].
  split; [vm_compute; reflexivity|].
  exists 1, 2. vm_compute. repeat split; congruence.
Qed.
