(** C15 -- elementwise relations between arrays ("A' is phi of A at every index") and how the array operations
    of Model/C15_np.v transport them.  Used for the equivariance theorems: phi = x -> a x + b on the data,
    phi = x -> |a| x on the scale estimates. *)
From Coq Require Import ZArith List Bool QArith Qcanon Qcabs Lia.
Require Import SPP.Base.Rt SPP.Base.Iter SPP.Model.C15_np SPP.Proofs.C15_lib SPP.Proofs.C15_order.
Import ListNotations.
Open Scope Z_scope.

Definition rel_of (phi : Qc -> Qc) (A A' : nd) : Prop :=
  shape A' = shape A /\ forall idx, get A' idx = phi (get A idx).

Lemma rel_of_eq A A' : nd_eq A' A -> rel_of (fun x => x) A A'.
Proof. intros [H1 H2]. split; assumption. Qed.
Lemma rel_of_ext phi psi A A' : (forall x, phi x = psi x) -> rel_of phi A A' -> rel_of psi A A'.
Proof. intros E [H1 H2]. split; [exact H1|]. intro. now rewrite H2, E. Qed.
Lemma rel_of_map phi A : rel_of phi A (nd_map phi A).
Proof. split; reflexivity. Qed.

Lemma rel_lane phi A A' k idx : rel_of phi A A' -> lane A' k idx = map phi (lane A k idx).
Proof. intros [Hs Hg]. unfold lane. rewrite Hs, map_map. apply map_ext. intro. apply Hg. Qed.
Lemma rel_ravel phi A A' : rel_of phi A A' -> ravel A' = map phi (ravel A).
Proof. intros [Hs Hg]. unfold ravel. rewrite Hs, map_map. apply map_ext. intro. apply Hg. Qed.
Lemma rel_ndim phi A A' : rel_of phi A A' -> ndim A' = ndim A.
Proof. intros [Hs _]. unfold ndim. now rewrite Hs. Qed.
Lemma rel_norm_axis phi A A' k : rel_of phi A A' -> norm_axis A' k = norm_axis A k.
Proof. intro H. unfold norm_axis. now rewrite (rel_ndim _ _ _ H). Qed.

(** the lanes (or the flattened array) that a reduction over [axis] reads are not empty *)
Definition lanes_nonempty (A : nd) (axis : option Z) : Prop :=
  match axis with None => ravel A <> nil | Some k => forall idx, lane A (norm_axis A k) idx <> nil end.

Lemma lane_nonempty_dim A k : 1 <= nth k (shape A) 0 -> forall idx, lane A k idx <> nil.
Proof. intros H idx E. apply (f_equal (@length _)) in E. unfold lane in E. rewrite map_length, zrange_length in E. cbn in E. lia. Qed.

(** reductions: [f] commutes with [phi] on non-empty lists *)
Lemma rel_reduce_ne f phi psi A A' axis kd :
  (forall l, l <> nil -> f (map phi l) = psi (f l)) -> lanes_nonempty A axis -> rel_of phi A A' ->
  rel_of psi (np_reduce f A axis kd) (np_reduce f A' axis kd).
Proof. intros Hf Hne H. pose proof H as [Hs Hg]. destruct axis as [k|]; cbn [np_reduce lanes_nonempty] in *.
  - unfold reduce_axis. rewrite (rel_norm_axis _ _ _ k H).
    destruct kd; (split; cbn [shape get]; [now rewrite Hs|]); intro idx; rewrite (rel_lane _ _ _ _ _ H); apply Hf, Hne.
  - unfold reduce_all. split; cbn [shape get]; [now rewrite Hs|]. intro. rewrite (rel_ravel _ _ _ H). now apply Hf. Qed.

(** ... or on every list *)
Lemma rel_reduce f phi psi A A' axis kd :
  (forall l, f (map phi l) = psi (f l)) -> rel_of phi A A' ->
  rel_of psi (np_reduce f A axis kd) (np_reduce f A' axis kd).
Proof. intros Hf H. pose proof H as [Hs Hg]. destruct axis as [k|]; cbn [np_reduce] in *.
  - unfold reduce_axis. rewrite (rel_norm_axis _ _ _ k H).
    destruct kd; (split; cbn [shape get]; [now rewrite Hs|]); intro idx; rewrite (rel_lane _ _ _ _ _ H); apply Hf.
  - unfold reduce_all. split; cbn [shape get]; [now rewrite Hs|]. intro. rewrite (rel_ravel _ _ _ H). now apply Hf. Qed.

Lemma rel_reduce_axis f phi psi A A' k kd :
  (forall l, f (map phi l) = psi (f l)) -> rel_of phi A A' -> rel_of psi (reduce_axis f A k kd) (reduce_axis f A' k kd).
Proof. intros Hf H. pose proof H as [Hs Hg]. unfold reduce_axis.
  destruct kd; (split; cbn [shape get]; [now rewrite Hs|]); intro idx; rewrite (rel_lane _ _ _ _ _ H); apply Hf. Qed.

(** every element of a reduction is [f] of one list (a lane, or the flattened array), the same list for every [f] *)
Lemma reduce_witness phi A A' axis kd r : rel_of phi A A' -> lanes_nonempty A axis ->
  exists L, L <> nil /\ (forall f, get (np_reduce f A axis kd) r = f L) /\ (forall f, get (np_reduce f A' axis kd) r = f (map phi L)).
Proof. intros H Hne. destruct axis as [k|]; cbn [np_reduce lanes_nonempty] in *.
  - unfold reduce_axis. rewrite (rel_norm_axis _ _ _ k H). destruct kd; cbn [get].
    + exists (lane A (norm_axis A k) r). (split; [apply Hne|split; intro f; [reflexivity|now rewrite (rel_lane _ _ _ _ _ H)]]).
    + exists (lane A (norm_axis A k) (insert_nth (norm_axis A k) 0 r)).
      (split; [apply Hne|split; intro f; [reflexivity|now rewrite (rel_lane _ _ _ _ _ H)]]).
  - exists (ravel A). (split; [exact Hne|split; intro f; cbn; [reflexivity|now rewrite (rel_ravel _ _ _ H)]]). Qed.
Lemma reduce_shape_rel phi f g A A' axis kd : rel_of phi A A' -> shape (np_reduce f A' axis kd) = shape (np_reduce g A axis kd).
Proof. intro H. pose proof H as [Hs _]. destruct axis as [k|]; cbn [np_reduce].
  - unfold reduce_axis. rewrite (rel_norm_axis _ _ _ k H). destruct kd; cbn [shape]; now rewrite Hs.
  - unfold reduce_all; cbn [shape]. now rewrite Hs. Qed.

Lemma rel_map1 g phi psi A A' : (forall x, g (phi x) = psi (g x)) -> rel_of phi A A' -> rel_of psi (nd_map g A) (nd_map g A').
Proof. intros Hg [Hs Hx]. split; cbn [shape get nd_map]; [exact Hs|]. intro. now rewrite Hx, Hg. Qed.

Lemma rel_map2 op phi psi chi A A' B B' : (forall x y, op (phi x) (psi y) = chi (op x y)) ->
  rel_of phi A A' -> rel_of psi B B' -> rel_of chi (nd_map2 op A B) (nd_map2 op A' B').
Proof. intros Hop [Hs Hx] [Hs' Hy]. split; cbn [shape get nd_map2]; [now rewrite Hs, Hs'|].
  intro. now rewrite Hs, Hs', Hx, Hy, Hop. Qed.

Lemma rel_map2_gen op op' phi psi chi A A' B B' : (forall x y, op' (phi x) (psi y) = chi (op x y)) ->
  rel_of phi A A' -> rel_of psi B B' -> rel_of chi (nd_map2 op A B) (nd_map2 op' A' B').
Proof. intros Hop [Hs Hx] [Hs' Hy]. split; cbn [shape get nd_map2]; [now rewrite Hs, Hs'|].
  intro. now rewrite Hs, Hs', Hx, Hy, Hop. Qed.

Lemma rel_map3 op phi psi chi xi A A' B B' C C' : (forall x y z, op (phi x) (psi y) (chi z) = xi (op x y z)) ->
  rel_of phi A A' -> rel_of psi B B' -> rel_of chi C C' -> rel_of xi (nd_map3 op A B C) (nd_map3 op A' B' C').
Proof. intros Hop [Hs Hx] [Hs' Hy] [Hs'' Hz]. split; cbn [shape get nd_map3]; [now rewrite Hs, Hs', Hs''|].
  intro. now rewrite Hs, Hs', Hs'', Hx, Hy, Hz, Hop. Qed.

Lemma rel_scalar phi x : rel_of phi (scalar x) (scalar (phi x)).
Proof. split; reflexivity. Qed.
Lemma rel_scalar_id x : rel_of (fun y => y) (scalar x) (scalar x).
Proof. split; reflexivity. Qed.

Lemma rel_any phi A A' : (forall x, qtrue (phi x) = qtrue x) -> rel_of phi A A' -> np_any A' = np_any A.
Proof. intros Hq H. unfold np_any. rewrite (rel_ravel _ _ _ H). induction (ravel A) as [|x l IH]; cbn; [reflexivity|].
  now rewrite Hq, IH. Qed.

Lemma rel_squeeze phi A A' : rel_of phi A A' -> rel_of phi (np_squeeze A) (np_squeeze A').
Proof. intros [Hs Hg]. split; cbn [shape get np_squeeze]; [now rewrite Hs|]. intro. now rewrite Hs, Hg. Qed.
Lemma rel_squeeze_axis phi A A' ax : rel_of phi A A' -> rel_of phi (np_squeeze_axis A ax) (np_squeeze_axis A' ax).
Proof. intro H. destruct ax as [k|]; cbn [np_squeeze_axis]; [|now apply rel_squeeze].
  rewrite (rel_norm_axis _ _ _ k H). destruct H as [Hs Hg]. split; cbn [shape get]; [now rewrite Hs|]. intro. now rewrite Hg. Qed.
Lemma rel_index0 phi A A' i : rel_of phi A A' -> rel_of phi (np_index0 A i) (np_index0 A' i).
Proof. intros [Hs Hg]. split; cbn [shape get np_index0]; [now rewrite Hs|]. intro. now rewrite Hg. Qed.
Lemma rel_first phi A A' : rel_of phi A A' -> rel_of phi (np_first A) (np_first A').
Proof. intros [Hs Hg]. split; [reflexivity|]. intro. cbn. unfold item. now rewrite Hs, Hg. Qed.
Lemma rel_expand_dims phi A A' k : rel_of phi A A' ->
  match np_expand_dims A k, np_expand_dims A' k with
  | Some B, Some B' => rel_of phi B B' | None, None => True | _, _ => False end.
Proof. intro H. unfold np_expand_dims. rewrite (rel_ndim _ _ _ H). destruct H as [Hs Hg].
  destruct ((k <? - (ndim A + 1)) || (ndim A + 1 <=? k)); [exact I|].
  split; cbn [shape get]; [now rewrite Hs|]. intro. now rewrite Hg. Qed.
Lemma rel_expand_dims_range phi A A' n : rel_of phi A A' ->
  match np_expand_dims_range A n, np_expand_dims_range A' n with
  | Some B, Some B' => rel_of phi B B' | None, None => True | _, _ => False end.
Proof. intros [Hs Hg]. unfold np_expand_dims_range. split; cbn [shape get]; [now rewrite Hs|]. intro. now rewrite Hg. Qed.
Lemma rel_moveaxis_front phi A A' k : rel_of phi A A' -> rel_of phi (np_moveaxis_front A k) (np_moveaxis_front A' k).
Proof. intros [Hs Hg]. split; cbn [shape get np_moveaxis_front]; [now rewrite Hs|]. intro. now rewrite Hg. Qed.

Section Memo.
  Variable memo : nd -> nd.
  Hypothesis Hm : memo_ok memo.
  Lemma rel_memo phi A A' : rel_of phi A A' -> rel_of phi (memo A) (memo A').
  Proof. intros [Hs Hg]. destruct (Hm A) as [S1 G1], (Hm A') as [S2 G2]. split; [congruence|]. intro. now rewrite G2, G1, Hg. Qed.
  Lemma rel_memo_l phi A A' : rel_of phi A A' -> rel_of phi (memo A) A'.
  Proof. intros [Hs Hg]. destruct (Hm A) as [S1 G1]. split; [congruence|]. intro. now rewrite G1, Hg. Qed.
End Memo.

(** * masked arrays *)
Definition orel (phi : Qc -> Qc) (O O' : ndo) : Prop :=
  rel_of (fun x => x) (omask O) (omask O') /\ rel_of phi (oval O) (oval O').

Lemma keep_map phi l : keep (map (option_map phi) l) = map phi (keep l).
Proof. unfold keep. induction l as [|[x|] l IH]; cbn [map option_map flat_map app]; [reflexivity| |]; now rewrite IH. Qed.

Lemma orel_olane phi O O' k idx : orel phi O O' -> olane O' k idx = map (option_map phi) (olane O k idx).
Proof. intros [[Hsm Hgm] [Hsv Hgv]]. unfold olane. rewrite Hsv, map_map. apply map_ext. intro j.
  rewrite Hgm, Hgv. now destruct (qtrue _). Qed.
Lemma orel_oravel phi O O' : orel phi O O' -> oravel O' = map (option_map phi) (oravel O).
Proof. intros [[Hsm Hgm] [Hsv Hgv]]. unfold oravel. rewrite Hsv, map_map. apply map_ext. intro j.
  rewrite Hgm, Hgv. now destruct (qtrue _). Qed.

Lemma rel_oreduce f phi psi O O' axis kd :
  (forall l, f (map (option_map phi) l) = psi (f l)) -> orel phi O O' ->
  rel_of psi (np_oreduce f O axis kd) (np_oreduce f O' axis kd).
Proof. intros Hf H. pose proof H as [[Hsm Hgm] [Hsv Hgv]]. unfold np_oreduce. rewrite Hsv.
  destruct axis as [k|].
  - rewrite (rel_norm_axis _ _ _ k (proj2 H)).
    destruct kd; (split; cbn [shape get]; [reflexivity|]); intro idx; rewrite (orel_olane _ _ _ _ _ H); apply Hf.
  - split; cbn [shape get]; [reflexivity|]. intro. rewrite (orel_oravel _ _ _ H). apply Hf. Qed.

Lemma rel_where_nan phi C C' X X' : rel_of (fun x => x) C C' -> rel_of phi X X' -> orel phi (np_where_nan C X) (np_where_nan C' X').
Proof. intros HC HX. split; cbn [omask oval np_where_nan].
  - apply (rel_map2 _ (fun x => x) phi (fun x => x)); [reflexivity|exact HC|exact HX].
  - apply (rel_map2 _ (fun x => x) phi phi); [reflexivity|exact HC|exact HX]. Qed.

Lemma nanmedian1_scale c l : (Q2Qc 0 < c)%Qc -> nanmedian1 (map (option_map (scale c)) l) = scale c (nanmedian1 l).
Proof. intro Hc. unfold nanmedian1. rewrite keep_map. now apply median1_scale. Qed.
Lemma nanmean1_scale c l : nanmean1 (map (option_map (scale c)) l) = scale c (nanmean1 l).
Proof. unfold nanmean1. rewrite keep_map. apply mean1_scale. Qed.

(** one side of _scale_doublemad: the MAD of the deviations selected by a mask [C], with its mean fallback *)
Definition dm_side (np_sqrt : Qc -> Qc) (np_pi : Qc) (memo : nd -> nd) (axis : option Z) (C X : nd) : nd :=
  let norm := qdec 6744897501960817 16 in
  let norm_aad := np_sqrt (qz 2 / np_pi)%Qc in
  let d := mk_ndo (memo (omask (np_where_nan C X))) (memo (oval (np_where_nan C X))) in
  let m := memo (np_div (np_oreduce nanmedian1 d axis true) (scalar norm)) in
  memo (np_where (np_isclose0 m) (np_div (np_oreduce nanmean1 d axis true) (scalar norm_aad)) m).

(** * the elementwise facts used with the lemmas above *)
Lemma qtrue_qbool b : qtrue (qbool b) = b.
Proof. destruct b; reflexivity. Qed.
Lemma scale_eq0 c x : c <> Q2Qc 0 -> Qceqb (scale c x) (qz 0) = Qceqb x (qz 0).
Proof. intro Hc. destruct (Qceqb x (qz 0)) eqn:E.
  - apply Qceqb_iff in E. subst x. apply Qceqb_iff. apply scale_0.
  - destruct (Qceqb (scale c x) (qz 0)) eqn:E'; [|reflexivity]. apply Qceqb_iff in E'. unfold scale in E'.
    rewrite qz0 in E'. apply Qcmult_integral in E'. destruct E' as [E'|E']; [contradiction|].
    subst x. rewrite <- qz0 in E. unfold Qceqb in E. rewrite Qeq_bool_refl in E. discriminate. Qed.
