(** C09 -- the regenerated 2-D kernels (Gen/C09.v) compute the rotation / valid window / DM-time rows for
    EVERY integer shift vector, number of rows and number of columns. *)
From Coq Require Import ZArith List Bool Lia ZifyBool.
Require Import SPP.Base.Rt SPP.Base.Iter SPP.Model.C09_Arr2 SPP.Model.C09_Spec SPP.Gen.C09 SPP.Proofs.C09_arr2.
Import ListNotations.
Open Scope Z_scope.

Ltac with_loop P :=
  match goal with |- context [iter_opt ?n ?b ?s0] => destruct (iter_opt_inv P n b s0) as [res [Eloop Hinv]] end.

(** ---- roll_block ------------------------------------------------------------------------------ *)
Lemma roll_block_spec junk x nr nc s : 0 <= nr -> 1 <= nc ->
  exists res, roll_block_run junk x nr nc s nr = Some res /\
    forall r c, 0 <= r < nr -> 0 <= c < nc -> res r c = x r ((c - s r) mod nc).
Proof.
  intros Hr Hc. unfold roll_block_run. rewrite Z.eqb_refl. cbn [negb]. cbv zeta.
  with_loop (fun i (res : arr2) => forall r c, 0 <= r < i -> 0 <= c < nc -> res r c = x r ((c - s r) mod nc)).
  - intros; lia.
  - intros i t Hi P. pose proof (Z.mod_pos_bound (s i) nc ltac:(lia)) as Hb.
    destruct (s i mod nc =? 0) eqn:E0.
    + destruct (set_row_some t nc i (row2 x nc i)) as [t' [E1 H1]]; [lia|reflexivity|].
      rewrite E1. exists t'. split; [reflexivity|].
      intros r c Hr' Hc'. rewrite H1. destruct (Z.eqb_spec r i) as [->|Hne].
      * cbn [andb]. replace ((0 <=? c) && (c <? nc)) with true by lia. cbn [row2 snd].
        rewrite rot_index by lia. replace (c <? s i mod nc) with false by lia. f_equal; lia.
      * cbn [andb]. apply P; lia.
    + rewrite slice_row_spec by lia. rewrite set_slice_row_spec by (cbn [fst]; lia).
      rewrite slice_row_spec by lia. rewrite set_slice_row_spec by (cbn [fst]; lia).
      eexists. split; [reflexivity|].
      intros r c Hr' Hc'. cbv beta. cbn [snd]. destruct (Z.eqb_spec r i) as [->|Hne].
      * rewrite rot_index by lia. cbn [andb].
        destruct (c <? s i mod nc) eqn:E1.
        -- replace (0 <=? c) with true by lia. cbn [andb]. f_equal; lia.
        -- replace (0 <=? c) with true by lia. cbn [andb].
           replace (s i mod nc <=? c) with true by lia. replace (c <? nc) with true by lia. cbn [andb]. f_equal; lia.
      * cbn [andb]. apply P; lia.
  - rewrite Eloop. exists res. split; [reflexivity|]. intros r c Hr' Hc'. apply Hinv; lia.
Qed.

Lemma roll_block_size_error junk x nr nc s ssize : ssize <> nr -> roll_block_run junk x nr nc s ssize = None.
Proof. intro H. unfold roll_block_run. now replace (ssize =? nr) with false by lia. Qed.

Lemma roll_block_shape_eq x nr nc s ssize : roll_block_shape x nr nc s ssize = (nr, nc).
Proof. reflexivity. Qed.

(** ---- roll_block_valid ----------------------------------------------------------------------- *)
Lemma roll_block_valid_shape_eq x nr nc s :
  roll_block_valid_shape x nr nc s nr = (nr, nc + Z.min 0 (amin nr s) - Z.max 0 (amax nr s)).
Proof. unfold roll_block_valid_shape. cbv zeta. f_equal. Qed.

Lemma roll_block_valid_error junk x nr nc s :
  nc + Z.min 0 (amin nr s) - Z.max 0 (amax nr s) <= 0 -> roll_block_valid_run junk x nr nc s nr = None.
Proof.
  intro H. unfold roll_block_valid_run. rewrite Z.eqb_refl. cbn [negb]. cbv zeta.
  now replace (nc + Z.min 0 (amin nr s) - Z.max 0 (amax nr s) <=? 0) with true by lia.
Qed.

Lemma roll_block_valid_spec junk x nr nc s : 1 <= nr ->
  0 < nc + Z.min 0 (amin nr s) - Z.max 0 (amax nr s) ->
  exists res, roll_block_valid_run junk x nr nc s nr = Some res /\
    forall r t, 0 <= r < nr -> 0 <= t < nc + Z.min 0 (amin nr s) - Z.max 0 (amax nr s) ->
      res r t = x r (t + Z.max 0 (amax nr s) - s r).
Proof.
  intros Hr HL. unfold roll_block_valid_run. rewrite Z.eqb_refl. cbn [negb]. cbv zeta.
  replace (nc + Z.min 0 (amin nr s) - Z.max 0 (amax nr s) <=? 0) with false by lia.
  destruct (amax_spec nr s Hr) as [Hmax _]. destruct (amin_spec nr s Hr) as [Hmin _].
  set (maxp := Z.max 0 (amax nr s)) in *. set (minn := Z.min 0 (amin nr s)) in *.
  with_loop (fun i (res : arr2) => forall r t, 0 <= r < i -> 0 <= t < nc + minn - maxp -> res r t = x r (t + maxp - s r)).
  - intros; lia.
  - intros i t Hi P. specialize (Hmax i ltac:(lia)). specialize (Hmin i ltac:(lia)).
    rewrite slice_row_spec by lia. rewrite set_slice_row_spec by (cbn [fst]; lia).
    eexists. split; [reflexivity|].
    intros r c Hr' Hc'. cbv beta. cbn [snd]. destruct (Z.eqb_spec r i) as [->|Hne].
    + cbn [andb]. replace ((0 <=? c) && (c <? nc + minn - maxp)) with true by lia. f_equal; lia.
    + cbn [andb]. apply P; lia.
  - rewrite Eloop. exists res. split; [reflexivity|]. intros r c Hr' Hc'. apply Hinv; lia.
Qed.

(** ---- dmt_block ------------------------------------------------------------------------------- *)
Lemma dmt_block_spec junk jc x nr nc D nd : 0 <= nd -> 0 <= nr -> 1 <= nc ->
  exists res, dmt_block_run junk jc x nr nc D nd nr = Some res /\
    forall i t, 0 <= i < nd -> 0 <= t < nc -> res i t = sum_n (Z.to_nat nr) (fun c => x c ((t - D i c) mod nc)).
Proof.
  intros Hd Hr Hc. unfold dmt_block_run. rewrite Z.eqb_refl. cbn [negb]. cbv zeta.
  with_loop (fun k (res : arr2) => forall i t, 0 <= i < k -> 0 <= t < nc ->
               res i t = sum_n (Z.to_nat nr) (fun c => x c ((t - D i c) mod nc))).
  - intros; lia.
  - intros k t Hk P.
    destruct (roll_block_spec (jc k) x nr nc (D k) Hr Hc) as [tmp [Et Ht]]. rewrite Et.
    rewrite roll_block_shape_eq.
    destruct (set_row_some t nc k (sum_axis0 (nr, nc) tmp)) as [t' [E1 H1]]; [lia|reflexivity|].
    rewrite E1. exists t'. split; [reflexivity|].
    intros i c Hi Hc'. rewrite H1. destruct (Z.eqb_spec i k) as [->|Hne].
    + cbn [andb]. replace ((0 <=? c) && (c <? nc)) with true by lia. cbn [sum_axis0 snd fst].
      apply sum_n_ext. intros r Hr'. apply Ht; lia.
    + cbn [andb]. apply P; lia.
  - rewrite Eloop. exists res. split; [reflexivity|]. intros. apply Hinv; lia.
Qed.

(** ---- the streamed kernel (Gen/Kernels.v), kernel level only: plan and offsets are C06 ------------ *)
Require Import SPP.Gen.Kernels.

Lemma dedisperse_kernel_spec x out0 d maxdelay nchans nsamps index : 0 <= nchans ->
  forall k, dedisperse_run x out0 d maxdelay nchans nsamps index k =
    out0 k + if (index <=? k) && (k <? index + Z.of_nat (Z.to_nat (nsamps - maxdelay)))
             then sum_n (Z.to_nat nchans) (fun c => x (nchans * (k - index + d c) + c)) else 0.
Proof.
  intros Hc. unfold dedisperse_run. cbv zeta.
  set (N := Z.to_nat (nsamps - maxdelay)).
  assert (Inner : forall isamp (o : arr) k,
     iter (Z.to_nat nchans) (fun ichan o => upd o (index + isamp) (o (index + isamp) + x (nchans * (isamp + d ichan) + ichan))) o k
     = o k + if k =? index + isamp then sum_n (Z.to_nat nchans) (fun c => x (nchans * (isamp + d c) + c)) else 0).
  { intros isamp o k.
    rewrite (iter_accum (Z.to_nat nchans) (fun _ => index + isamp) (fun ichan => x (nchans * (isamp + d ichan) + ichan)) o k).
    f_equal. destruct (k =? index + isamp) eqn:E.
    - now rewrite <- sumif_true.
    - apply sumif_false. intros; reflexivity. }
  induction N as [|m IH]; intro k; cbn [iter].
  - replace ((index <=? k) && (k <? index + Z.of_nat 0)) with false by lia. lia.
  - rewrite Inner. rewrite IH.
    destruct (k =? index + Z.of_nat m) eqn:E.
    + replace ((index <=? k) && (k <? index + Z.of_nat m)) with false by lia.
      replace ((index <=? k) && (k <? index + Z.of_nat (S m))) with true by lia.
      replace (k - index) with (Z.of_nat m) by lia. lia.
    + replace ((index <=? k) && (k <? index + Z.of_nat (S m))) with ((index <=? k) && (k <? index + Z.of_nat m)) by lia. lia.
Qed.
