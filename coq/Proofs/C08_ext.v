(** C08, extension: (1) the DM recorded by the input is carried by every product that does not dedisperse (header dm, and the
    dm attribute of blocks); (2) TimeSeries.normalise / apply_boxcar / deredden and BaseBlock.normalise hand the header on
    unchanged; (3) dispersion delays of either sign in Filterbank.dedisperse / subband (referred to the earliest channel);
    (4) FilterbankBlock.dedisperse(only_valid_samples=True): the columns kept by kernels.roll_block_valid; (5) a sub-range of a
    set of two contiguous files.  Subjects: Gen/C08.v (regenerated), Model/C08_spec.v (fileset: hand model). *)
From Coq Require Import ZArith QArith Qround Qabs Qminmax Qfield Lqa String List Bool Lia ZifyBool.
Require Import SPP.Model.C08_rt SPP.Model.C08_spec SPP.Gen.C08 SPP.Proofs.C08_lib SPP.Proofs.C08_hdr.
Import ListNotations.
Open Scope Z_scope.

Ltac depth_cases := repeat match goal with |- context [Z.eqb ?a ?b] => destruct (Z.eqb a b) end.
Ltac conjs := repeat match goal with |- _ /\ _ => split end.
Ltac dm_site := intros; cbv [prep_outfile]; depth_cases; hdr_eval; reflexivity.

(** ---- (1) the input's DM is carried ---------------------------------------------------------------------- *)
Lemma dm_carried_readers : forall h,
  (forall start nsamps dm, h_dm (hdr_read_dedisp_block h start nsamps dm) == h_dm h)%Q /\
  (forall start nsamps b, h_dm (hdr_bandpass h start nsamps b) == h_dm h)%Q.
Proof. intro h. split; intros; [unfold hdr_read_dedisp_block, upd_read_dedisp_block | unfold hdr_bandpass, upd_bandpass]; dm_site. Qed.

Lemma dm_carried_files : forall h,
  (forall start, h_dm (hdr_invert_freq h start) == h_dm h)%Q /\
  (forall start, h_dm (hdr_apply_channel_mask h start) == h_dm h)%Q /\
  (forall tf ff start, h_dm (hdr_downsample h tf ff start) == h_dm h)%Q /\
  (forall start nsamps, h_dm (hdr_extract_samps h start nsamps) == h_dm h)%Q /\
  (forall chan start, h_dm (hdr_extract_chans h chan start) == h_dm h)%Q /\
  (forall chanstart cps batch_start i start, h_dm (hdr_extract_bands h chanstart cps batch_start i start) == h_dm h)%Q /\
  (forall nbits_out start, h_dm (hdr_requantize h nbits_out start) == h_dm h)%Q /\
  (forall start, h_dm (hdr_remove_zerodm h start) == h_dm h)%Q.
Proof.
  intro h. conjs; intros.
  - unfold hdr_invert_freq, out_invert_freq, upd_invert_freq. dm_site.
  - unfold hdr_apply_channel_mask, out_apply_channel_mask, upd_apply_channel_mask. dm_site.
  - unfold hdr_downsample, out_downsample, upd_downsample. dm_site.
  - unfold hdr_extract_samps, out_extract_samps, upd_extract_samps. dm_site.
  - unfold hdr_extract_chans, out_extract_chans, upd_extract_chans. dm_site.
  - unfold hdr_extract_bands, out_extract_bands, upd_extract_bands. dm_site.
  - unfold hdr_requantize, out_requantize, upd_requantize. dm_site.
  - unfold hdr_remove_zerodm, out_remove_zerodm, upd_remove_zerodm. dm_site.
Qed.

Lemma dm_carried_blocks : forall h d,
  (forall n off, h_dm (hdr_block_pad_samples h n off) == h_dm h)%Q /\
  (forall ff tf, h_dm (hdr_block_downsample h ff tf d) == h_dm h /\ cdm_block_downsample h ff tf d == d)%Q /\
  (h_dm (hdr_block_normalise h) == h_dm h)%Q /\ (cdm_block_new_like d == d)%Q /\
  (forall dm n, h_dm (hdr_block_dedisperse h dm n) == h_dm h)%Q.
Proof.
  intros h d. conjs; intros.
  - unfold hdr_block_pad_samples, upd_block_pad_samples. dm_site.
  - split; [unfold hdr_block_downsample, upd_block_downsample; dm_site | unfold cdm_block_downsample; reflexivity].
  - unfold hdr_block_normalise, upd_block_normalise. dm_site.
  - reflexivity.
  - unfold hdr_block_dedisperse, upd_block_dedisperse. dm_site.
Qed.

Lemma dm_carried_series : forall h,
  (forall factor n, h_dm (hdr_ts_downsample h factor n) == h_dm h)%Q /\
  (forall n, h_dm (hdr_ts_pad h n) == h_dm h)%Q /\ (forall n, h_dm (hdr_ts_resample h n) == h_dm h)%Q /\
  (forall n, h_dm (hdr_ts_correlate h n) == h_dm h)%Q /\ (h_dm (hdr_ts_to_tim h) == h_dm h)%Q.
Proof.
  intro h. conjs; intros.
  - unfold hdr_ts_downsample, upd_ts_downsample. dm_site.
  - unfold hdr_ts_pad, upd_ts_pad. dm_site.
  - unfold hdr_ts_resample, upd_ts_resample. dm_site.
  - unfold hdr_ts_correlate, upd_ts_correlate. dm_site.
  - unfold hdr_ts_to_tim, out_ts_to_tim, upd_ts_to_tim. dm_site.
Qed.

(** ---- (2) headers handed on unchanged ---------------------------------------------------------------------- *)
Lemma same_header_refl : forall h, same_header h h.
Proof. intro h. unfold same_header. repeat split; reflexivity. Qed.

Lemma unchanged_headers : forall h,
  hdr_ts_normalise h = h /\ hdr_ts_apply_boxcar h = h /\ hdr_ts_deredden h = h /\ hdr_block_normalise h = h.
Proof. intro h. repeat split; reflexivity. Qed.

Lemma ts_correlate_hdr : forall h n, let h' := hdr_ts_correlate h n in
  h_nsamples h' = n /\ h_nchans h' = h_nchans h /\ (h_tsamp h' == h_tsamp h)%Q /\ (h_dm h' == h_dm h)%Q.
Proof. intros. subst h'. unfold hdr_ts_correlate, upd_ts_correlate. hdr_eval. repeat split; reflexivity. Qed.

Lemma ts_pad_resample_hdr : forall h n,
  (h_nsamples (hdr_ts_pad h n) = n /\ (h_tsamp (hdr_ts_pad h n) == h_tsamp h)%Q /\ (h_tstart (hdr_ts_pad h n) == h_tstart h)%Q) /\
  (h_nsamples (hdr_ts_resample h n) = n /\ (h_tsamp (hdr_ts_resample h n) == h_tsamp h)%Q /\ (h_tstart (hdr_ts_resample h n) == h_tstart h)%Q).
Proof. intros. unfold hdr_ts_pad, upd_ts_pad, hdr_ts_resample, upd_ts_resample. hdr_eval. repeat split; reflexivity. Qed.

(** ---- (3) delays of either sign ---------------------------------------------------------------------------- *)
Lemma delays_referred : forall dmin dmax, dmin <= dmax ->
  (forall d, dmin <= d <= dmax -> 0 <= d - delay_shift dmin <= max_delay_referred dmin dmax) /\
  (0 <= dmin -> delay_shift dmin = 0 /\ max_delay_referred dmin dmax = dmax) /\
  (dmin <= 0 -> delay_shift dmin = dmin /\ max_delay_referred dmin dmax = dmax - dmin).
Proof. intros dmin dmax H. unfold max_delay_referred, delay_shift. conjs; intros; conjs; lia. Qed.

Lemma dedisperse_either_sign : forall h dm start nsamps b dmin dmax, dmin <= dmax ->
  let md := max_delay_referred dmin dmax in let h' := hdr_dedisperse h dm start nsamps b md in
  0 <= md /\ h_nsamples h' = datalen_dedisperse h dm start nsamps b md /\
  datalen_dedisperse h dm start nsamps false md = nsamps - (dmax - Z.min 0 dmin) /\
  datalen_dedisperse h dm start nsamps true md = h_nsamples h - start - (dmax - Z.min 0 dmin) /\
  advanced h h' start /\ (h_dm h' == dm)%Q /\ (h_tsamp h' == h_tsamp h)%Q.
Proof.
  intros h dm start nsamps b dmin dmax Hd md h'.
  destruct (dedisperse_hdr h dm start nsamps b md) as (A & B & C & _ & E & F & G & _).
  assert (M : md = dmax - Z.min 0 dmin) by (unfold md, max_delay_referred, delay_shift; lia).
  split; [lia |]. split; [exact A |]. split; [rewrite B; lia |]. split; [rewrite C; lia |]. split; [exact E |]. split; [exact G | exact F].
Qed.

(** ---- (4) valid samples of a dedispersed block -------------------------------------------------------------- *)
Lemma block_valid : forall h dm n dmin dmax, dmin <= 0 -> 0 <= dmax -> dmax - dmin < n ->
  let m := block_valid_cols n dmin dmax in let h' := hdr_block_dedisperse h dm m in
  m = n - (dmax - dmin) /\ 0 < m /\ h_nsamples h' = m /\ block_valid_start n dmin dmax = - dmin /\
  (forall d, dmin <= d <= dmax -> 0 <= block_valid_start n dmin dmax + d /\ block_valid_start n dmin dmax + d + m <= n) /\
  (h_tstart h' == h_tstart h)%Q /\ (cdm_block_dedisperse h dm m == dm)%Q.
Proof.
  intros h dm n dmin dmax H1 H2 H3 m h'.
  assert (M : m = n - (dmax - dmin)) by (unfold m, block_valid_cols, roll_valid_cols; lia).
  assert (S : block_valid_start n dmin dmax = - dmin) by (unfold block_valid_start, roll_valid_start; lia).
  split; [exact M |]. split; [lia |]. split; [unfold h', hdr_block_dedisperse, upd_block_dedisperse; hdr_eval; reflexivity |].
  split; [exact S |]. split; [intros d Hd; rewrite S; lia |].
  split; [unfold h', hdr_block_dedisperse, upd_block_dedisperse; hdr_eval; reflexivity | unfold cdm_block_dedisperse; reflexivity].
Qed.

(** the tstart clause, with its hypothesis: when no delay is negative the first column kept is block sample 0 of the
    reference channel, and tstart (left unchanged) is right *)
Lemma block_valid_tstart_partial : forall h dm n dmin dmax, 0 <= dmin -> dmin <= 0 -> 0 <= dmax -> dmax - dmin < n ->
  let m := block_valid_cols n dmin dmax in let h' := hdr_block_dedisperse h dm m in
  block_valid_start n dmin dmax = 0 /\ advanced h h' (block_valid_start n dmin dmax).
Proof.
  intros h dm n dmin dmax H0 H1 H2 H3 m h'.
  assert (S : block_valid_start n dmin dmax = 0) by (unfold block_valid_start, roll_valid_start; lia).
  split; [exact S |]. rewrite S. unfold h', hdr_block_dedisperse, upd_block_dedisperse. hdr_eval. field.
Qed.

(** ---- (5) a sub-range of a set of two contiguous files ------------------------------------------------------ *)
Lemma fileset_mjd : forall h1 h2 start, contiguous h1 h2 ->
  (mjd_after_nsamps (fileset h1 h2) start == mjd_after_nsamps h2 (start - h_nsamples h1))%Q.
Proof.
  intros h1 h2 start [Ht Hs]. unfold mjd_after_nsamps, fileset. cbv [h_tstart h_tsamp h_nsamples] in *.
  destruct h1, h2. cbv [C08_rt.h_tstart C08_rt.h_tsamp C08_rt.h_nsamples] in *. rewrite Ht, Hs.
  unfold Zminus. rewrite inject_Z_plus, inject_Z_opp. field.
Qed.

Lemma fileset_read_block : forall h1 h2 start nsamps f n nsr cs rows h', contiguous h1 h2 -> 0 <= n ->
  read_block_model (fileset h1 h2) start nsamps f n nsr = Some (cs, rows, h') ->
  advanced h1 h' start /\ advanced h2 h' (start - h_nsamples h1) /\ copies_channels h1 h' cs /\ h_nchans h' = n /\ rows = n /\
  (h_dm h' == h_dm h1)%Q /\ cs + n <= h_nchans h1 /\ start + nsamps <= h_nsamples h1 + h_nsamples h2.
Proof.
  intros h1 h2 start nsamps f n nsr cs rows h' Hc Hn E.
  pose proof E as E0. unfold read_block_model, read_block_model_x in E0.
  destruct ((read_block_to_index (read_block_ratio (fileset h1 h2) f) <? 0) || (read_block_to_index (read_block_ratio (fileset h1 h2) f) + n >? h_nchans (fileset h1 h2))) eqn:G1; [discriminate |].
  destruct ((start <? 0) || (start + nsamps >? h_nsamples (fileset h1 h2))) eqn:G2; [discriminate |]. clear E0.
  destruct (read_block_consistent _ _ _ _ _ _ _ _ _ Hn E) as (P1 & P2 & P3 & P4 & _ & P6 & P7 & _ & _ & P10 & _).
  assert (A1 : advanced h1 h' start) by exact P6.
  split; [exact A1 |]. split.
  - unfold advanced in *. destruct Hc as [Ht Hs]. rewrite A1, Ht, Hs. unfold Zminus. rewrite inject_Z_plus, inject_Z_opp. field.
  - split; [exact P7 |]. split; [exact P4 |]. split; [exact P3 |]. split; [exact P10 |]. split; [exact P2 |].
    assert (N : h_nsamples (fileset h1 h2) = h_nsamples h1 + h_nsamples h2) by reflexivity. rewrite N in G2. lia.
Qed.
