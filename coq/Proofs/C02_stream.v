(** C02: the multi-file reader model refines a flat byte array, for every history of operations. *)
From Coq Require Import ZArith List Bool Lia ZifyBool.
Require Import SPP.Base.Rt SPP.Base.Iter SPP.Gen.Plan SPP.Model.Stream.
Import ListNotations.
Open Scope Z_scope.
Ltac Zify.zify_post_hook ::= Z.to_euclidean_division_equations.

(** * slices *)
Lemma len_app a b : len (a ++ b) = len a + len b.
Proof. unfold len. rewrite app_length. lia. Qed.
Lemma len_nonneg l : 0 <= len l.
Proof. unfold len. lia. Qed.

Lemma slice_len l a n : 0 <= a -> 0 <= n -> a + n <= len l -> len (slice l a n) = n.
Proof. unfold slice, len. intros. rewrite firstn_length, skipn_length. lia. Qed.

Lemma slice_0 l a : slice l a 0 = [].
Proof. reflexivity. Qed.

Lemma slice_app_l l1 l2 a n : 0 <= a -> 0 <= n -> a + n <= len l1 -> slice (l1 ++ l2) a n = slice l1 a n.
Proof. unfold slice, len. intros. rewrite skipn_app, firstn_app.
  replace (Z.to_nat n - length (skipn (Z.to_nat a) l1))%nat with 0%nat by (rewrite skipn_length; lia).
  cbn. now rewrite app_nil_r. Qed.

Lemma slice_app_r l1 l2 a n : len l1 <= a -> slice (l1 ++ l2) a n = slice l2 (a - len l1) n.
Proof. unfold slice, len. intros. rewrite skipn_app. rewrite skipn_all2 by lia. cbn.
  f_equal. f_equal. lia. Qed.

Lemma skipn_skipn {A} (l : list A) a b : skipn a (skipn b l) = skipn (a + b) l.
Proof. revert l. induction b as [|b IH]; intro l; [now rewrite Nat.add_0_r|].
  rewrite Nat.add_succ_r. destruct l; [now rewrite !skipn_nil|]. cbn. apply IH. Qed.

Lemma slice_cat l a n1 n2 : 0 <= a -> 0 <= n1 -> 0 <= n2 -> slice l a n1 ++ slice l (a + n1) n2 = slice l a (n1 + n2).
Proof. unfold slice. intros. rewrite Z2Nat.inj_add by lia. rewrite Z2Nat.inj_add by lia.
  set (x := Z.to_nat a). set (y := Z.to_nat n1). set (z := Z.to_nat n2).
  rewrite (Nat.add_comm x y), <- skipn_skipn. set (m := skipn x l). clearbody m. clear.
  revert m. induction y as [|y IH]; intro m; [reflexivity|]. destruct m; cbn.
  - now rewrite firstn_nil.
  - f_equal. apply IH. Qed.

(** * sums of data lengths *)
Lemma total_app a b : total (a ++ b) = total a + total b.
Proof. unfold total. induction a; cbn; lia. Qed.
Lemma total_nonneg fs : 0 <= total fs.
Proof. unfold total. induction fs; cbn; unfold datalen in *; lia. Qed.
Lemma len_flat fs : len (flat fs) = total fs.
Proof. unfold flat, total. induction fs as [|f r IH]; cbn; [reflexivity|]. rewrite len_app, IH. reflexivity. Qed.

Definition before (fs : list file) (i : Z) : Z := total (firstn (Z.to_nat i) fs).

Lemma before_0 fs : before fs 0 = 0.
Proof. reflexivity. Qed.
Lemma before_all fs : before fs (nfiles fs) = total fs.
Proof. unfold before, nfiles. rewrite Nat2Z.id, firstn_all. reflexivity. Qed.
Lemma total_cons f l : total (f :: l) = datalen f + total l.
Proof. reflexivity. Qed.
Lemma total_firstn_succ fs : forall k, (k < length fs)%nat ->
  total (firstn (S k) fs) = total (firstn k fs) + datalen (nth k fs nofile).
Proof. induction fs as [|f r IH]; intros k Hk; [cbn in Hk; lia|]. destruct k.
  - cbn [firstn nth]. rewrite !total_cons. unfold total; cbn. lia.
  - change (firstn (S (S k)) (f :: r)) with (f :: firstn (S k) r).
    change (firstn (S k) (f :: r)) with (f :: firstn k r). change (nth (S k) (f :: r) nofile) with (nth k r nofile).
    rewrite !total_cons. rewrite IH by (cbn in Hk; lia). lia. Qed.
Lemma before_succ fs i : 0 <= i < nfiles fs -> before fs (i + 1) = before fs i + datalen (fileat fs i).
Proof. unfold before, nfiles, fileat. intro H. replace (Z.to_nat (i + 1)) with (S (Z.to_nat i)) by lia.
  apply total_firstn_succ. lia. Qed.
Lemma before_mono fs i : 0 <= i <= nfiles fs -> 0 <= before fs i <= total fs.
Proof. unfold before, nfiles. intro H. split; [apply total_nonneg|].
  rewrite <- (firstn_skipn (Z.to_nat i) fs) at 2. rewrite total_app. pose proof (total_nonneg (skipn (Z.to_nat i) fs)). lia. Qed.

Lemma nth_cumsum_from l : forall acc i, (i < length l)%nat ->
  nth i (cumsum_from acc l) 0 = acc + fold_right Z.add 0 (firstn (S i) l).
Proof. induction l as [|x r IH]; intros acc i Hi; [cbn in Hi; lia|]. destruct i; cbn [cumsum_from nth].
  - change (firstn 1 (x :: r)) with [x]. cbn [fold_right]. lia.
  - rewrite IH by (cbn in Hi; lia). change (firstn (S (S i)) (x :: r)) with (x :: firstn (S i) r). cbn [fold_right]. lia. Qed.

Lemma nth_cumsum fs i : 0 <= i < nfiles fs -> nth (Z.to_nat i) (cumsum fs) 0 = before fs (i + 1).
Proof. unfold nfiles, cumsum, before, total. intro H. rewrite nth_cumsum_from by (rewrite map_length; lia).
  rewrite firstn_map. replace (Z.to_nat (i + 1)) with (S (Z.to_nat i)) by lia. lia. Qed.

Lemma find_first_lt_spec l : (forall x, In x l -> 0 <= x) -> forall acc off,
  acc <= off < acc + fold_right Z.add 0 l ->
  let k := find_first_lt off (cumsum_from acc l) in
  0 <= k < Z.of_nat (length l) /\
  acc + fold_right Z.add 0 (firstn (Z.to_nat k) l) <= off < acc + fold_right Z.add 0 (firstn (Z.to_nat (k + 1)) l).
Proof. induction l as [|x r IH]; intros Hpos acc off H; [cbn in H; lia|].
  cbn [cumsum_from find_first_lt]. destruct (Z.ltb_spec off (acc + x)).
  - change (Z.to_nat 0) with 0%nat. change (Z.to_nat (0 + 1)) with 1%nat. cbn [firstn fold_right length]. lia.
  - cbn [fold_right] in H. specialize (IH (fun y Hy => Hpos y (or_intror Hy)) (acc + x) off ltac:(lia)).
    cbv zeta in *. set (k := find_first_lt off (cumsum_from (acc + x) r)) in *. clearbody k.
    destruct IH as [Hk Hs]. split; [cbn [length]; lia|].
    replace (Z.to_nat (1 + k)) with (S (Z.to_nat k)) by lia.
    replace (Z.to_nat (1 + k + 1)) with (S (Z.to_nat (k + 1))) by lia.
    cbn [firstn fold_right]. lia. Qed.

Lemma seek_fileid fs off : 0 <= off < total fs ->
  let k := find_first_lt off (cumsum fs) in
  0 <= k < nfiles fs /\ before fs k <= off < before fs (k + 1).
Proof. intro H. unfold cumsum, nfiles, before, total in *.
  pose proof (find_first_lt_spec (map datalen fs)) as L.
  specialize (L ltac:(intros x Hx; apply in_map_iff in Hx as [f [<- _]]; unfold datalen; lia) 0 off ltac:(lia)).
  cbv zeta in *. rewrite map_length in L. rewrite !firstn_map in L. lia. Qed.

(** * reading from one file is reading from the flat array *)
Lemma raw_slice f o n : 0 <= o -> slice (raw f) (hdrlen f + o) n = slice (dat f) o n.
Proof. intro H. unfold raw. rewrite slice_app_r by (unfold len, hdrlen; lia). f_equal. unfold len, hdrlen. lia. Qed.

Lemma flat_slice fs : forall i o n, 0 <= i < nfiles fs -> 0 <= o -> 0 <= n -> o + n <= datalen (fileat fs i) ->
  slice (dat (fileat fs i)) o n = slice (flat fs) (before fs i + o) n.
Proof. induction fs as [|f r IH]; intros i o n Hi Ho Hn Hl; [unfold nfiles in Hi; cbn in Hi; lia|].
  destruct (Z.eq_dec i 0) as [->|Hne].
  - unfold fileat, before, flat. cbn [Z.to_nat nth firstn map concat]. unfold total. cbn [map fold_right].
    rewrite slice_app_l; [f_equal; lia|lia|lia|]. unfold fileat, datalen, len in *. cbn in Hl. lia.
  - assert (Hi' : 0 <= i - 1 < nfiles r) by (unfold nfiles in *; cbn [length] in Hi; lia).
    specialize (IH (i - 1) o n Hi' Ho Hn).
    assert (Ef : fileat (f :: r) i = fileat r (i - 1)).
    { unfold fileat. replace (Z.to_nat i) with (S (Z.to_nat (i - 1))) by lia. reflexivity. }
    rewrite Ef in *. rewrite IH by assumption.
    unfold flat. cbn [map concat]. fold (flat r).
    assert (Eb : before (f :: r) i = datalen f + before r (i - 1)).
    { unfold before. replace (Z.to_nat i) with (S (Z.to_nat (i - 1))) by lia. reflexivity. }
    rewrite Eb. pose proof (before_mono r (i - 1) ltac:(lia)).
    rewrite slice_app_r by (unfold datalen, len in *; lia).
    f_equal. unfold datalen, len. lia. Qed.

(** * the state invariant and the abstraction function *)
Definition Inv (fs : list file) (s : st) : Prop :=
  0 <= ifile s < nfiles fs /\ hdrlen (fileat fs (ifile s)) <= pos s <= filelen (fileat fs (ifile s)).
Definition absp (fs : list file) (s : st) : Z := before fs (ifile s) + (pos s - hdrlen (fileat fs (ifile s))).

Lemma absp_bounds fs s : Inv fs s -> 0 <= absp fs s <= total fs.
Proof. intros [Hi Hp]. unfold absp. pose proof (before_succ fs (ifile s) Hi).
  pose proof (before_mono fs (ifile s) ltac:(lia)). pose proof (before_mono fs (ifile s + 1) ltac:(lia)).
  unfold filelen in *. lia. Qed.

Lemma stream_pos_abs fs s : Inv fs s -> stream_pos fs s = absp fs s.
Proof. intros [Hi Hp]. unfold stream_pos, cur_data_pos_stream, absp. destruct (Z.eqb_spec (ifile s) 0) as [E|NE].
  - rewrite E. rewrite before_0. lia.
  - rewrite nth_cumsum by lia. replace (ifile s - 1 + 1) with (ifile s) by lia. lia. Qed.

Lemma seek2hdr_ok fs i : 0 <= i < nfiles fs -> seek2hdr fs i = Some (mkst i (hdrlen (fileat fs i))).
Proof. intro H. unfold seek2hdr. replace ((0 <=? i) && (i <? nfiles fs)) with true by lia. reflexivity. Qed.

Lemma seek_set_ok fs s off : 0 <= off < total fs ->
  exists s', seek_set_op fs s off = (s', OUnit) /\ Inv fs s' /\ absp fs s' = off.
Proof. intro H. unfold seek_set_op, seek_set.
  replace ((off <? 0) || (off >=? total fs)) with false by lia.
  destruct (seek_fileid fs off H) as [Hk Hb]. set (k := find_first_lt off (cumsum fs)) in *. clearbody k.
  pose proof (before_succ fs k Hk) as Hs.
  destruct (Z.eqb_spec k 0) as [->|NE].
  - rewrite seek2hdr_ok by lia. cbn [pos]. eexists; split; [reflexivity|]. rewrite before_0 in *.
    unfold Inv, absp; cbn [ifile pos]. rewrite before_0. unfold filelen. lia.
  - rewrite seek2hdr_ok by lia. cbn [pos]. eexists; split; [reflexivity|].
    rewrite nth_cumsum by lia. replace (k - 1 + 1) with k by lia.
    unfold Inv, absp; cbn [ifile pos]. unfold filelen. lia. Qed.

Lemma seek_set_err fs s off : ~ (0 <= off < total fs) -> seek_set_op fs s off = (s, OErr ValueError).
Proof. intro H. unfold seek_set_op, seek_set. replace ((off <? 0) || (off >=? total fs)) with true by lia. reflexivity. Qed.

(** * creadinto *)
Lemma read_is_flat fs s k : Inv fs s -> 0 <= k -> pos s + k <= filelen (fileat fs (ifile s)) ->
  slice (raw (fileat fs (ifile s))) (pos s) k = slice (flat fs) (absp fs s) k.
Proof. intros [Hi Hp] Hk Hl. unfold absp.
  replace (pos s) with (hdrlen (fileat fs (ifile s)) + (pos s - hdrlen (fileat fs (ifile s)))) at 1 by lia.
  rewrite raw_slice by lia. apply flat_slice; unfold filelen in *; lia. Qed.

Lemma creadinto_loop_spec fs n p0 : 0 <= p0 -> forall fuel s acc,
  Inv fs s -> nfiles fs - ifile s <= Z.of_nat fuel -> len acc <= n -> absp fs s = p0 + len acc ->
  acc = slice (flat fs) p0 (len acc) ->
  let k := Z.min n (total fs - p0) in
  exists s', creadinto_loop fuel fs s n acc = (s', OBytes (slice (flat fs) p0 k)) /\ Inv fs s' /\ absp fs s' = p0 + k.
Proof. intros Hp0. induction fuel as [|fuel IH]; intros s acc HI Hf Hn Ha Hacc k.
  - destruct HI as [Hi _]. lia.
  - pose proof HI as [Hi Hp]. pose proof (absp_bounds fs s HI) as Hab. pose proof (len_nonneg acc) as Hl0.
    cbn [creadinto_loop]. set (f := fileat fs (ifile s)) in *.
    set (k1 := Z.min (n - len acc) (Z.max 0 (filelen f - pos s))).
    assert (Hk1 : 0 <= k1 /\ k1 <= n - len acc /\ k1 <= filelen f - pos s) by (unfold k1; lia).
    pose proof (read_is_flat fs s k1 HI ltac:(lia) ltac:(fold f; lia)) as Er. fold f in Er. rewrite Er. clear Er. rewrite Ha.
    assert (Eacc : acc ++ slice (flat fs) (p0 + len acc) k1 = slice (flat fs) p0 (len acc + k1)).
    { rewrite Hacc at 1. apply slice_cat; lia. }
    rewrite Eacc.
    assert (Elen : len (slice (flat fs) p0 (len acc + k1)) = len acc + k1).
    { apply slice_len; try lia. rewrite len_flat. unfold absp in Ha. fold f in Ha.
      pose proof (before_succ fs (ifile s) Hi). fold f in H. pose proof (before_mono fs (ifile s + 1) ltac:(lia)).
      unfold filelen in *. lia. }
    rewrite Elen. cbn [pos ifile].
    set (s1 := mkst (ifile s) (pos s + k1)).
    assert (HI1 : Inv fs s1) by (unfold Inv, s1; cbn [ifile pos]; fold f; lia).
    assert (Ha1 : absp fs s1 = p0 + (len acc + k1)) by (unfold absp, s1 in *; cbn [ifile pos]; fold f in Ha |- *; lia).
    pose proof (absp_bounds fs s1 HI1) as Hab1.
    destruct (Z.eqb_spec (len acc + k1) n) as [E|NE]; cbn [orb].
    + exists s1. replace k with (len acc + k1) by (unfold k; lia). repeat split; try assumption; apply HI1.
    + destruct (Z.eqb_spec (pos s + k1) (filelen f)) as [E2|NE2]; [|unfold k1 in *; lia].
      destruct (Z.eqb_spec (ifile s) (nfiles fs - 1)) as [E3|NE3]; cbn [andb].
      * exists s1. assert (absp fs s1 = total fs).
        { unfold absp, s1; cbn [ifile pos]. fold f. pose proof (before_succ fs (ifile s) Hi). fold f in H.
          replace (ifile s + 1) with (nfiles fs) in H by lia. rewrite before_all in H. unfold filelen in *. lia. }
        replace k with (len acc + k1) by (unfold k; lia). repeat split; try assumption; apply HI1.
      * rewrite seek2hdr_ok by lia. set (s2 := mkst (ifile s + 1) (hdrlen (fileat fs (ifile s + 1)))).
        assert (HI2 : Inv fs s2) by (unfold Inv, s2, filelen, datalen; cbn [ifile pos]; lia).
        assert (Ha2 : absp fs s2 = p0 + (len acc + k1)).
        { unfold absp, s2; cbn [ifile pos]. rewrite before_succ by lia. fold f.
          unfold absp, s1 in Ha1; cbn [ifile pos] in Ha1; fold f in Ha1. unfold filelen in *. lia. }
        specialize (IH s2 (slice (flat fs) p0 (len acc + k1)) HI2).
        rewrite Elen in IH. apply IH; try assumption; try lia.
        -- unfold s2; cbn [ifile]. lia.
        -- reflexivity. Qed.

Lemma creadinto_spec fs s n : Inv fs s -> 0 <= n ->
  let k := Z.min n (total fs - absp fs s) in
  exists s', creadinto fs s n = (s', OBytes (slice (flat fs) (absp fs s) k)) /\ Inv fs s' /\ absp fs s' = absp fs s + k.
Proof. intros HI Hn. pose proof (absp_bounds fs s HI). unfold creadinto.
  apply (creadinto_loop_spec fs n (absp fs s) ltac:(lia) (S (length fs)) s []); try assumption.
  - destruct HI as [Hi _]. unfold nfiles in *. lia.
  - unfold len; cbn [length]; lia.
  - reflexivity. Qed.

(** * cread, byte-wide items *)
Lemma cread_loop_spec fs p0 : 0 <= p0 -> forall fuel s count acc,
  Inv fs s -> nfiles fs - ifile s <= Z.of_nat fuel -> 0 <= count -> absp fs s = p0 + len acc ->
  acc = slice (flat fs) p0 (len acc) ->
  (p0 + len acc + count <= total fs ->
     exists s', cread_loop fuel fs 1 s count acc = (s', OBytes (slice (flat fs) p0 (len acc + count))) /\
                Inv fs s' /\ absp fs s' = p0 + len acc + count) /\
  (p0 + len acc + count > total fs ->
     exists s', cread_loop fuel fs 1 s count acc = (s', OErr ValueError) /\ Inv fs s' /\ absp fs s' = total fs).
Proof. intros Hp0. induction fuel as [|fuel IH]; intros s count acc HI Hf Hc Ha Hacc.
  - destruct HI as [Hi _]. lia.
  - pose proof HI as [Hi Hp]. pose proof (absp_bounds fs s HI) as Hab. pose proof (len_nonneg acc) as Hl0.
    cbn [cread_loop]. set (f := fileat fs (ifile s)) in *.
    set (k1 := Z.min (Z.min (datalen f) count) (Z.max 0 ((filelen f - pos s) / 1))).
    assert (Hk1 : k1 = Z.min count (filelen f - pos s)) by (unfold k1, filelen in *; lia).
    replace (k1 * 1) with k1 by lia.
    assert (Hk1b : 0 <= k1 /\ k1 <= count /\ k1 <= filelen f - pos s) by lia.
    pose proof (read_is_flat fs s k1 HI ltac:(lia) ltac:(fold f; lia)) as Er. fold f in Er. rewrite Er. clear Er. rewrite Ha.
    assert (Eacc : acc ++ slice (flat fs) (p0 + len acc) k1 = slice (flat fs) p0 (len acc + k1)).
    { rewrite Hacc at 1. apply slice_cat; lia. }
    rewrite Eacc.
    assert (Elen : len (slice (flat fs) p0 (len acc + k1)) = len acc + k1).
    { apply slice_len; try lia. rewrite len_flat. unfold absp in Ha. fold f in Ha.
      pose proof (before_succ fs (ifile s) Hi). fold f in H. pose proof (before_mono fs (ifile s + 1) ltac:(lia)).
      unfold filelen in *. lia. }
    cbn [pos ifile].
    set (s1 := mkst (ifile s) (pos s + k1)).
    assert (HI1 : Inv fs s1) by (unfold Inv, s1; cbn [ifile pos]; fold f; lia).
    assert (Ha1 : absp fs s1 = p0 + (len acc + k1)) by (unfold absp, s1 in *; cbn [ifile pos]; fold f in Ha |- *; lia).
    pose proof (absp_bounds fs s1 HI1) as Hab1.
    destruct (Z.eqb_spec (count - k1) 0) as [E|NE].
    + split; intro Ht; [|lia]. exists s1. replace (len acc + count) with (len acc + k1) by lia.
      repeat split; try apply HI1. lia.
    + assert (Eend : pos s + k1 = filelen f) by lia.
      destruct (Z.eq_dec (ifile s) (nfiles fs - 1)) as [E3|NE3].
      * assert (absp fs s1 = total fs).
        { unfold absp, s1; cbn [ifile pos]. fold f. pose proof (before_succ fs (ifile s) Hi). fold f in H.
          replace (ifile s + 1) with (nfiles fs) in H by lia. rewrite before_all in H. unfold filelen in *. lia. }
        unfold seek2hdr. replace ((0 <=? ifile s + 1) && (ifile s + 1 <? nfiles fs)) with false by lia.
        split; intro Ht; [lia|]. exists s1. repeat split; try apply HI1. assumption.
      * rewrite seek2hdr_ok by lia. set (s2 := mkst (ifile s + 1) (hdrlen (fileat fs (ifile s + 1)))).
        assert (HI2 : Inv fs s2) by (unfold Inv, s2, filelen, datalen; cbn [ifile pos]; lia).
        assert (Ha2 : absp fs s2 = p0 + (len acc + k1)).
        { unfold absp, s2; cbn [ifile pos]. rewrite before_succ by lia. fold f.
          unfold absp, s1 in Ha1; cbn [ifile pos] in Ha1; fold f in Ha1. unfold filelen in *. lia. }
        specialize (IH s2 (count - k1) (slice (flat fs) p0 (len acc + k1)) HI2).
        rewrite Elen in IH.
        specialize (IH ltac:(unfold s2; cbn [ifile]; lia) ltac:(lia) Ha2 eq_refl).
        replace (len acc + k1 + (count - k1)) with (len acc + count) in IH by lia.
        replace (p0 + (len acc + k1) + (count - k1)) with (p0 + len acc + count) in IH by lia.
        exact IH. Qed.

Lemma cread_spec fs s n : Inv fs s -> 0 <= n ->
  (absp fs s + n <= total fs ->
     exists s', cread fs 1 s n = (s', OBytes (slice (flat fs) (absp fs s) n)) /\ Inv fs s' /\ absp fs s' = absp fs s + n) /\
  (absp fs s + n > total fs ->
     exists s', cread fs 1 s n = (s', OErr ValueError) /\ Inv fs s' /\ absp fs s' = total fs).
Proof. intros HI Hn. pose proof (absp_bounds fs s HI). unfold cread.
  pose proof (cread_loop_spec fs (absp fs s) ltac:(lia) (S (length fs)) s n [] HI) as L.
  change (len []) with 0 in L. rewrite !Z.add_0_r in L. rewrite Z.add_0_l in L.
  apply L; try lia; try reflexivity. destruct HI as [Hi _]. unfold nfiles in *. lia. Qed.

(** * one step, and every history *)
Definition op_ok (o : op) : Prop :=
  match o with Cread n => 0 <= n | Creadinto n => 0 <= n | _ => True end.

Lemma step_refines fs s o : Inv fs s -> op_ok o ->
  let '(s', r) := step fs 1 s o in
  let '(p', r') := spec_step (flat fs) 1 (absp fs s) o in
  r = r' /\ absp fs s' = p' /\ Inv fs s'.
Proof. intros HI Hok. pose proof (absp_bounds fs s HI) as Hab. destruct o as [off|off|n|n]; cbn [step spec_step op_ok] in *.
  - rewrite len_flat. destruct (Z.leb_spec 0 off); destruct (Z.ltb_spec off (total fs)); cbn [andb].
    + destruct (seek_set_ok fs s off ltac:(lia)) as [s' [-> [HI' Ha']]]. auto.
    + rewrite seek_set_err by lia. auto.
    + rewrite seek_set_err by lia. auto.
    + rewrite seek_set_err by lia. auto.
  - unfold seek_cur_op. rewrite stream_pos_abs by assumption. rewrite len_flat.
    destruct (Z.leb_spec 0 (off + absp fs s)); destruct (Z.ltb_spec (off + absp fs s) (total fs)); cbn [andb].
    + destruct (seek_set_ok fs s (off + absp fs s) ltac:(lia)) as [s' [-> [HI' Ha']]]. auto.
    + rewrite seek_set_err by lia. auto.
    + rewrite seek_set_err by lia. auto.
    + rewrite seek_set_err by lia. auto.
  - rewrite len_flat. replace (n * 1) with n by lia. destruct (cread_spec fs s n HI Hok) as [L1 L2].
    destruct (Z.leb_spec (absp fs s + n) (total fs)).
    + destruct (L1 ltac:(lia)) as [s' [-> [HI' Ha']]]. auto.
    + destruct (L2 ltac:(lia)) as [s' [-> [HI' Ha']]]. auto.
  - rewrite len_flat. destruct (creadinto_spec fs s n HI Hok) as [s' [-> [HI' Ha']]]. auto. Qed.

Lemma run_refines fs : forall ops s, Inv fs s -> Forall op_ok ops ->
  run fs 1 s ops = spec_run (flat fs) 1 (absp fs s) ops.
Proof. induction ops as [|o r IH]; intros s HI Hok; [reflexivity|]. inversion Hok as [|? ? Ho Hr]; subst.
  cbn [run spec_run]. pose proof (step_refines fs s o HI Ho) as L.
  destruct (step fs 1 s o) as [s' res]. destruct (spec_step (flat fs) 1 (absp fs s) o) as [p' res'].
  destruct L as [-> [Ha HI']]. rewrite stream_pos_abs by assumption. rewrite Ha. f_equal. rewrite <- Ha. apply IH; assumption. Qed.

Lemma init_inv fs : 1 <= nfiles fs -> Inv fs (init fs) /\ absp fs (init fs) = 0.
Proof. intro H. unfold Inv, absp, init; cbn [ifile pos]. rewrite before_0. unfold filelen, datalen. lia. Qed.

(** every history of seeks and reads on a stream of >= 1 files behaves like the flat byte array *)
Theorem stream_refines fs ops : 1 <= nfiles fs -> Forall op_ok ops ->
  run fs 1 (init fs) ops = spec_run (flat fs) 1 0 ops.
Proof. intros H Hok. destruct (init_inv fs H) as [HI Ha]. rewrite <- Ha. apply run_refines; assumption. Qed.

(** no header byte is ever returned: outputs are slices of the concatenated data sections only *)
Corollary outputs_are_data_slices fs ops : 1 <= nfiles fs -> Forall op_ok ops ->
  Forall (fun r => match fst r with OBytes l => exists a n, l = slice (flat fs) a n | _ => True end) (run fs 1 (init fs) ops).
Proof. intros H Hok. rewrite stream_refines by assumption. generalize 0 as p. revert Hok.
  induction ops as [|o r IH]; intros Hok p; cbn [spec_run]; [constructor|]. inversion Hok; subst.
  destruct (spec_step (flat fs) 1 p o) as [p' res] eqn:E. constructor; [|apply IH; assumption].
  cbn [fst]. destruct o; cbn [spec_step] in E.
  - destruct ((0 <=? o) && (o <? len (flat fs))); inversion E; exact I.
  - destruct ((0 <=? o + p) && (o + p <? len (flat fs))); inversion E; exact I.
  - destruct (p + n * 1 <=? len (flat fs)); inversion E; [eauto|exact I].
  - inversion E. eauto. Qed.

Lemma read_block_spec fs nchans nsamples start nsamps :
  1 <= nfiles fs -> 1 <= nchans -> 1 <= nsamps -> total fs = nsamples * nchans ->
  read_block_bytes fs nchans nsamples start nsamps =
    if (0 <=? start) && (start + nsamps <=? nsamples)
    then OBytes (slice (flat fs) (start * nchans) (nchans * nsamps)) else OErr ValueError.
Proof. intros Hf Hc Hn Ht. unfold read_block_bytes. destruct (init_inv fs Hf) as [HI Ha].
  destruct (Z.ltb_spec start 0); cbn [orb].
  { replace ((0 <=? start) && (start + nsamps <=? nsamples)) with false by lia. reflexivity. }
  destruct (Z.gtb_spec (start + nsamps) nsamples).
  { replace ((0 <=? start) && (start + nsamps <=? nsamples)) with false by lia. reflexivity. }
  replace ((0 <=? start) && (start + nsamps <=? nsamples)) with true by lia.
  destruct (seek_set_ok fs (init fs) (start * nchans) ltac:(nia)) as [s1 [-> [HI1 Ha1]]].
  destruct (cread_spec fs s1 (nchans * nsamps) HI1 ltac:(nia)) as [L1 _].
  destruct (L1 ltac:(nia)) as [s2 [-> [_ _]]]. cbn [snd]. rewrite Ha1. reflexivity. Qed.

(** element (c, t) of the block is sample x[start+t][c] of the flat (time-major) data *)
Lemma nth_skipn_ {A} (l : list A) : forall a i d, nth i (skipn a l) d = nth (a + i) l d.
Proof. induction l as [|x r IH]; intros a i d; [rewrite skipn_nil; destruct i, a; reflexivity|].
  destruct a; [reflexivity|]. cbn. apply IH. Qed.
Lemma nth_firstn_ {A} (l : list A) : forall n i d, (i < n)%nat -> nth i (firstn n l) d = nth i l d.
Proof. induction l as [|x r IH]; intros n i d H; [rewrite firstn_nil; reflexivity|].
  destruct n; [lia|]. destruct i; [reflexivity|]. cbn. apply IH. lia. Qed.
Lemma slice_nth l a n i d : 0 <= a -> 0 <= i < n -> a + n <= len l ->
  nth (Z.to_nat i) (slice l a n) d = nth (Z.to_nat (a + i)) l d.
Proof. unfold slice, len. intros Ha Hi Hl. rewrite nth_firstn_ by lia. rewrite nth_skipn_. f_equal. lia. Qed.
