(** C16, extended histories: the threshold attribute may be assigned between operations, range end points may be
    infinite, the history may start from any mask.  Subjects: [apply_mask_x], [apply_method], [apply_funcn]
    (regenerated, Gen/C16Rfi.v) and the history model of Model/C16_MaskAlg.v. *)
From Coq Require Import ZArith QArith Qabs List Bool Lia.
Require Import SPP.Base.Rt SPP.Base.Iter SPP.Model.C16_Vec SPP.Gen.C16Rfi SPP.Model.C16_MaskAlg SPP.Proofs.C16_maskalg.
Import ListNotations.
Open Scope Z_scope.

(** * apply_mask with extended end points *)
Lemma apply_mask_x_spec n freqs s fm :
  (forall c, user_mask (apply_mask_x n freqs s fm) c = in_ranges_x (freqs c) fm) /\
  (forall c, chan_mask (apply_mask_x n freqs s fm) c = chan_mask s c || in_ranges_x (freqs c) fm) /\
  stats_mask (apply_mask_x n freqs s fm) = stats_mask s /\
  custom_mask (apply_mask_x n freqs s fm) = custom_mask s.
Proof. unfold apply_mask_x. cbv zeta.
  set (f := fun r : xq * xq => vand (vgex freqs (fst r)) (vlex freqs (snd r))).
  assert (E : forall c, fold_left (fun (user_mask : bvec) (freq_range : xq * xq) => vor user_mask (f freq_range)) fm vfalse c
                        = in_ranges_x (freqs c) fm).
  { intro c. rewrite fold_vor. unfold vfalse, in_ranges_x, f, vand, vgex, vlex, xle_l, xle_r. reflexivity. }
  repeat split; intros; cbn; unfold vor; rewrite ?E; reflexivity. Qed.

Lemma in_ranges_x_closed f fm :
  in_ranges_x f fm = true <-> exists lo hi, In (lo, hi) fm /\ xq_le lo (XFin f) /\ xq_le (XFin f) hi.
Proof. unfold in_ranges_x. rewrite existsb_exists. split.
  - intros [[lo hi] [Hin H]]. apply andb_prop in H as [H1 H2]. cbn [fst snd] in *.
    exists lo, hi. split; [assumption|]. split.
    + destruct lo; cbn in *; try exact I; try discriminate. now apply Qle_bool_iff.
    + destruct hi; cbn in *; try exact I; try discriminate. now apply Qle_bool_iff.
  - intros [lo [hi [Hin [H1 H2]]]]. exists (lo, hi). split; [assumption|]. cbn [fst snd].
    apply andb_true_intro. split.
    + destruct lo; cbn in *; try reflexivity; try contradiction. now apply Qle_bool_iff.
    + destruct hi; cbn in *; try reflexivity; try contradiction. now apply Qle_bool_iff. Qed.

(** finite end points: the extended operation is the original one *)
Lemma in_ranges_x_fin f fm : in_ranges_x f (map xfin fm) = in_ranges f fm.
Proof. unfold in_ranges_x, in_ranges. induction fm as [|r fm IH]; cbn [map existsb]; [reflexivity|].
  rewrite IH. reflexivity. Qed.

Lemma apply_mask_x_fin n freqs s fm c :
  chan_mask (apply_mask_x n freqs s (map xfin fm)) c = chan_mask (apply_mask n freqs s fm) c /\
  user_mask (apply_mask_x n freqs s (map xfin fm)) c = user_mask (apply_mask n freqs s fm) c /\
  stats_mask (apply_mask_x n freqs s (map xfin fm)) = stats_mask (apply_mask n freqs s fm) /\
  custom_mask (apply_mask_x n freqs s (map xfin fm)) = custom_mask (apply_mask n freqs s fm).
Proof. destruct (apply_mask_x_spec n freqs s (map xfin fm)) as [U [C [S K]]].
  destruct (apply_mask_spec n freqs s fm) as [U' [C' [S' K']]].
  rewrite U, C, U', C', S, K, S', K', in_ranges_x_fin. repeat split; reflexivity. Qed.

(** * Extended histories *)
Section HistX.
  Variables (dmm iqm : qvec -> Q -> option bvec) (nchans : Z) (freqs var skew kurt : qvec).
  Let step := run_opx dmm iqm nchans freqs var skew kurt.
  Let run := run_opsx dmm iqm nchans freqs var skew kurt.

  Lemma run_opx_mono h o c : chan_mask (h_mask h) c = true -> chan_mask (h_mask (step h o)) c = true.
  Proof. intro H. unfold step, run_opx. destruct o as [fm|m|f|t]; cbn [h_mask].
    - destruct (apply_mask_x_spec nchans freqs (h_mask h) fm) as [_ [Hc _]]. rewrite Hc, H. reflexivity.
    - destruct (apply_method dmm iqm var skew kurt (h_thr h) (h_mask h) m) as [s'|] eqn:E; cbn [h_mask]; [|assumption].
      destruct (apply_method_spec _ _ _ _ _ _ _ _ _ E) as [? [? [? [? [_ [_ [_ [_ [_ [Hc _]]]]]]]]]].
      rewrite Hc, H. reflexivity.
    - destruct (apply_funcn_spec (h_mask h) f) as [_ [Hc _]]. rewrite Hc, H. reflexivity.
    - assumption. Qed.

  Lemma run_opsx_mono l : forall h c, chan_mask (h_mask h) c = true -> chan_mask (h_mask (run h l)) c = true.
  Proof. unfold run, run_opsx. induction l as [|o l IH]; intros h c H; cbn [fold_left]; [assumption|].
    apply IH. now apply run_opx_mono. Qed.

  Lemma run_opx_covers h o : covers (h_mask h) -> covers (h_mask (step h o)).
  Proof. intros Hs c. specialize (Hs c). unfold step, run_opx. destruct o as [fm|m|f|t]; cbn [h_mask].
    - destruct (apply_mask_x_spec nchans freqs (h_mask h) fm) as [Hu [Hc [-> ->]]]. rewrite Hu, Hc.
      destruct (in_ranges_x (freqs c) fm), (user_mask (h_mask h) c), (stats_mask (h_mask h) c), (custom_mask (h_mask h) c), (chan_mask (h_mask h) c);
        cbn in *; intuition congruence.
    - destruct (apply_method dmm iqm var skew kurt (h_thr h) (h_mask h) m) as [s'|] eqn:E; cbn [h_mask]; [|apply Hs].
      destruct (apply_method_spec _ _ _ _ _ _ _ _ _ E) as [? [? [? [? [_ [_ [_ [_ [_ [Hc [-> ->]]]]]]]]]]].
      rewrite Hc.
      destruct (stats_mask s' c), (user_mask (h_mask h) c), (stats_mask (h_mask h) c), (custom_mask (h_mask h) c), (chan_mask (h_mask h) c);
        cbn in *; intuition congruence.
    - destruct (apply_funcn_spec (h_mask h) f) as [-> [Hc [-> ->]]]. rewrite Hc.
      destruct (f (chan_mask (h_mask h)) c), (user_mask (h_mask h) c), (stats_mask (h_mask h) c), (custom_mask (h_mask h) c), (chan_mask (h_mask h) c);
        cbn in *; intuition congruence.
    - exact Hs. Qed.

  Lemma run_opsx_covers l : forall h, covers (h_mask h) -> covers (h_mask (run h l)).
  Proof. unfold run, run_opsx. induction l as [|o l IH]; intros h H; cbn [fold_left]; [assumption|].
    apply IH. now apply run_opx_covers. Qed.

  (** the threshold the object holds is the last one assigned *)
  Lemma run_opx_thr h o : h_thr (step h o) = match o with XThr t => t | _ => h_thr h end.
  Proof. unfold step, run_opx. destruct o as [fm|m|f|t]; cbn [h_thr]; try reflexivity.
    destruct (apply_method dmm iqm var skew kurt (h_thr h) (h_mask h) m); reflexivity. Qed.

  Lemma run_opsx_thr l : forall h, h_thr (run h l) = current_thr (h_thr h) l.
  Proof. unfold run, run_opsx, current_thr. induction l as [|o l IH]; intro h; cbn [fold_left]; [reflexivity|].
    rewrite IH. fold step. rewrite run_opx_thr. reflexivity. Qed.

  (** apply_method after any history: the statistics mask is the method's decision on variance, skewness and kurtosis at the
      threshold the object holds NOW (the last one assigned), whatever thresholds earlier calls were made with; the channel
      mask gains exactly those channels; user and custom mask are untouched.  And it raises only if the method is unknown
      or one of the three decisions raises. *)
  Lemma method_after_history h l m :
    let h1 := run h l in
    let t := current_thr (h_thr h) l in
    match apply_method dmm iqm var skew kurt t (h_mask h1) m with
    | Some s' =>
        step h1 (XMethod m) = HState s' t /\
        exists fn mv ms mk, (m = M_mad /\ fn = dmm \/ m = M_iqrm /\ fn = iqm) /\
          fn var t = Some mv /\ fn skew t = Some ms /\ fn kurt t = Some mk /\
          (forall c, stats_mask s' c = mv c || ms c || mk c) /\
          (forall c, chan_mask s' c = chan_mask (h_mask h1) c || stats_mask s' c) /\
          user_mask s' = user_mask (h_mask h1) /\ custom_mask s' = custom_mask (h_mask h1)
    | None => step h1 (XMethod m) = h1
    end.
  Proof. cbv zeta. pose proof (run_opsx_thr l h) as T. unfold step, run_opx. rewrite <- T.
    destruct (apply_method dmm iqm var skew kurt (h_thr (run h l)) (h_mask (run h l)) m) as [s'|] eqn:E; [|reflexivity].
    split; [reflexivity|]. apply (apply_method_spec _ _ _ _ _ _ _ _ _ E). Qed.

  (** old histories are extended histories with one threshold *)
  Lemma run_opx_of_op thr s o c :
    let a := h_mask (step (HState s thr) (opx_of o)) in
    let b := run_op dmm iqm nchans freqs var skew kurt thr s o in
    h_thr (step (HState s thr) (opx_of o)) = thr /\
    chan_mask a c = chan_mask b c /\ user_mask a c = user_mask b c /\ stats_mask a = stats_mask b /\ custom_mask a = custom_mask b.
  Proof. cbv zeta. unfold step, run_opx, run_op. destruct o as [fm|m|f]; cbn [opx_of h_mask h_thr].
    - split; [reflexivity|]. apply apply_mask_x_fin.
    - destruct (apply_method dmm iqm var skew kurt thr s m); cbn [h_mask h_thr]; repeat split; reflexivity.
    - repeat split; reflexivity. Qed.
End HistX.

(** with the generated double MAD rule and a positive current threshold the statistics mask is |z| > threshold on each statistic *)
Lemma mad_after_history zs iqm nchans freqs var skew kurt h l :
  let dmm := mad_fn zs in
  let h1 := run_opsx dmm iqm nchans freqs var skew kurt h l in
  let t := current_thr (h_thr h) l in
  (0 < t)%Q ->
  exists s', run_opx dmm iqm nchans freqs var skew kurt h1 (XMethod M_mad) = HState s' t /\
    forall c, stats_mask s' c = mad_flag zs t var c || mad_flag zs t skew c || mad_flag zs t kurt c.
Proof. cbv zeta. intro Ht.
  pose proof (method_after_history (mad_fn zs) iqm nchans freqs var skew kurt h l M_mad) as H. cbv zeta in H.
  destruct (double_mad_spec zs var _ Ht) as [v1 [E1 F1]].
  destruct (double_mad_spec zs skew _ Ht) as [v2 [E2 F2]].
  destruct (double_mad_spec zs kurt _ Ht) as [v3 [E3 F3]].
  destruct (apply_method (mad_fn zs) iqm var skew kurt (current_thr (h_thr h) l) _ M_mad) as [s'|] eqn:E.
  - destruct H as [Hs [fn [mv [ms [mk [[[_ ->]|[D _]] [H1 [H2 [H3 [Hst _]]]]]]]]]]; [|discriminate].
    exists s'. split; [exact Hs|]. intro c. rewrite Hst. unfold mad_fn in *.
    rewrite E1 in H1. rewrite E2 in H2. rewrite E3 in H3. injection H1 as <-. injection H2 as <-. injection H3 as <-.
    now rewrite F1, F2, F3.
  - exfalso. unfold apply_method, mad_fn in E. rewrite E1, E2, E3 in E. discriminate. Qed.
