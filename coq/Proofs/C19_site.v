(** C19 -- the caller-side obligation of kernels.subband (every entry of chan_to_sub is below nsubs), discharged from
    the way Filterbank.subband builds the table when nsub divides nchans; and what happens when it does not:
    the table reaches nsubs, iteration isamp then also updates the first element of row isamp+1, and two
    interleavings of the SAME kernel call end in different memories (a lost update). *)
From Coq Require Import ZArith List Bool Lia ZifyBool.
Require Import SPP.Model.C19_Prog SPP.Gen.C19Threads SPP.Model.C19_Footprints SPP.Proofs.C19_sched SPP.Proofs.C19_kernels.
Import ListNotations.
Open Scope Z_scope.

Lemma subband_site_range nchans nsub c : 0 < nsub -> nchans mod nsub = 0 -> 0 <= c < nchans ->
  0 <= subband_site_chan_to_sub nchans nsub c < nsub.
Proof. intros Hs Hd Hc. unfold subband_site_chan_to_sub. cbv zeta.
  assert (Hq : nchans = nsub * (nchans / nsub)) by (apply Z_div_exact_full_2; lia).
  assert (0 < nchans / nsub) by nia.
  split; [apply Z.div_pos; lia|]. apply Z.div_lt_upper_bound; [lia|]. nia. Qed.

(** while the call site has no guard, the table can reach nsub (and is then handed to the kernel) *)
Lemma subband_site_refuted : subband_site_guarded = false ->
  exists nchans nsub c, 0 < nsub <= nchans /\ 0 <= c < nchans /\ subband_site_guard nchans nsub = true /\
                        nsub <= subband_site_chan_to_sub nchans nsub c.
Proof. intro G. first [ discriminate G | exists 10, 4, 8; vm_compute; repeat split; congruence ]. Qed.

(** once the call site rejects the bad sub-band counts, whatever passes the guard meets the obligation *)
Lemma subband_site_guard_sound : subband_site_guarded = true ->
  forall nchans nsub, subband_site_guard nchans nsub = true -> nchans mod nsub = 0.
Proof. intro G. first [ discriminate G | intros nchans nsub H; unfold subband_site_guard in H; lia ]. Qed.

Lemma subband_site_ok : subband_site_guarded = true ->
  forall nchans nsub c, subband_site_guard nchans nsub = true -> 0 < nsub -> 0 <= c < nchans ->
  0 <= subband_site_chan_to_sub nchans nsub c < nsub.
Proof. intros G nchans nsub c H Hs Hc. apply subband_site_range; auto. eapply subband_site_guard_sound; eauto. Qed.

Lemma subband_site_status :
  subband_site_guarded = true \/
  (exists nchans nsub c, 0 < nsub <= nchans /\ 0 <= c < nchans /\ subband_site_guard nchans nsub = true /\
                         nsub <= subband_site_chan_to_sub nchans nsub c).
Proof. destruct subband_site_guarded eqn:G; [left; reflexivity|right; now apply subband_site_refuted]. Qed.

(** kernel + call site: with the table of Filterbank.subband and nsub | nchans the kernel is schedule independent *)
Theorem subband_sched_site maxdelay nchans nsub nsamps m : 0 < nsub -> nchans mod nsub = 0 ->
  (forall c, 0 <= c < nchans -> m (subband_ID_chan_to_sub, c) = subband_site_chan_to_sub nchans nsub c) ->
  schedule_independent_from (subband_threads maxdelay nchans nsub nsamps) m.
Proof. intros Hs Hd Ht. apply subband_sched. intros [a k] E Hk. cbn [fst snd] in *. subst a.
  rewrite Ht by assumption. now apply subband_site_range. Qed.

(** ** explicit schedules *)
Lemma nth_error_split_firstn {A} (l : list A) i a : nth_error l i = Some a -> l = firstn i l ++ a :: skipn (S i) l.
Proof. revert l. induction i as [|i IH]; intros [|x l] H; cbn in *; try discriminate.
  - now injection H as ->.
  - f_equal. now apply IH. Qed.

Lemma step_thread_steps i c : steps c (step_thread i c).
Proof. destruct c as [ps m]. unfold step_thread. cbn [fst snd].
  destruct (nth_error ps i) as [p|] eqn:E; [|constructor].
  destruct p as [a|l k|l v k]; [constructor| |].
  - rewrite (nth_error_split_firstn ps i _ E) at 1. eapply st_step; [apply s_read|constructor].
  - rewrite (nth_error_split_firstn ps i _ E) at 1. eapply st_step; [apply s_write|constructor]. Qed.

Lemma sched_run_steps s : forall c, steps c (sched_run s c).
Proof. induction s as [|i s IH]; intro c; cbn; [constructor|].
  eapply steps_trans; [apply step_thread_steps|apply IH]. Qed.

Lemma is_done_all ps : forallb is_done ps = true -> all_done ps.
Proof. induction ps as [|p ps IH]; cbn; intro H; [constructor|].
  apply andb_prop in H. destruct H as [H1 H2]. constructor; [|now apply IH].
  destruct p as [[]| |]; try discriminate. reflexivity. Qed.

(** ** the race: 3 channels into 2 sub-bands, the table Filterbank.subband builds is [0; 1; 2] *)
Definition race_mem : mem :=
  mem_of [(subband_ID_inarray, [1; 2; 3; 4; 5; 6]); (subband_ID_outarray, [0; 0; 0; 0; 0; 0]);
          (subband_ID_delays, [0; 0; 0]);
          (subband_ID_chan_to_sub, map (subband_site_chan_to_sub 3 2) [0; 1; 2])].
Definition race_threads : list prog := subband_threads 0 3 2 2.
(** thread 0 loads outarray[2] for its last channel, thread 1 runs to completion, thread 0 stores *)
Definition race_schedule : list nat := repeat 0%nat 12 ++ repeat 1%nat 15 ++ repeat 0%nat 3.
Definition seq_schedule : list nat := repeat 0%nat 15 ++ repeat 1%nat 15.

Lemma subband_race_refuted :
  exists ps1 m1 ps2 m2,
    steps (race_threads, race_mem) (ps1, m1) /\ all_done ps1 /\
    steps (race_threads, race_mem) (ps2, m2) /\ all_done ps2 /\
    m1 (subband_ID_outarray, 2) = 7 /\ m2 (subband_ID_outarray, 2) = 3 /\
    seq_run race_threads race_mem (subband_ID_outarray, 2) = 7.
Proof.
  exists (fst (sched_run seq_schedule (race_threads, race_mem))), (snd (sched_run seq_schedule (race_threads, race_mem))),
         (fst (sched_run race_schedule (race_threads, race_mem))), (snd (sched_run race_schedule (race_threads, race_mem))).
  rewrite <- !surjective_pairing.
  split; [apply sched_run_steps|]. split; [apply is_done_all; vm_compute; reflexivity|].
  split; [apply sched_run_steps|]. split; [apply is_done_all; vm_compute; reflexivity|].
  repeat split; vm_compute; reflexivity. Qed.

(** the obligation is what fails there: the memory does not satisfy the invariant of [subband_sched] *)
Lemma subband_race_breaks_obligation : ~ okm (subband_inv 3 2) race_mem.
Proof. intro H. specialize (H (subband_ID_chan_to_sub, 2) eq_refl). cbn [snd] in H. specialize (H ltac:(lia)).
  vm_compute in H. destruct H as [_ H]. discriminate H. Qed.
