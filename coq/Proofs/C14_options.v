(** C14: the compile options of the two mean kernels that the integer model relies on. *)
From Coq Require Import ZArith Bool.
Require Import SPP.Base.Rt SPP.Gen.C14_stats.

(** the njit options the integer model of the mean kernels rests on (float64 accumulator, true division not replaced by a
    multiplication with the reciprocal) are read from the source by the translator, which refuses anything else *)
Lemma mean_kernel_options : ds_accumulator_is_f8 = true /\ ds_division_is_exact = true.
Proof. split; reflexivity. Qed.

