(** C14, decimators: the two compiled mean kernels (Gen/Kernels.v, regenerated from kernels.py on every run),
    the wrappers' kernel calls and NumPy paths (Gen/C14_stats.v, regenerated from stats.py / block.py) equal
    "aggregate of each consecutive full group", for every size and every factor. *)
From Coq Require Import ZArith List Bool Lia ZifyBool.
Require Import SPP.Base.Rt SPP.Base.Iter SPP.Gen.Kernels SPP.Gen.C14_stats SPP.Model.C14_filters.
Import ListNotations.
Open Scope Z_scope.
Ltac Zify.zify_post_hook ::= Z.to_euclidean_division_equations.

(** * Sums as lists *)
Lemma sumZ_app l r : sumZ (l ++ r) = sumZ l + sumZ r.
Proof. induction l as [|a l IH]; cbn; [reflexivity|]. unfold sumZ in *. rewrite IH. lia. Qed.

Lemma zrange_S n : zrange (Z.of_nat (S n)) = zrange (Z.of_nat n) ++ [Z.of_nat n].
Proof. unfold zrange. rewrite !Nat2Z.id, seq_S, map_app. reflexivity. Qed.

Lemma zrange_nat f : zrange f = zrange (Z.of_nat (Z.to_nat f)).
Proof. unfold zrange. now rewrite Nat2Z.id. Qed.

Lemma sumZ_map_zrange f g : sumZ (map g (zrange f)) = sum_n (Z.to_nat f) g.
Proof. rewrite zrange_nat. induction (Z.to_nat f) as [|n IH]; [reflexivity|].
  rewrite zrange_S, map_app, sumZ_app, IH. cbn. lia. Qed.

Lemma sumZ_flat_map_zrange f1 f2 (g : Z -> Z -> Z) :
  sumZ (flat_map (fun a => map (g a) (zrange f2)) (zrange f1)) = sum_n (Z.to_nat f1) (fun a => sum_n (Z.to_nat f2) (g a)).
Proof. rewrite (zrange_nat f1). induction (Z.to_nat f1) as [|n IH]; [reflexivity|].
  rewrite zrange_S, flat_map_app, sumZ_app, IH. cbn [flat_map sum_n]. rewrite app_nil_r, sumZ_map_zrange. reflexivity. Qed.

Lemma flat_map_ext_in {A B} (f g : A -> list B) l : (forall a, In a l -> f a = g a) -> flat_map f l = flat_map g l.
Proof. induction l as [|a l IH]; intro E; cbn; [reflexivity|]. rewrite E by (left; reflexivity).
  rewrite IH; [reflexivity|]. intros; apply E; now right. Qed.

(** * Loop shapes *)
(** accumulate loop  temp += g i *)
Lemma iter_acc_sum n (g : Z -> Z) t0 : iter n (fun i t => t + g i) t0 = t0 + sum_n n g.
Proof. induction n as [|m IH]; cbn [iter sum_n]; [lia|]. rewrite IH. lia. Qed.

Lemma iter_acc_sum2 n1 n2 (g : Z -> Z -> Z) t0 :
  iter n1 (fun a t => iter n2 (fun b t => t + g a b) t) t0 = t0 + sum_n n1 (fun a => sum_n n2 (g a)).
Proof. induction n1 as [|m IH]; cbn [iter sum_n]; [lia|]. rewrite iter_acc_sum, IH. lia. Qed.

(** a loop whose iteration [ii] stores at position [ii] only *)
Lemma iter_store_at (n : nat) (g : Z -> Z) (u : arr) :
  forall k, iter n (fun ii w => upd w ii (g ii)) u k = if (0 <=? k) && (k <? Z.of_nat n) then g k else u k.
Proof. intro k. rewrite (iter_ext n _ (fun i o => upd o (0 + i) (g i))) by reflexivity.
  rewrite iter_assign_affine. replace (k - 0) with k by lia. reflexivity. Qed.

(** two nested loops storing at [c * i + j], j < c: every position of [0, c*n) is stored exactly once *)
Lemma iter2_store (c : Z) (n : nat) (V : Z -> Z -> Z) (u : arr) : 0 <= c ->
  forall k, iter n (fun i r => iter (Z.to_nat c) (fun j r => upd r (c * i + j) (V i j)) r) u k =
    if (0 <=? k) && (k <? c * Z.of_nat n) then V (k / c) (k mod c) else u k.
Proof. intros Hc. induction n as [|m IH]; intro k.
  - cbn [iter]. destruct (0 <=? k) eqn:?, (k <? c * Z.of_nat 0) eqn:?; cbn; try reflexivity; lia.
  - cbn [iter]. rewrite (iter_assign_affine (Z.to_nat c) (c * Z.of_nat m) (V (Z.of_nat m))). rewrite IH. rewrite Z2Nat.id by lia.
    destruct (c * Z.of_nat m <=? k) eqn:E1, (k <? c * Z.of_nat m + c) eqn:E2; cbn [andb].
    + assert (0 < c) by lia.
      assert (k / c = Z.of_nat m) as -> by (symmetry; apply Z.div_unique with (r := k - c * Z.of_nat m); lia).
      assert (k mod c = k - c * Z.of_nat m) as -> by (symmetry; apply Z.mod_unique with (q := Z.of_nat m); lia).
      destruct (0 <=? k) eqn:?, (k <? c * Z.of_nat (S m)) eqn:?; cbn; try reflexivity; lia.
    + destruct (0 <=? k) eqn:?, (k <? c * Z.of_nat m) eqn:?, (k <? c * Z.of_nat (S m)) eqn:?; cbn; try reflexivity; lia.
    + destruct (0 <=? k) eqn:?, (k <? c * Z.of_nat m) eqn:?, (k <? c * Z.of_nat (S m)) eqn:?; cbn; try reflexivity; lia.
    + destruct (0 <=? k) eqn:?, (k <? c * Z.of_nat m) eqn:?, (k <? c * Z.of_nat (S m)) eqn:?; cbn; try reflexivity; lia.
Qed.

(** * kernels.downsample_1d_mean *)
Lemma ds1_kernel_spec divcast n junk x f : 0 <= n -> 1 <= f ->
  forall k, downsample_1d_mean_run divcast n junk x f k =
    if (0 <=? k) && (k <? n / f) then divcast (sumZ (group1 x f k)) f else junk k.
Proof. intros Hn Hf k. unfold downsample_1d_mean_run. cbv zeta.
  rewrite (iter_ext _ _ (fun ii w => upd w ii (divcast (sumZ (group1 x f ii)) f))).
  - rewrite iter_store_at. rewrite Z2Nat.id by (apply Z.div_pos; lia). reflexivity.
  - intros ii w Hii. f_equal. f_equal. rewrite iter_acc_sum. unfold group1. rewrite sumZ_map_zrange. lia. Qed.

Lemma ds1_reads_in_bounds n f k j : 0 <= n -> 1 <= f -> 0 <= k < n / f -> 0 <= j < f ->
  0 <= k * f + j < n / f * f /\ n / f * f <= n.
Proof. intros. nia. Qed.

Lemma group1_ext x x' f i lim : (forall t, 0 <= t < lim -> x t = x' t) -> 0 <= i -> 1 <= f -> (i + 1) * f <= lim ->
  group1 x f i = group1 x' f i.
Proof. intros E Hi Hf Hl. unfold group1. apply map_ext_in. intros j Hj. apply In_zrange in Hj. apply E. nia. Qed.

(** the incomplete remainder is never read *)
Lemma ds1_ignores_remainder divcast n junk x x' f : 0 <= n -> 1 <= f ->
  (forall t, 0 <= t < n / f * f -> x t = x' t) ->
  forall k, downsample_1d_mean_run divcast n junk x f k = downsample_1d_mean_run divcast n junk x' f k.
Proof. intros Hn Hf E k. rewrite !ds1_kernel_spec by assumption.
  destruct (0 <=? k) eqn:?, (k <? n / f) eqn:?; cbn [andb]; try reflexivity.
  rewrite (group1_ext x x' f k (n / f * f)); auto; try lia. nia. Qed.

(** the wrapper passes (array, factor) in the kernel's order, and rejects exactly factor <= 0 or factor > n *)
Lemma ds1_mean_call_spec divcast n junk x f : ds1_rejects n f = false -> 0 <= n ->
  1 <= f <= n /\
  forall k, ds1_mean_call divcast n junk x f k =
    if (0 <=? k) && (k <? n / f) then divcast (sumZ (group1 x f k)) f else junk k.
Proof. unfold ds1_rejects, ds1_mean_call. intros Hr Hn. split; [lia|]. apply ds1_kernel_spec; lia. Qed.

(** * kernels.downsample_2d_mean_flat *)
Lemma ds2_kernel_spec divcast junk x f1 f2 dim1 dim2 : 1 <= f1 -> 1 <= f2 -> 0 <= dim1 -> 0 <= dim2 ->
  forall k, downsample_2d_mean_flat_run divcast junk x f1 f2 dim1 dim2 k =
    if (0 <=? k) && (k <? (dim1 / f1) * (dim2 / f2))
    then divcast (sumZ (group2 x dim2 f1 f2 (k / (dim2 / f2)) (k mod (dim2 / f2)))) (f1 * f2) else junk k.
Proof. intros H1 H2 Hd1 Hd2 k. unfold downsample_2d_mean_flat_run. cbv zeta.
  assert (Hn1 : 0 <= dim1 / f1) by (apply Z.div_pos; lia).
  assert (Hn2 : 0 <= dim2 / f2) by (apply Z.div_pos; lia).
  set (V := fun i j => divcast (sumZ (group2 x dim2 f1 f2 i j)) (f1 * f2)).
  rewrite (iter_ext _ _ (fun i r => iter (Z.to_nat (dim2 / f2)) (fun j r => upd r (dim2 / f2 * i + j) (V i j)) r)).
  - rewrite iter2_store by assumption. rewrite Z2Nat.id by assumption. rewrite (Z.mul_comm (dim2 / f2)). reflexivity.
  - intros i r Hi. apply iter_ext. intros j r' Hj. unfold V. f_equal. f_equal.
    rewrite iter_acc_sum2. unfold group2. rewrite sumZ_flat_map_zrange. rewrite Z.add_0_l.
    apply sum_n_ext. intros a Ha. apply sum_n_ext. intros b Hb. f_equal. ring.
Qed.

(** every read of the kernel is inside the array, inside the cropped block, and in the stated rows / columns *)
Lemma ds2_reads_in_bounds f1 f2 dim1 dim2 i j a b : 1 <= f1 -> 1 <= f2 -> 0 <= dim1 -> 0 <= dim2 ->
  0 <= i < dim1 / f1 -> 0 <= j < dim2 / f2 -> 0 <= a < f1 -> 0 <= b < f2 ->
  0 <= i * f1 + a < dim1 / f1 * f1 /\ dim1 / f1 * f1 <= dim1 /\
  0 <= j * f2 + b < dim2 / f2 * f2 /\ dim2 / f2 * f2 <= dim2 /\
  0 <= dim2 * (i * f1 + a) + (j * f2 + b) < dim1 * dim2.
Proof. intros. assert (0 <= i * f1 + a < dim1 / f1 * f1) by nia. assert (dim1 / f1 * f1 <= dim1) by nia.
  assert (0 <= j * f2 + b < dim2 / f2 * f2) by nia. assert (dim2 / f2 * f2 <= dim2) by nia. repeat split; try lia; nia. Qed.

(** the store index  new_dim2 * i + j  is a bijection from the (i, j) rectangle onto [0, new_dim1 * new_dim2):
    every output position is written exactly once (no two iterations of the prange loop touch the same position) *)
Lemma ds2_write_index_inj c i j i' j' : 0 <= j < c -> 0 <= j' < c -> c * i + j = c * i' + j' -> i = i' /\ j = j'.
Proof. intros. assert (i = i') by nia. subst. lia. Qed.

Lemma ds2_write_index_onto c n k : 0 <= k < n * c -> 0 <= n ->
  0 <= k / c < n /\ 0 <= k mod c < c /\ c * (k / c) + k mod c = k.
Proof. intros Hk Hn. assert (0 < c) by nia. repeat split; try (apply Z.mod_pos_bound; lia); try (apply Z.div_pos; lia).
  - apply Z.div_lt_upper_bound; nia.
  - symmetry. apply Z.div_mod. lia. Qed.

Lemma group2_ext x x' dim2 f1 f2 i j : 1 <= f1 -> 1 <= f2 -> 0 <= i -> 0 <= j -> 0 <= dim2 ->
  (forall r c, 0 <= r < (i + 1) * f1 -> 0 <= c < (j + 1) * f2 -> x (dim2 * r + c) = x' (dim2 * r + c)) ->
  group2 x dim2 f1 f2 i j = group2 x' dim2 f1 f2 i j.
Proof. intros H1 H2 Hi Hj Hd E. unfold group2. apply flat_map_ext_in. intros a Ha. apply In_zrange in Ha.
  apply map_ext_in. intros b Hb. apply In_zrange in Hb. apply E; nia. Qed.

(** rows >= new_dim1 * factor1 and columns >= new_dim2 * factor2 are never read *)
Lemma ds2_ignores_remainder divcast junk x x' f1 f2 dim1 dim2 : 1 <= f1 -> 1 <= f2 -> 0 <= dim1 -> 0 <= dim2 ->
  (forall r c, 0 <= r < dim1 / f1 * f1 -> 0 <= c < dim2 / f2 * f2 -> x (dim2 * r + c) = x' (dim2 * r + c)) ->
  forall k, downsample_2d_mean_flat_run divcast junk x f1 f2 dim1 dim2 k = downsample_2d_mean_flat_run divcast junk x' f1 f2 dim1 dim2 k.
Proof. intros H1 H2 Hd1 Hd2 E k. rewrite !ds2_kernel_spec by assumption.
  destruct (0 <=? k) eqn:?, (k <? dim1 / f1 * (dim2 / f2)) eqn:?; cbn [andb]; try reflexivity.
  assert (Hn1 : 0 <= dim1 / f1) by (apply Z.div_pos; lia).
  destruct (ds2_write_index_onto (dim2 / f2) (dim1 / f1) k) as [Hq [Hr _]]; try lia.
  rewrite (group2_ext x x' dim2 f1 f2 (k / (dim2 / f2)) (k mod (dim2 / f2))); auto; try lia.
  intros r c Hr' Hc'. apply E; nia. Qed.

(** the wrapper stats.downsample_2d_flat passes its arguments in the kernel's order *)
Lemma ds2f_mean_call_spec divcast junk x n f1 f2 dim1 dim2 : ds2f_rejects n f1 f2 dim1 dim2 = false -> 0 <= dim1 -> 0 <= dim2 ->
  1 <= f1 /\ 1 <= f2 /\ n = dim1 * dim2 /\
  forall k, ds2f_mean_call divcast junk x f1 f2 dim1 dim2 k =
    if (0 <=? k) && (k <? (dim1 / f1) * (dim2 / f2))
    then divcast (sumZ (group2 x dim2 f1 f2 (k / (dim2 / f2)) (k mod (dim2 / f2)))) (f1 * f2) else junk k.
Proof. unfold ds2f_rejects, ds2f_mean_call. intros Hr Hd1 Hd2. repeat split; try lia. apply ds2_kernel_spec; lia. Qed.

(** * The NumPy paths: crop, C-order reshape, reduction over axes (1, 3) *)
Lemma ds2_axes_13 : ds2_axes = [1; 3] /\ ds2f_axes = [1; 3].
Proof. split; reflexivity. Qed.

Lemma reshape4_index i a j b f1 f2 nd2 : 0 <= a -> 0 <= j < nd2 -> 0 <= b < f2 -> 0 <= i ->
  let l := ((i * f1 + a) * nd2 + j) * f2 + b in
  l / (nd2 * f2) = i * f1 + a /\ l mod (nd2 * f2) = j * f2 + b.
Proof. intros Ha Hj Hb Hi l. subst l. split.
  - symmetry. apply Z.div_unique with (r := j * f2 + b); nia.
  - symmetry. apply Z.mod_unique with (q := i * f1 + a); nia. Qed.

Lemma np_reduce13_group agg x dim2 nd1 nd2 f1 f2 i j : 1 <= f1 -> 1 <= f2 -> 0 <= i -> 0 <= j < nd2 ->
  np_reduce13 agg x dim2 (nd1 * f1, nd2 * f2) (nd1, f1, nd2, f2) i j = agg (group2 x dim2 f1 f2 i j).
Proof. intros H1 H2 Hi Hj. unfold np_reduce13, group2. f_equal. apply flat_map_ext_in. intros a Ha. apply In_zrange in Ha.
  apply map_ext_in. intros b Hb. apply In_zrange in Hb. unfold np_crop_reshape4. cbn [snd].
  destruct (reshape4_index i a j b f1 f2 nd2) as [-> ->]; first [lia | reflexivity]. Qed.

(** stats.downsample_2d: result shape (dim1/f1, dim2/f2), entry (i, j) is the aggregate of group (i, j) *)
Lemma ds2_model_spec agg x dim1 dim2 f1 f2 i j : 1 <= f1 -> 1 <= f2 -> 0 <= i -> 0 <= j < dim2 / f2 ->
  (let '(s0, _, s2, _) := ds2_shape dim1 dim2 f1 f2 in (s0, s2)) = (dim1 / f1, dim2 / f2) /\
  ds2_model agg x dim1 dim2 f1 f2 i j = agg (group2 x dim2 f1 f2 i j).
Proof. intros. split; [reflexivity|]. unfold ds2_model, ds2_shape, ds2_crop. cbv zeta. apply np_reduce13_group; assumption. Qed.

(** stats.downsample_1d, median path: length n/f, entry i is the aggregate of x[i f .. i f + f) *)
Lemma ds1_median_spec agg x n f : 1 <= f -> 0 <= n ->
  ds1_median_len n f = n / f /\ forall i, ds1_median_model agg x n f i = agg (group1 x f i).
Proof. intros Hf Hn. unfold ds1_median_len, ds1_median_model, ds1_median_crop, ds1_median_cols, np_rows, np_rows_reduce. cbv zeta.
  split; [|reflexivity]. apply Z.div_mul. lia. Qed.

(** stats.downsample_2d_flat, median path *)
Lemma ds2f_median_spec agg x f1 f2 dim1 dim2 k : 1 <= f1 -> 1 <= f2 -> 0 <= dim1 -> 0 <= dim2 ->
  0 <= k < (dim1 / f1) * (dim2 / f2) ->
  ds2f_median_model agg x f1 f2 dim1 dim2 k = agg (group2 x dim2 f1 f2 (k / (dim2 / f2)) (k mod (dim2 / f2))).
Proof. intros H1 H2 Hd1 Hd2 Hk. unfold ds2f_median_model, ds2f_shape, ds2f_crop, ds2f_dims. cbv zeta. cbn [snd].
  assert (Hn1 : 0 <= dim1 / f1) by (apply Z.div_pos; lia).
  destruct (ds2_write_index_onto (dim2 / f2) (dim1 / f1) k) as [Hq [Hr _]]; try lia.
  apply np_reduce13_group; lia. Qed.

(** the flat mean kernel and the 2-D NumPy path give the same groups the same roles: entry k of the flat result is
    entry (k / new_dim2, k mod new_dim2) of the 2-D result *)
Lemma ds2_flat_agrees_2d divcast junk x f1 f2 dim1 dim2 k : 1 <= f1 -> 1 <= f2 -> 0 <= dim1 -> 0 <= dim2 ->
  0 <= k < (dim1 / f1) * (dim2 / f2) ->
  ds2f_mean_call divcast junk x f1 f2 dim1 dim2 k =
  ds2_model (fun l => divcast (sumZ l) (f1 * f2)) x dim1 dim2 f1 f2 (k / (dim2 / f2)) (k mod (dim2 / f2)).
Proof. intros H1 H2 Hd1 Hd2 Hk. unfold ds2f_mean_call. rewrite ds2_kernel_spec by assumption.
  replace ((0 <=? k) && (k <? dim1 / f1 * (dim2 / f2))) with true by lia.
  assert (Hn1 : 0 <= dim1 / f1) by (apply Z.div_pos; lia).
  destruct (ds2_write_index_onto (dim2 / f2) (dim1 / f1) k) as [Hq [Hr _]]; try lia.
  destruct (ds2_model_spec (fun l => divcast (sumZ l) (f1 * f2)) x dim1 dim2 f1 f2 (k / (dim2 / f2)) (k mod (dim2 / f2))) as [_ ->]; first [lia | reflexivity].
Qed.

(** FilterbankBlock.downsample: channel groups of [ffactor] rows, time groups of [tfactor] columns *)
Lemma block_downsample_spec agg x nchans nsamps ff tf i j : 1 <= ff -> 1 <= tf -> 0 <= i -> 0 <= j < nsamps / tf ->
  block_downsample_model agg x nchans nsamps ff tf i j = agg (group2 x nsamps ff tf i j).
Proof. intros. unfold block_downsample_model, block_downsample_factors.
  destruct (ds2_model_spec agg x nchans nsamps ff tf i j) as [_ ->]; auto. Qed.

(** TimeSeries.downsample returns the series itself exactly for factor 1, which is what the definition gives *)
Lemma group1_factor1 x i : group1 x 1 i = [x i].
Proof. unfold group1. change (zrange 1) with [0]. cbn [map]. f_equal. f_equal. lia. Qed.
Lemma ts_identity_factor : ts_downsample_identity_factors = [1].
Proof. reflexivity. Qed.

(** "exact quotient, then the truncating store into uint8": a group whose mean is a whole number yields that number *)
Lemma divcast_u8_exact q f : 0 <= q < 256 -> 1 <= f -> divcast_u8 (q * f) f = q.
Proof. intros Hq Hf. unfold divcast_u8. rewrite Z.div_mul by lia. apply Z.mod_small. lia. Qed.

Lemma divcast_u8_floor t f : 1 <= f -> 0 <= t < 256 * f -> divcast_u8 t f = t / f /\ f * (t / f) <= t < f * (t / f + 1).
Proof. intros Hf Ht. unfold divcast_u8. assert (0 <= t / f < 256) by (split; [apply Z.div_pos; lia | apply Z.div_lt_upper_bound; lia]).
  rewrite Z.mod_small by lia. split; [reflexivity|]. pose proof (Z.div_mod t f). pose proof (Z.mod_pos_bound t f). lia. Qed.
