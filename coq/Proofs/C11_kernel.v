(** C11, kernel level: what the regenerated loop nest of kernels.fold (Gen.C11Fold.fold_run) accumulates, and the
    binning formulas it evaluates (floor of exact quotients; float rounding is not modelled). *)
From Coq Require Import ZArith QArith Qround Qabs Qfield List Bool Lia ZifyBool.
Require Import SPP.Base.Rt SPP.Base.Iter SPP.Gen.C11Fold SPP.Model.C11_rt SPP.Model.C11_fold.
Import ListNotations.
Open Scope Z_scope.
Ltac Zify.zify_post_hook ::= Z.to_euclidean_division_equations.

(** * the accumulating loop nest *)
Definition acc_in (pos val : Z -> Z) : Z -> arr * arr -> arr * arr :=
  fun c '(f, cn) => (upd f (pos c) (f (pos c) + val c), upd cn (pos c) (cn (pos c) + 1)).
Definition acc_out (m : nat) (pos val : Z -> Z -> Z) : Z -> arr * arr -> arr * arr :=
  fun i '(f, cn) => iter m (acc_in (pos i) (val i)) (f, cn).

Lemma acc_in_split m pos val f cn :
  iter m (acc_in pos val) (f, cn) =
  (iter m (fun c s => upd s (pos c) (s (pos c) + val c)) f, iter m (fun c s => upd s (pos c) (s (pos c) + 1)) cn).
Proof. induction m as [|m IH]; [reflexivity|]. cbn [iter]. rewrite IH. reflexivity. Qed.

Lemma acc_in_spec m pos val f cn k :
  fst (iter m (acc_in pos val) (f, cn)) k = f k + sumif m (fun c => k =? pos c) val /\
  snd (iter m (acc_in pos val) (f, cn)) k = cn k + sumif m (fun c => k =? pos c) (fun _ => 1).
Proof. rewrite acc_in_split. cbn [fst snd]. split; apply iter_accum. Qed.

Lemma acc_out_spec n m pos val f0 c0 k :
  fst (iter n (acc_out m pos val) (f0, c0)) k = f0 k + sum_n n (fun i => sumif m (fun c => k =? pos i c) (val i)) /\
  snd (iter n (acc_out m pos val) (f0, c0)) k = c0 k + sum_n n (fun i => sumif m (fun c => k =? pos i c) (fun _ => 1)).
Proof. induction n as [|n IH]; [cbn; lia|]. cbn [iter sum_n].
  destruct (iter n (acc_out m pos val) (f0, c0)) as [f cn] eqn:E. cbn [fst snd] in IH. destruct IH as [IHf IHc].
  change (acc_out m pos val (Z.of_nat n) (f, cn)) with (iter m (acc_in (pos (Z.of_nat n)) (val (Z.of_nat n))) (f, cn)).
  destruct (acc_in_spec m (pos (Z.of_nat n)) (val (Z.of_nat n)) f cn k) as [Hf Hc].
  rewrite Hf, Hc, IHf, IHc. lia. Qed.

(** the regenerated kernel is that nest, with the regenerated position and value functions *)
Lemma fold_run_nest inarray f0 c0 delays md tsamp period accel total nsamps nch nbins nints nsubs index :
  fold_run inarray f0 c0 delays md tsamp period accel total nsamps nch nbins nints nsubs index =
  iter (Z.to_nat (nsamps - md))
       (acc_out (Z.to_nat nch) (fun i c => fold_pos2 tsamp period accel total nch nbins nints nsubs index i c)
                (fun i c => fold_val inarray delays nch i c)) (f0, c0).
Proof. reflexivity. Qed.

Theorem fold_run_spec inarray f0 c0 delays md tsamp period accel total nsamps nch nbins nints nsubs index k :
  let r := fold_run inarray f0 c0 delays md tsamp period accel total nsamps nch nbins nints nsubs index in
  let pos i c := fold_pos2 tsamp period accel total nch nbins nints nsubs index i c in
  fst r k = f0 k + cellsum nch pos (fun i c => inarray (nch * (i + delays c) + c)) (nsamps - md) k /\
  snd r k = c0 k + cellsum nch pos (fun _ _ => 1) (nsamps - md) k.
Proof. cbv zeta. rewrite fold_run_nest. unfold cellsum. apply acc_out_spec. Qed.

(** * the binning formulas *)
Lemma Qfloor_div a b : Qfloor (inject_Z a / inject_Z b) = a / b.
Proof. symmetry. apply Zdiv_Qdiv. Qed.

Lemma inject_Z_neq0 z : z <> 0 -> ~ (inject_Z z == 0)%Q.
Proof. intros H E. apply H. unfold Qeq, inject_Z in E. cbn in E. lia. Qed.

(** subint = (isamp + index) // (total_nsamps / nints), the floor of the exact quotient *)
Lemma fold_subint_eq total nints index isamp : 0 < total -> 0 < nints ->
  fold_subint total nints index isamp = subint_of total nints (isamp + index).
Proof. intros Ht Hn. unfold fold_subint, subint_of. cbv zeta. rewrite <- Qfloor_div. apply Qfloor_comp.
  rewrite inject_Z_mult. field. split; apply inject_Z_neq0; lia. Qed.

Lemma subint_range total nints a : 0 < total -> 0 < nints -> 0 <= a < total -> 0 <= subint_of total nints a < nints.
Proof. intros. unfold subint_of. split; [apply Z.div_pos; nia|apply Z.div_lt_upper_bound; nia]. Qed.

Lemma subint_mono total nints a b : 0 < total -> 0 < nints -> a <= b -> subint_of total nints a <= subint_of total nints b.
Proof. intros. unfold subint_of. apply Z.div_le_mono; nia. Qed.

(** sub-integration i holds exactly the samples with i*total <= a*nints < (i+1)*total: consecutive, by time order *)
Lemma subint_iff total nints a i : 0 < total -> subint_of total nints a = i <-> i * total <= a * nints < (i + 1) * total.
Proof. intros Ht. unfold subint_of. split; intro H.
  - subst i. pose proof (Z.mul_div_le (a * nints) total Ht). pose proof (Z.mul_succ_div_gt (a * nints) total Ht). lia.
  - symmetry. apply Z.div_unique with (r := a * nints - i * total); lia. Qed.

(** sub_band = ichan // (nchans / nsubs) *)
Lemma fold_sub_band_eq nchans nsubs c : 0 < nchans -> 0 < nsubs -> fold_sub_band nchans nsubs c = subband_of nchans nsubs c.
Proof. intros Hc Hs. unfold fold_sub_band, subband_of. cbv zeta. rewrite <- Qfloor_div. apply Qfloor_comp.
  rewrite inject_Z_mult. field. split; apply inject_Z_neq0; lia. Qed.

Lemma subband_range nchans nsubs c : 0 < nchans -> 0 < nsubs -> 0 <= c < nchans -> 0 <= subband_of nchans nsubs c < nsubs.
Proof. intros. unfold subband_of. split; [apply Z.div_pos; nia|apply Z.div_lt_upper_bound; nia]. Qed.

Lemma subband_mono nchans nsubs a b : 0 < nchans -> 0 < nsubs -> a <= b -> subband_of nchans nsubs a <= subband_of nchans nsubs b.
Proof. intros. unfold subband_of. apply Z.div_le_mono; nia. Qed.

(** with no more sub-bands than channels every sub-band receives a channel *)
Lemma subband_onto nchans nsubs b : 0 < nsubs <= nchans -> 0 <= b < nsubs ->
  exists c, 0 <= c < nchans /\ subband_of nchans nsubs c = b.
Proof. intros Hs Hb. exists ((b * nchans + nsubs - 1) / nsubs). unfold subband_of.
  assert (Hq : nsubs * ((b * nchans + nsubs - 1) / nsubs) <= b * nchans + nsubs - 1 < nsubs * ((b * nchans + nsubs - 1) / nsubs) + nsubs).
  { pose proof (Z.mul_div_le (b * nchans + nsubs - 1) nsubs ltac:(lia)). pose proof (Z.mul_succ_div_gt (b * nchans + nsubs - 1) nsubs ltac:(lia)). lia. }
  set (c := (b * nchans + nsubs - 1) / nsubs) in *. split; [nia|].
  symmetry. apply Z.div_unique with (r := c * nsubs - b * nchans); nia. Qed.

(** phasebin = abs(int(phase)) % nbins lies in [0, nbins) whatever the phase *)
Lemma fold_phasebin_range tsamp period accel total nbins index isamp : 0 < nbins ->
  0 <= fold_phasebin tsamp period accel total nbins index isamp < nbins.
Proof. intro H. unfold fold_phasebin. cbv zeta. apply Z.mod_pos_bound. exact H. Qed.

(** phase bin and sub-integration depend on the kernel's (isamp, index) only through the absolute sample isamp + index *)
Lemma fold_phasebin_abs tsamp period accel total nbins index isamp :
  fold_phasebin tsamp period accel total nbins index isamp = fold_phasebin tsamp period accel total nbins 0 (isamp + index).
Proof. unfold fold_phasebin. cbv zeta. rewrite Z.add_0_r. reflexivity. Qed.

(** the cell: pos2 = subint*nbins*nsubs + phasebin + sub_band*nbins *)
Lemma fold_pos2_cell tsamp period accel total nch nbins nints nsubs index isamp ichan :
  fold_pos2 tsamp period accel total nch nbins nints nsubs index isamp ichan =
  fold_subint total nints index isamp * nbins * nsubs + fold_phasebin tsamp period accel total nbins index isamp
  + fold_sub_band nch nsubs ichan * nbins.
Proof. reflexivity. Qed.

(** the absolute cell function of the specification: sample [a] (from the first folded sample), channel [c] *)
Definition cell_of (tsamp period accel : Q) (total nch nbins nints nsubs : Z) (a c : Z) : Z :=
  subint_of total nints a * nbins * nsubs + fold_phasebin tsamp period accel total nbins 0 a + subband_of nch nsubs c * nbins.

Lemma fold_pos2_abs tsamp period accel total nch nbins nints nsubs index isamp ichan :
  0 < total -> 0 < nints -> 0 < nch -> 0 < nsubs ->
  fold_pos2 tsamp period accel total nch nbins nints nsubs index isamp ichan =
  cell_of tsamp period accel total nch nbins nints nsubs (isamp + index) ichan.
Proof. intros. rewrite fold_pos2_cell, fold_subint_eq, fold_sub_band_eq, fold_phasebin_abs by assumption. reflexivity. Qed.

(** the cell is the C-order position of cube[subint, sub_band, phasebin] in an array reshaped to (nints, nsubs, nbins) *)
Lemma cell_of_cube tsamp period accel total nch nbins nints nsubs a c :
  cell_of tsamp period accel total nch nbins nints nsubs a c =
  cube_index (nints, nsubs, nbins) (subint_of total nints a) (subband_of nch nsubs c) (fold_phasebin tsamp period accel total nbins 0 a).
Proof. unfold cell_of, cube_index. ring. Qed.

Lemma cube_index_range d0 d1 d2 i b p : 0 <= i < d0 -> 0 <= b < d1 -> 0 <= p < d2 -> 0 <= cube_index (d0, d1, d2) i b p < d0 * d1 * d2.
Proof. intros. unfold cube_index. assert (0 <= i * d1 + b <= d0 * d1 - 1) by nia. split; [nia|].
  assert ((i * d1 + b) * d2 <= (d0 * d1 - 1) * d2) by (apply Z.mul_le_mono_nonneg_r; lia). lia. Qed.

Lemma cube_index_inj d0 d1 d2 i b p i' b' p' : 0 <= b < d1 -> 0 <= p < d2 -> 0 <= b' < d1 -> 0 <= p' < d2 ->
  cube_index (d0, d1, d2) i b p = cube_index (d0, d1, d2) i' b' p' -> i = i' /\ b = b' /\ p = p'.
Proof. intros Hb Hp Hb' Hp' E. unfold cube_index in E.
  destruct (Z.div_mod_unique d2 (i * d1 + b) (i' * d1 + b') p p') as [E1 E2]; [left; lia|left; lia|lia|].
  destruct (Z.div_mod_unique d1 i i' b b') as [E3 E4]; [left; lia|left; lia|lia|]. auto. Qed.

(** every (sample, channel) is sent to exactly one cell, inside the arrays, whatever the phase *)
Lemma cell_of_range tsamp period accel total nch nbins nints nsubs a c :
  0 < total -> 0 < nints -> 0 < nch -> 0 < nsubs -> 0 < nbins -> 0 <= a < total -> 0 <= c < nch ->
  0 <= cell_of tsamp period accel total nch nbins nints nsubs a c < nints * nsubs * nbins.
Proof. intros. rewrite cell_of_cube. apply cube_index_range.
  - apply subint_range; assumption.
  - apply subband_range; assumption.
  - apply fold_phasebin_range; assumption. Qed.

(** * sums over cells *)
Lemma sum_n_pick K w v : 0 <= w < Z.of_nat K -> sum_n K (fun k => if k =? w then v else 0) = v.
Proof. induction K as [|K IH]; intro H; [lia|]. cbn [sum_n]. destruct (Z.eqb_spec (Z.of_nat K) w) as [E|NE].
  - rewrite sum_n_0; [lia|]. intros i Hi. destruct (Z.eqb_spec i w); [lia|reflexivity].
  - rewrite IH by lia. lia. Qed.

Lemma sum_n_swap K n (g : Z -> Z -> Z) : sum_n K (fun k => sum_n n (fun i => g k i)) = sum_n n (fun i => sum_n K (fun k => g k i)).
Proof. induction n as [|n IH]; cbn [sum_n].
  - apply sum_n_0. reflexivity.
  - rewrite sum_n_add, IH. reflexivity. Qed.

Lemma sumif_as_sum m p v : sumif m p v = sum_n m (fun c => if p c then v c else 0).
Proof. induction m as [|m IH]; cbn; [reflexivity|]. rewrite IH. reflexivity. Qed.

(** summing the per-cell sums over all cells gives the sum over all (sample, channel) pairs, provided every pair's cell
    lies inside the array *)
Lemma cellsum_total K nch pos v n : 0 <= nch -> 0 <= n ->
  (forall a c, 0 <= a < n -> 0 <= c < nch -> 0 <= pos a c < Z.of_nat K) ->
  sum_n K (cellsum nch pos v n) = sum_n (Z.to_nat n) (fun a => sum_n (Z.to_nat nch) (fun c => v a c)).
Proof. intros Hc Hn Hin. unfold cellsum. rewrite sum_n_swap. apply sum_n_ext. intros a Ha.
  erewrite sum_n_ext; [|intros k Hk; apply sumif_as_sum]. rewrite sum_n_swap. apply sum_n_ext. intros c Hcx.
  apply sum_n_pick. apply Hin; lia. Qed.

Lemma cellsum_ext nch pos pos' v v' n k :
  (forall a c, 0 <= a < n -> 0 <= c < nch -> pos a c = pos' a c /\ v a c = v' a c) ->
  cellsum nch pos v n k = cellsum nch pos' v' n k.
Proof. intro E. unfold cellsum. apply sum_n_ext. intros a Ha. apply sumif_ext. intros c Hc.
  destruct (E a c ltac:(lia) ltac:(lia)) as [-> ->]. auto. Qed.

(** a cell none of whose samples carries signal sums to zero *)
Lemma cellsum_zero nch pos v n k : (forall a c, 0 <= a < n -> 0 <= c < nch -> pos a c = k -> v a c = 0) -> cellsum nch pos v n k = 0.
Proof. intro H. unfold cellsum. apply sum_n_0. intros a Ha. rewrite sumif_as_sum. apply sum_n_0. intros c Hc.
  destruct (Z.eqb_spec k (pos a c)) as [E|NE]; [|reflexivity]. apply H; try lia. Qed.

(** splitting the sample range *)
Lemma cellsum_app nch pos v n1 n2 k : 0 <= n1 -> 0 <= n2 ->
  cellsum nch pos v (n1 + n2) k = cellsum nch pos v n1 k + cellsum nch (fun a c => pos (n1 + a) c) (fun a c => v (n1 + a) c) n2 k.
Proof. intros H1 H2. unfold cellsum. rewrite Z2Nat.inj_add by lia. rewrite sum_n_app. rewrite Z2Nat.id by lia. reflexivity. Qed.

(** * the periodic pulse train *)
Lemma qtrunc_nonneg (q : Q) : (0 <= q)%Q -> qtrunc q = Qfloor q.
Proof. intro H. unfold qtrunc, Qfloor. destruct q as [n d]. cbn [Qnum Qden]. unfold Qle in H. cbn in H.
  apply Z.quot_div_nonneg; lia. Qed.

Section Periodic.
  Variables (tsamp : Q) (L total nbins : Z).
  Hypotheses (Hts : (0 < tsamp)%Q) (HL : 0 < L) (Hnb : 0 < nbins).

  (** acceleration 0, folding period exactly L samples *)
  Lemma phase_periodic a period accel : (accel == 0)%Q -> (period == inject_Z L * tsamp)%Q ->
    (fold_phase tsamp period accel total nbins 0 a == inject_Z (2 * nbins * a + L) / inject_Z (2 * L))%Q.
  Proof. intros Ha Hp. unfold fold_phase. cbv zeta. rewrite Z.add_0_r, Ha, Hp.
    rewrite !inject_Z_plus, !inject_Z_mult. field.
    split; [apply inject_Z_neq0; lia|]. intro E. rewrite E in Hts. apply (Qlt_irrefl 0). exact Hts. Qed.

  Lemma phasebin_periodic a period accel : (accel == 0)%Q -> (period == inject_Z L * tsamp)%Q -> 0 <= a ->
    fold_phasebin tsamp period accel total nbins 0 a = ((2 * nbins * a + L) / (2 * L)) mod nbins.
  Proof. intros Ha Hp H0. unfold fold_phasebin. cbv zeta.
    change (Qplus _ _) with (fold_phase tsamp period accel total nbins 0 a).
    pose proof (phase_periodic a period accel Ha Hp) as E.
    assert (Hq : Qfloor (fold_phase tsamp period accel total nbins 0 a) = (2 * nbins * a + L) / (2 * L)).
    { rewrite (Qfloor_comp _ _ E). apply Qfloor_div. }
    rewrite qtrunc_nonneg.
    - rewrite Hq. rewrite Z.abs_eq; [reflexivity|]. apply Z.div_pos; nia.
    - rewrite E. unfold Qdiv. apply Qmult_le_0_compat.
      + change 0%Q with (inject_Z 0). rewrite <- Zle_Qle. nia.
      + apply Qinv_le_0_compat. change 0%Q with (inject_Z 0). rewrite <- Zle_Qle. lia. Qed.

  (** samples one period apart fall in the same phase bin *)
  Lemma phasebin_shift a j period accel : (accel == 0)%Q -> (period == inject_Z L * tsamp)%Q -> 0 <= a -> 0 <= j ->
    fold_phasebin tsamp period accel total nbins 0 (a + j * L) = fold_phasebin tsamp period accel total nbins 0 a.
  Proof. intros Ha Hp H0 Hj. rewrite !phasebin_periodic by (try assumption; nia).
    replace (2 * nbins * (a + j * L) + L) with ((2 * nbins * a + L) + (j * nbins) * (2 * L)) by ring.
    rewrite Z.div_add by lia. rewrite Z.mod_add by lia. reflexivity. Qed.
End Periodic.

Lemma cell_of_phasebin tsamp period accel total nch nbins nints nsubs a c : 0 < nbins ->
  cell_of tsamp period accel total nch nbins nints nsubs a c mod nbins = fold_phasebin tsamp period accel total nbins 0 a.
Proof. intro H. unfold cell_of.
  replace (subint_of total nints a * nbins * nsubs + fold_phasebin tsamp period accel total nbins 0 a + subband_of nch nsubs c * nbins)
    with (fold_phasebin tsamp period accel total nbins 0 a + (subint_of total nints a * nsubs + subband_of nch nsubs c) * nbins) by ring.
  rewrite Z.mod_add by lia. apply Z.mod_small. apply fold_phasebin_range. exact H. Qed.
