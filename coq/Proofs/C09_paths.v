(** C09 -- the block-level dedispersion paths as called from block.py (call sites regenerated into Gen/C09.v,
    including the sign handed to the kernels), for EVERY integer delay vector / table and every shape:
    rotation, valid window, DM-time rows, their mutual agreement, pulse restoration and the inverse law. *)
From Coq Require Import ZArith List Bool Lia ZifyBool.
Require Import SPP.Base.Rt SPP.Base.Iter SPP.Model.C09_Arr2 SPP.Model.C09_Spec SPP.Gen.C09
  SPP.Proofs.C09_arr2 SPP.Proofs.C09_kernels.
Import ListNotations.
Open Scope Z_scope.

(** ---- dmt_block_valid: every row is cut to the window that is valid for the WHOLE table --------- *)
Lemma dmt_block_valid_shape_eq x nr nc D nd :
  dmt_block_valid_shape x nr nc D nd nr = (nd, nc + Z.min 0 (amin2 nd nr D) - Z.max 0 (amax2 nd nr D)).
Proof. unfold dmt_block_valid_shape. cbv zeta. f_equal. Qed.

Lemma dmt_block_valid_error junk jc x nr nc D nd :
  nc + Z.min 0 (amin2 nd nr D) - Z.max 0 (amax2 nd nr D) <= 0 -> dmt_block_valid_run junk jc x nr nc D nd nr = None.
Proof.
  intro H. unfold dmt_block_valid_run. rewrite Z.eqb_refl. cbn [negb]. cbv zeta.
  now replace (nc + Z.min 0 (amin2 nd nr D) - Z.max 0 (amax2 nd nr D) <=? 0) with true by lia.
Qed.

Lemma dmt_block_valid_spec junk jc x nr nc D nd : 1 <= nd -> 1 <= nr ->
  0 < nc + Z.min 0 (amin2 nd nr D) - Z.max 0 (amax2 nd nr D) ->
  exists res, dmt_block_valid_run junk jc x nr nc D nd nr = Some res /\
    forall i t, 0 <= i < nd -> 0 <= t < nc + Z.min 0 (amin2 nd nr D) - Z.max 0 (amax2 nd nr D) ->
      res i t = sum_n (Z.to_nat nr) (fun c => x c (t + Z.max 0 (amax2 nd nr D) - D i c)).
Proof.
  intros Hd Hr HL. unfold dmt_block_valid_run. rewrite Z.eqb_refl. cbn [negb]. cbv zeta.
  replace (nc + Z.min 0 (amin2 nd nr D) - Z.max 0 (amax2 nd nr D) <=? 0) with false by lia.
  destruct (amax2_spec nd nr D Hd Hr) as [Hmax _]. destruct (amin2_spec nd nr D Hd Hr) as [Hmin _].
  set (maxp := Z.max 0 (amax2 nd nr D)) in *. set (minn := Z.min 0 (amin2 nd nr D)) in *.
  assert (Hc : 1 <= nc) by lia.
  with_loop (fun k (res : arr2) => forall i t, 0 <= i < k -> 0 <= t < nc + minn - maxp ->
               res i t = sum_n (Z.to_nat nr) (fun c => x c (t + maxp - D i c))).
  - intros; lia.
  - intros k t Hk P.
    destruct (roll_block_spec (jc k) x nr nc (D k) ltac:(lia) Hc) as [rolled [Et Ht]]. rewrite Et.
    rewrite roll_block_shape_eq.
    assert (Hsh : cols_shape (nr, nc) maxp (nc + minn) = (nr, nc + minn - maxp)).
    { unfold cols_shape. cbn [fst snd]. now rewrite slice_len_id by lia. }
    rewrite Hsh.
    destruct (set_row_some t (nc + minn - maxp) k (sum_axis0 (nr, nc + minn - maxp) (cols2 (nr, nc) rolled maxp (nc + minn))))
      as [t' [E1 H1]]; [lia|reflexivity|].
    rewrite E1. exists t'. split; [reflexivity|].
    intros i c Hi Hc'. rewrite H1. destruct (Z.eqb_spec i k) as [->|Hne].
    + cbn [andb]. replace ((0 <=? c) && (c <? nc + minn - maxp)) with true by lia. cbn [sum_axis0 snd fst].
      apply sum_n_ext. intros r Hr'. unfold cols2. cbn [snd]. rewrite slice_lo_id by lia.
      specialize (Hmax k r ltac:(lia) ltac:(lia)). specialize (Hmin k r ltac:(lia) ltac:(lia)).
      rewrite Ht by lia. f_equal. rewrite Z.mod_small by lia. lia.
    + cbn [andb]. apply P; lia.
  - rewrite Eloop. exists res. split; [reflexivity|]. intros. apply Hinv; lia.
Qed.

(** ---- call sites ------------------------------------------------------------------------------- *)
(** FilterbankBlock.dedisperse, full length: out[c][t] = x[c][(t + d_c) mod n] *)
Lemma block_dedisperse_rot junk x nchans n d : 0 <= nchans -> 1 <= n ->
  exists out, block_dedisperse_run false junk x nchans n d nchans = Some out /\
    forall c t, 0 <= c < nchans -> 0 <= t < n -> out c t = spec_rot x n d c t.
Proof.
  intros Hc Hn. unfold block_dedisperse_run.
  destruct (roll_block_spec junk x nchans n (fun k => - d k) Hc Hn) as [res [E H]].
  exists res. split; [exact E|]. intros c t Hc' Ht. rewrite H by lia. unfold spec_rot. f_equal. f_equal. lia.
Qed.

Lemma t0_span_neg nchans d : 1 <= nchans ->
  Z.max 0 (amax nchans (fun k => - d k)) = t0_of nchans d /\
  Z.min 0 (amin nchans (fun k => - d k)) - Z.max 0 (amax nchans (fun k => - d k)) = - span_of nchans d.
Proof.
  intro H. unfold t0_of, span_of. rewrite amax_neg. rewrite amin_negf by exact H. lia.
Qed.

(** FilterbankBlock.dedisperse(only_valid_samples=True): declared length n - span, ValueError iff that is <= 0,
    out[c][t] = x[c][t + t0 + d_c] over the whole declared length *)
Lemma block_dedisperse_valid_error junk x nchans n d : 1 <= nchans ->
  n - span_of nchans d <= 0 -> block_dedisperse_run true junk x nchans n d nchans = None.
Proof.
  intros Hc H. unfold block_dedisperse_run. apply roll_block_valid_error.
  destruct (t0_span_neg nchans d Hc) as [_ E]. lia.
Qed.

Lemma block_dedisperse_valid junk x nchans n d : 1 <= nchans -> 0 < n - span_of nchans d ->
  exists out, block_dedisperse_run true junk x nchans n d nchans = Some out /\
    roll_block_valid_shape x nchans n (fun k => - d k) nchans = (nchans, n - span_of nchans d) /\
    forall c t, 0 <= c < nchans -> 0 <= t < n - span_of nchans d -> out c t = spec_valid x nchans d c t.
Proof.
  intros Hc HL. unfold block_dedisperse_run. destruct (t0_span_neg nchans d Hc) as [E0 E].
  destruct (roll_block_valid_spec junk x nchans n (fun k => - d k) Hc ltac:(lia)) as [res [Er H]].
  exists res. split; [exact Er|]. split.
  - rewrite roll_block_valid_shape_eq. f_equal. lia.
  - intros c t Hc' Ht. rewrite H by lia. unfold spec_valid. rewrite E0. f_equal. lia.
Qed.

(** the sign handed to dmt_block / dmt_block_valid by FilterbankBlock.dmt_transform.  The rows of the
    DM-time transform are DEdispersed only if the kernels receive -dm_delays, exactly as
    FilterbankBlock.dedisperse hands -delays to roll_block; this is a fact about the regenerated call site. *)
Lemma dmt_call_site_negates junk jc x nr nc D nd only_valid :
  dmt_transform_run only_valid junk jc x nr nc D nd nr =
  if only_valid then dmt_block_valid_run junk jc x nr nc (fun i k => - D i k) nd nr
  else dmt_block_run junk jc x nr nc (fun i k => - D i k) nd nr.
Proof. reflexivity. Qed.

(** FilterbankBlock.dmt_transform, full length: row i is the channel sum of the block dedispersed with row i *)
Lemma dmt_transform_rows junk jc x nchans n D ndms : 0 <= ndms -> 0 <= nchans -> 1 <= n ->
  exists out, dmt_transform_run false junk jc x nchans n D ndms nchans = Some out /\
    forall i t, 0 <= i < ndms -> 0 <= t < n -> out i t = spec_dmt x nchans n D i t.
Proof.
  intros Hd Hc Hn. rewrite dmt_call_site_negates.
  destruct (dmt_block_spec junk jc x nchans n (fun i k => - D i k) ndms Hd Hc Hn) as [res [E H]].
  exists res. split; [exact E|]. intros i t Hi Ht. rewrite H by lia. unfold spec_dmt.
  apply sum_n_ext. intros c _. f_equal. f_equal. lia.
Qed.

Lemma t0_span_neg2 ndms nchans D : 1 <= ndms -> 1 <= nchans ->
  Z.max 0 (amax2 ndms nchans (fun i k => - D i k)) = t0_of2 ndms nchans D /\
  Z.min 0 (amin2 ndms nchans (fun i k => - D i k)) - Z.max 0 (amax2 ndms nchans (fun i k => - D i k)) = - span_of2 ndms nchans D.
Proof.
  intros H1 H2. unfold t0_of2, span_of2. rewrite amax2_neg by exact H1. rewrite amin2_neg by assumption. lia.
Qed.

Lemma dmt_transform_valid_error junk jc x nchans n D ndms : 1 <= ndms -> 1 <= nchans ->
  n - span_of2 ndms nchans D <= 0 -> dmt_transform_run true junk jc x nchans n D ndms nchans = None.
Proof.
  intros Hd Hc H. rewrite dmt_call_site_negates. apply dmt_block_valid_error.
  destruct (t0_span_neg2 ndms nchans D Hd Hc) as [_ E]. lia.
Qed.

Lemma dmt_transform_valid_rows junk jc x nchans n D ndms : 1 <= ndms -> 1 <= nchans ->
  0 < n - span_of2 ndms nchans D ->
  exists out, dmt_transform_run true junk jc x nchans n D ndms nchans = Some out /\
    dmt_block_valid_shape x nchans n (fun i k => - D i k) ndms nchans = (ndms, n - span_of2 ndms nchans D) /\
    forall i t, 0 <= i < ndms -> 0 <= t < n - span_of2 ndms nchans D -> out i t = spec_dmt_valid x ndms nchans D i t.
Proof.
  intros Hd Hc HL. rewrite dmt_call_site_negates. destruct (t0_span_neg2 ndms nchans D Hd Hc) as [E0 E].
  destruct (dmt_block_valid_spec junk jc x nchans n (fun i k => - D i k) ndms Hd Hc ltac:(lia)) as [res [Er H]].
  exists res. split; [exact Er|]. split.
  - rewrite dmt_block_valid_shape_eq. f_equal. lia.
  - intros i t Hi Ht. rewrite H by lia. unfold spec_dmt_valid. rewrite E0.
    apply sum_n_ext. intros c _. f_equal. lia.
Qed.

(** ---- corollaries ------------------------------------------------------------------------------ *)
(** where the valid variant is defined it is the full rotation shifted by t0: no sample wraps *)
Lemma valid_is_window_of_rotation x nchans n d c t : 1 <= nchans ->
  0 <= c < nchans -> 0 <= t < n - span_of nchans d ->
  spec_valid x nchans d c t = spec_rot x n d c (t + t0_of nchans d).
Proof.
  intros Hn Hc Ht. unfold spec_valid, spec_rot. f_equal.
  destruct (amax_spec nchans d Hn) as [Hmax _]. destruct (amin_spec nchans d Hn) as [Hmin _].
  specialize (Hmax c Hc). specialize (Hmin c Hc). unfold span_of, t0_of in *.
  symmetry. apply Z.mod_small. lia.
Qed.

(** a DM-time row is the channel sum of the rotated block with the same delays *)
Lemma dmt_row_is_sum_of_rotation x nchans n D i t :
  spec_dmt x nchans n D i t = sum_n (Z.to_nat nchans) (fun c => spec_rot x n (D i) c t).
Proof. reflexivity. Qed.

(** dedispersing at DM and then at -DM (delays d, then -d: the law is odd) is the identity *)
Lemma dedisperse_inverse junk1 junk2 x nchans n d : 0 <= nchans -> 1 <= n ->
  exists y z, block_dedisperse_run false junk1 x nchans n d nchans = Some y /\
              block_dedisperse_run false junk2 y nchans n (fun k => - d k) nchans = Some z /\
              forall c t, 0 <= c < nchans -> 0 <= t < n -> z c t = x c t.
Proof.
  intros Hc Hn.
  destruct (block_dedisperse_rot junk1 x nchans n d Hc Hn) as [y [Ey Hy]].
  destruct (block_dedisperse_rot junk2 y nchans n (fun k => - d k) Hc Hn) as [z [Ez Hz]].
  exists y, z. split; [exact Ey|]. split; [exact Ez|].
  intros c t Hc' Ht. rewrite Hz by lia. unfold spec_rot.
  rewrite Hy by (try lia; apply Z.mod_pos_bound; lia). unfold spec_rot. f_equal.
  rewrite Zplus_mod_idemp_l. replace (t + - d c + d c) with t by lia. apply Z.mod_small. lia.
Qed.

(** a pulse synthesised with the delays is restored to a single column, in every channel *)
Lemma pulse_restored n p d c t : 1 <= n -> 0 <= p < n -> 0 <= t < n ->
  spec_rot (pulse n p d) n d c t = if t =? p then 1 else 0.
Proof.
  intros Hn Hp Ht. unfold spec_rot, pulse.
  destruct (Z.eqb_spec t p) as [->|Hne]; [now rewrite Z.eqb_refl|].
  destruct (Z.eqb_spec ((t + d c) mod n) ((p + d c) mod n)) as [E|_]; [|reflexivity].
  exfalso. apply Hne.
  assert (E' : ((t + d c) mod n - d c) mod n = ((p + d c) mod n - d c) mod n) by now rewrite E.
  rewrite !mod_add_cancel in E' by lia. rewrite !Z.mod_small in E' by lia. exact E'.
Qed.

Lemma pulse_restored_sum nchans n p d t : 0 <= nchans -> 1 <= n -> 0 <= p < n -> 0 <= t < n ->
  sum_n (Z.to_nat nchans) (fun c => spec_rot (pulse n p d) n d c t) = if t =? p then nchans else 0.
Proof.
  intros Hc Hn Hp Ht.
  rewrite (sum_n_ext _ _ (fun _ => if t =? p then 1 else 0)) by (intros; now apply pulse_restored).
  rewrite sum_n_const. destruct (t =? p); lia.
Qed.
