(** C16, mask side: lemmas about the operations regenerated from rfi.py / base.py (Gen/C16Rfi.v).
    The z-score estimators and the custom function are Section variables. *)
From Coq Require Import ZArith QArith Qabs List Bool Lia.
Require Import SPP.Base.Rt SPP.Base.Iter SPP.Model.C16_Vec SPP.Gen.C16Rfi SPP.Model.C16_MaskAlg.
Import ListNotations.
Open Scope Z_scope.

(** * OR-accumulation loops *)
Lemma fold_vor {A} (f : A -> bvec) (l : list A) (m0 : bvec) (c : Z) :
  fold_left (fun m x => vor m (f x)) l m0 c = m0 c || existsb (fun x => f x c) l.
Proof. revert m0. induction l as [|x l IH]; intro m0; cbn [fold_left existsb].
  - now rewrite orb_false_r.
  - rewrite IH. unfold vor. now rewrite orb_assoc. Qed.

Lemma fold_left_map' {A B C} (f : A -> B -> A) (g : C -> B) l a :
  fold_left f (map g l) a = fold_left (fun a x => f a (g x)) l a.
Proof. revert a. induction l as [|x l IH]; intro a; cbn [map fold_left]; [reflexivity|apply IH]. Qed.

Lemma existsb_ext {A} (f g : A -> bool) l : (forall x, In x l -> f x = g x) -> existsb f l = existsb g l.
Proof. induction l as [|x l IH]; intro H; cbn [existsb]; [reflexivity|].
  rewrite H by (left; reflexivity). rewrite IH; [reflexivity|]. intros; apply H; now right. Qed.

(** * apply_mask: closed frequency ranges *)
Lemma apply_mask_spec n freqs s fm :
  (forall c, user_mask (apply_mask n freqs s fm) c = in_ranges (freqs c) fm) /\
  (forall c, chan_mask (apply_mask n freqs s fm) c = chan_mask s c || in_ranges (freqs c) fm) /\
  stats_mask (apply_mask n freqs s fm) = stats_mask s /\
  custom_mask (apply_mask n freqs s fm) = custom_mask s.
Proof. unfold apply_mask. cbv zeta.
  set (f := fun r : Q * Q => vand (vge freqs (fst r)) (vle freqs (snd r))).
  assert (E : forall c, fold_left (fun (user_mask : bvec) (freq_range : Q * Q) => vor user_mask (f freq_range)) fm vfalse c
                        = in_ranges (freqs c) fm).
  { intro c. rewrite fold_vor. unfold vfalse, in_ranges, f, vand, vge, vle. reflexivity. }
  repeat split; intros; cbn; unfold vor; rewrite ?E; reflexivity. Qed.

Lemma in_ranges_closed f fm :
  in_ranges f fm = true <-> exists lo hi, In (lo, hi) fm /\ (lo <= f)%Q /\ (f <= hi)%Q.
Proof. unfold in_ranges. rewrite existsb_exists. split.
  - intros [[lo hi] [Hin H]]. apply andb_prop in H as [H1 H2]. cbn [fst snd] in *.
    exists lo, hi. rewrite Qle_bool_iff in H1, H2. auto.
  - intros [lo [hi [Hin [H1 H2]]]]. exists (lo, hi). split; [assumption|]. cbn [fst snd].
    apply andb_true_intro. now rewrite !Qle_bool_iff. Qed.

(** * Thresholds *)
Lemma beyond_iff thr z : beyond thr z = true <-> (thr < Qabs z)%Q.
Proof. unfold beyond. rewrite negb_true_iff. split.
  - intro H. apply Qnot_le_lt. intro L. apply Qle_bool_iff in L. congruence.
  - intro H. destruct (Qle_bool (Qabs z) thr) eqn:E; [|reflexivity].
    apply Qle_bool_iff in E. exfalso. eapply Qlt_not_le; eassumption. Qed.

Lemma beyond_antitone t1 t2 z : (t1 <= t2)%Q -> beyond t2 z = true -> beyond t1 z = true.
Proof. rewrite !beyond_iff. intros L H. eapply Qle_lt_trans; eassumption. Qed.

Lemma beyond_zero thr z : (0 < thr)%Q -> (z == 0)%Q -> beyond thr z = false.
Proof. intros Ht Hz. destruct (beyond thr z) eqn:E; [|reflexivity]. apply beyond_iff in E.
  rewrite Hz in E. change (Qabs 0) with 0%Q in E. exfalso. eapply Qlt_irrefl. eapply Qlt_trans; eassumption. Qed.

Lemma thr_guard thr : (0 < thr)%Q -> Qle_bool thr 0 = false.
Proof. intro H. destruct (Qle_bool thr 0) eqn:E; [|reflexivity]. apply Qle_bool_iff in E.
  exfalso. eapply Qlt_not_le; eassumption. Qed.
Lemma thr_guard_neg thr : (thr <= 0)%Q -> Qle_bool thr 0 = true.
Proof. intro H. now apply Qle_bool_iff. Qed.

  (** with the window built on the padded copy's own layout (stride ratio 1) element [i, lag + radius] of the
      window is the edge-clamped neighbour x[clamp (i + lag)] *)
  Lemma window_contiguous n a radius oob i lag : 0 <= n -> 0 <= i < n -> - radius <= lag <= radius ->
    as_strided2 (n + 2 * radius) 1 (pad_edge n a radius) oob i (lag + radius) = a (clamp n (i + lag)).
  Proof. intros Hn Hi Hl. unfold as_strided2, pad_edge, clamp. cbv zeta.
    replace ((0 <=? (i + (lag + radius)) * 1) && ((i + (lag + radius)) * 1 <? n + 2 * radius)) with true
      by (symmetry; apply andb_true_intro; split; [apply Z.leb_le|apply Z.ltb_lt]; lia).
    f_equal. lia. Qed.

  Lemma In_iqrm_lags radius lag : In lag (iqrm_lags radius) -> - radius <= lag <= radius /\ lag <> 0.
  Proof. unfold iqrm_lags, arange. rewrite in_app_iff, !in_map_iff. intros [[k [<- Hk]]|[k [<- Hk]]];
    apply In_zrange in Hk; lia. Qed.

  Lemma clamp_range n i : 0 < n -> 0 <= clamp n i < n.
  Proof. unfold clamp. lia. Qed.

Section Estimators.
  (** the external z-score estimators (stats.estimate_zscore with scale "doublemad" / "iqr") *)
  Variables (zs zi : qvec -> qvec) (n : Z).
  (** what is assumed of them: they read only the [n] elements of their argument *)
  Hypothesis zi_reads_n : forall a b, (forall i, 0 <= i < n -> a i = b i) -> forall c, 0 <= c < n -> zi a c = zi b c.

  Lemma double_mad_spec a thr : (0 < thr)%Q ->
    exists v, double_mad_mask zs a thr = Some v /\ forall c, v c = mad_flag zs thr a c.
  Proof using. intro Ht. unfold double_mad_mask. rewrite thr_guard by assumption. cbv zeta.
    eexists. split; [reflexivity|]. intro c. reflexivity. Qed.

  Lemma double_mad_rejects a thr : (thr <= 0)%Q -> double_mad_mask zs a thr = None.
  Proof using. intro H. unfold double_mad_mask. now rewrite thr_guard_neg. Qed.



  Lemma iqrm_spec_partial a thr radius oob : 0 <= n -> (0 < thr)%Q ->
    exists v, iqrm_mask zi n 1 oob a thr radius = Some v /\ forall c, 0 <= c < n -> v c = iqrm_flag zi n radius thr a c.
  Proof using zi_reads_n. intros Hn Ht. unfold iqrm_mask. rewrite thr_guard by assumption. cbv zeta.
    eexists. split; [reflexivity|]. intros c Hc.
    rewrite fold_left_map'.
    rewrite (fold_vor (fun lag => vgt (vabs (zi (fun i => Qminus (a i)
               (as_strided2 (n + 2 * radius) 1 (pad_edge n a radius) oob i (lag + radius))))) thr)).
    unfold vfalse, iqrm_flag. cbn [orb]. fold (iqrm_lags radius).
    apply existsb_ext. intros lag Hlag. apply In_iqrm_lags in Hlag.
    unfold vgt, vabs, beyond. f_equal. f_equal. f_equal.
    apply zi_reads_n; [|exact Hc]. intros i Hi. unfold lagdiff. f_equal. apply window_contiguous; [exact Hn|exact Hi|exact (proj1 Hlag)]. Qed.

  Lemma iqrm_rejects a thr radius ratio oob : (thr <= 0)%Q -> iqrm_mask zi n ratio oob a thr radius = None.
  Proof using. intro H. unfold iqrm_mask. now rewrite thr_guard_neg. Qed.

  (** raising the threshold never adds a channel *)
  Lemma mad_flag_antitone a t1 t2 c : (t1 <= t2)%Q -> mad_flag zs t2 a c = true -> mad_flag zs t1 a c = true.
  Proof using. unfold mad_flag. apply beyond_antitone. Qed.

  Lemma iqrm_flag_antitone a radius t1 t2 c : (t1 <= t2)%Q ->
    iqrm_flag zi n radius t2 a c = true -> iqrm_flag zi n radius t1 a c = true.
  Proof using. unfold iqrm_flag. intros L. rewrite !existsb_exists. intros [lag [Hin H]].
    exists lag. split; [assumption|]. eapply beyond_antitone; eassumption. Qed.

  (** all-equal vectors: assuming the estimators give a zero score to every element of a constant vector
      (the zero-scale guard of estimate_zscore), nothing is flagged *)
  Hypothesis zs_const : forall a v, (forall i, 0 <= i < n -> a i = v) -> forall c, 0 <= c < n -> (zs a c == 0)%Q.
  Hypothesis zi_const : forall a v, (forall i, 0 <= i < n -> a i = v) -> forall c, 0 <= c < n -> (zi a c == 0)%Q.

  Lemma mad_flag_const a v thr c : (0 < thr)%Q -> (forall i, 0 <= i < n -> a i = v) -> 0 <= c < n ->
    mad_flag zs thr a c = false.
  Proof using zs_const. intros Ht Ha Hc. unfold mad_flag. apply beyond_zero; [assumption|]. eapply zs_const; eassumption. Qed.


  Lemma iqrm_flag_const a v radius thr c : (0 < thr)%Q -> (forall i, 0 <= i < n -> a i = v) -> 0 <= c < n ->
    iqrm_flag zi n radius thr a c = false.
  Proof using zi_const. intros Ht Ha Hc. unfold iqrm_flag.
    destruct (existsb _ _) eqn:E; [|reflexivity]. apply existsb_exists in E as [lag [_ H]].
    rewrite beyond_zero in H; [discriminate|assumption|].
    apply zi_const with (v := Qminus v v); [|assumption].
    intros i Hi. unfold lagdiff. rewrite Ha by assumption. rewrite Ha by (apply clamp_range; clear - Hc; lia). reflexivity. Qed.
End Estimators.

(** * apply_method, apply_funcn *)
Lemma apply_method_spec dmm iqm var skew kurt thr s m s' :
  apply_method dmm iqm var skew kurt thr s m = Some s' ->
  exists fn mv ms mk, (m = M_mad /\ fn = dmm \/ m = M_iqrm /\ fn = iqm) /\
    fn var thr = Some mv /\ fn skew thr = Some ms /\ fn kurt thr = Some mk /\
    (forall c, stats_mask s' c = mv c || ms c || mk c) /\
    (forall c, chan_mask s' c = chan_mask s c || stats_mask s' c) /\
    user_mask s' = user_mask s /\ custom_mask s' = custom_mask s.
Proof. unfold apply_method. intro H.
  destruct m; cbv beta iota in H; try discriminate.
  - destruct (dmm var thr) as [mv|] eqn:E1; [|discriminate].
    destruct (dmm skew thr) as [ms|] eqn:E2; [|discriminate].
    destruct (dmm kurt thr) as [mk|] eqn:E3; [|discriminate].
    exists dmm, mv, ms, mk. cbv zeta in H. injection H as <-. cbn. unfold vor.
    repeat split; auto; intros; now rewrite ?orb_assoc.
  - destruct (iqm var thr) as [mv|] eqn:E1; [|discriminate].
    destruct (iqm skew thr) as [ms|] eqn:E2; [|discriminate].
    destruct (iqm kurt thr) as [mk|] eqn:E3; [|discriminate].
    exists iqm, mv, ms, mk. cbv zeta in H. injection H as <-. cbn. unfold vor.
    repeat split; auto; intros; now rewrite ?orb_assoc. Qed.

Lemma apply_funcn_spec s f :
  custom_mask (apply_funcn s f) = f (chan_mask s) /\
  (forall c, chan_mask (apply_funcn s f) c = chan_mask s c || f (chan_mask s) c) /\
  user_mask (apply_funcn s f) = user_mask s /\ stats_mask (apply_funcn s f) = stats_mask s.
Proof. unfold apply_funcn. cbv zeta. cbn. unfold vor. repeat split; reflexivity. Qed.

(** * clean_rfi: the returned mask is the union of its three sources *)
Theorem clean_rfi_union dmm iqm n freqs var skew kurt m thr fm cf s :
  clean_rfi dmm iqm n freqs var skew kurt m thr fm cf = Some s ->
  (forall c, chan_mask s c = user_mask s c || stats_mask s c || custom_mask s c) /\
  (forall c, user_mask s c = match fm with Some l => in_ranges (freqs c) l | None => false end) /\
  (exists fn mv ms mk, (m = M_mad /\ fn = dmm \/ m = M_iqrm /\ fn = iqm) /\
      fn var thr = Some mv /\ fn skew thr = Some ms /\ fn kurt thr = Some mk /\
      forall c, stats_mask s c = mv c || ms c || mk c) /\
  (exists seen, (forall c, seen c = user_mask s c || stats_mask s c) /\
      custom_mask s = match cf with Some f => f seen | None => vfalse end) /\
  clean_rfi_written_mask s = chan_mask s.
Proof. unfold clean_rfi. intro H.
  assert (Hm : m <> M_other) by (intro; subst; discriminate).
  replace (match m with M_other => None | _ => _ end) with
    (match apply_method dmm iqm var skew kurt thr
       (match fm with Some l => apply_mask n freqs RFIMask_init l | None => RFIMask_init end) m with
     | Some r => Some (match cf with Some f => apply_funcn r f | None => r end) | None => None end) in H
    by (destruct m; try reflexivity; congruence).
  set (s0 := match fm with Some l => apply_mask n freqs RFIMask_init l | None => RFIMask_init end) in *.
  destruct (apply_method dmm iqm var skew kurt thr s0 m) as [s1|] eqn:E1; [|discriminate].
  injection H as <-.
  destruct (apply_method_spec _ _ _ _ _ _ _ _ _ E1) as [fn [mv [ms [mk [Hfn [H1 [H2 [H3 [Hst [Hch [Hu Hc]]]]]]]]]]].
  assert (U0 : forall c, user_mask s0 c = match fm with Some l => in_ranges (freqs c) l | None => false end).
  { intro c. unfold s0. destruct fm as [l|]; [apply (apply_mask_spec n freqs RFIMask_init l)|reflexivity]. }
  assert (C0 : forall c, chan_mask s0 c = user_mask s0 c).
  { intro c. unfold s0. destruct fm as [l|]; [|reflexivity].
    destruct (apply_mask_spec n freqs RFIMask_init l) as [Hu0 [Hc0 _]]. rewrite Hu0, Hc0. reflexivity. }
  assert (K0 : custom_mask s0 = vfalse).
  { unfold s0. destruct fm as [l|]; [|reflexivity]. now destruct (apply_mask_spec n freqs RFIMask_init l) as [_ [_ [_ ->]]]. }
  assert (C1 : forall c, chan_mask s1 c = user_mask s1 c || stats_mask s1 c).
  { intro c. rewrite Hch, Hu, C0. reflexivity. }
  destruct cf as [f|].
  - destruct (apply_funcn_spec s1 f) as [Hcu [Hcc [Huu Hss]]]. split; [|split; [|split; [|split]]].
    + intro c. rewrite Hcc, Hcu, Huu, Hss, C1. reflexivity.
    + intro c. rewrite Huu, Hu. apply U0.
    + exists fn, mv, ms, mk. split; [assumption|]. split; [assumption|]. split; [assumption|]. split; [assumption|].
      intro c. rewrite Hss. apply Hst.
    + exists (chan_mask s1). split; [|assumption]. intro c. rewrite Huu, Hss. apply C1.
    + reflexivity.
  - split; [|split; [|split; [|split]]].
    + intro c. rewrite C1, Hc, K0. unfold vfalse. now rewrite orb_false_r.
    + intro c. rewrite Hu. apply U0.
    + exists fn, mv, ms, mk. split; [assumption|]. split; [assumption|]. split; [assumption|]. split; assumption.
    + exists (chan_mask s1). split; [apply C1|]. now rewrite Hc, K0.
    + reflexivity. Qed.

Lemma clean_rfi_rejects_method dmm iqm n freqs var skew kurt thr fm cf :
  clean_rfi dmm iqm n freqs var skew kurt M_other thr fm cf = None.
Proof. reflexivity. Qed.

(** * Histories: every public operation only adds channels; the union is always contained in chan_mask *)
Section Hist.
  Variables (dmm iqm : qvec -> Q -> option bvec) (nchans : Z) (freqs var skew kurt : qvec) (thr : Q).
  Let step := run_op dmm iqm nchans freqs var skew kurt thr.

  Lemma run_op_mono s o c : chan_mask s c = true -> chan_mask (step s o) c = true.
  Proof. intro H. unfold step, run_op. destruct o as [fm|m|f].
    - destruct (apply_mask_spec nchans freqs s fm) as [_ [Hc _]]. rewrite Hc, H. reflexivity.
    - destruct (apply_method dmm iqm var skew kurt thr s m) as [s'|] eqn:E; [|assumption].
      destruct (apply_method_spec _ _ _ _ _ _ _ _ _ E) as [? [? [? [? [_ [_ [_ [_ [_ [Hc _]]]]]]]]]].
      rewrite Hc, H. reflexivity.
    - destruct (apply_funcn_spec s f) as [_ [Hc _]]. rewrite Hc, H. reflexivity. Qed.

  Lemma run_ops_mono l : forall s c, chan_mask s c = true ->
    chan_mask (run_ops dmm iqm nchans freqs var skew kurt thr s l) c = true.
  Proof. unfold run_ops. induction l as [|o l IH]; intros s c H; cbn [fold_left]; [assumption|].
    apply IH. now apply run_op_mono. Qed.

  Definition covers (s : mstate) : Prop :=
    forall c, user_mask s c || stats_mask s c || custom_mask s c = true -> chan_mask s c = true.

  Lemma run_op_covers s o : covers s -> covers (step s o).
  Proof. intros Hs c. specialize (Hs c). unfold step, run_op. destruct o as [fm|m|f].
    - destruct (apply_mask_spec nchans freqs s fm) as [Hu [Hc [-> ->]]]. rewrite Hu, Hc.
      destruct (in_ranges (freqs c) fm), (user_mask s c), (stats_mask s c), (custom_mask s c), (chan_mask s c);
        cbn in *; intuition congruence.
    - destruct (apply_method dmm iqm var skew kurt thr s m) as [s'|] eqn:E; [|apply Hs].
      destruct (apply_method_spec _ _ _ _ _ _ _ _ _ E) as [? [? [? [? [_ [_ [_ [_ [_ [Hc [-> ->]]]]]]]]]]].
      rewrite Hc.
      destruct (stats_mask s' c), (user_mask s c), (stats_mask s c), (custom_mask s c), (chan_mask s c);
        cbn in *; intuition congruence.
    - destruct (apply_funcn_spec s f) as [-> [Hc [-> ->]]]. rewrite Hc.
      destruct (f (chan_mask s) c), (user_mask s c), (stats_mask s c), (custom_mask s c), (chan_mask s c);
        cbn in *; intuition congruence. Qed.

  Lemma init_covers : covers RFIMask_init.
  Proof. intros c. cbn. unfold vfalse. discriminate. Qed.

  Lemma run_ops_covers l : forall s, covers s -> covers (run_ops dmm iqm nchans freqs var skew kurt thr s l).
  Proof. unfold run_ops. induction l as [|o l IH]; intros s H; cbn [fold_left]; [assumption|].
    apply IH. now apply run_op_covers. Qed.
End Hist.

(** the union is NOT an invariant of arbitrary histories: a second apply_mask replaces user_mask while
    chan_mask keeps the channels of the first (so for repeated calls only monotonicity is claimed) *)
Lemma union_repeated_refuted :
  exists (l : list op) (c : Z),
    let s := run_ops (fun _ _ => Some vfalse) (fun _ _ => Some vfalse) 4 (fun c => inject_Z c) (fun _ => 0%Q) (fun _ => 0%Q) (fun _ => 0%Q) 3%Q
                     RFIMask_init l in
    chan_mask s c = true /\ user_mask s c || stats_mask s c || custom_mask s c = false.
Proof. exists [OpMask [(1%Q, 2%Q)]; OpMask []], 1. vm_compute. split; reflexivity. Qed.

(** * as_strided with a foreign stride reads other cells than the sliding window *)
Lemma as_strided_foreign_stride_refuted :
  exists (base oob : qvec) (len i j : Z),
    0 <= i /\ 0 <= j /\ i + j < len /\
    as_strided2 len 2 base oob i j <> as_strided2 len 1 base oob i j.
Proof. exists (fun k => inject_Z k), (fun _ => 0%Q), 8, 1, 2. repeat split; try lia. vm_compute. discriminate. Qed.

(** the generated iqrm_mask depends on the layout of its input only when the window is built with the input's strides *)
Lemma iqrm_layout zi n ratio oob a thr radius :
  iqrm_window_uses_input_strides = false \/ ratio = 1 ->
  iqrm_mask zi n ratio oob a thr radius = iqrm_mask zi n 1 oob a thr radius.
Proof. intros [H| ->]; [first [discriminate H | reflexivity] | reflexivity]. Qed.

(** from a fresh mask every history keeps the union inside chan_mask *)
Lemma run_ops_covers_init dmm iqm nchans freqs var skew kurt thr l :
  covers (run_ops dmm iqm nchans freqs var skew kurt thr RFIMask_init l).
Proof. apply run_ops_covers. apply init_covers. Qed.

(** the executable estimators used by the correspondence meet the locality hypothesis *)
Lemma vlist_ext n a b : (forall i, 0 <= i < n -> a i = b i) -> vlist n a = vlist n b.
Proof. intro H. unfold vlist. apply map_ext_in. intros i Hi. apply H. now apply In_zrange. Qed.

Lemma zscore_iqr_exec_reads_n n a b : (forall i, 0 <= i < n -> a i = b i) ->
  forall c, 0 <= c < n -> zscore_iqr_exec n a c = zscore_iqr_exec n b c.
Proof. intros H c Hc. unfold zscore_iqr_exec. rewrite (vlist_ext n a b H). cbv zeta. now rewrite (H c Hc). Qed.
