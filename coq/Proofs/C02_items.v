(** C02 for item widths above one byte (16- and 32-bit samples): counted reads of whole items on a stream whose data sections
    hold whole items, at item-aligned positions, behave like the flat byte array. *)
From Coq Require Import ZArith List Bool Lia ZifyBool.
Require Import SPP.Base.Rt SPP.Base.Iter SPP.Gen.Plan SPP.Model.Stream SPP.Proofs.C02_stream.
Import ListNotations.
Open Scope Z_scope.
Ltac Zify.zify_post_hook ::= Z.to_euclidean_division_equations.

Definition whole_items (isz : Z) (fs : list file) : Prop := Forall (fun f => datalen f mod isz = 0) fs.
Definition InvA (isz : Z) (fs : list file) (s : st) : Prop :=
  Inv fs s /\ (pos s - hdrlen (fileat fs (ifile s))) mod isz = 0.

Lemma whole_fileat isz fs i : whole_items isz fs -> 0 <= i < nfiles fs -> datalen (fileat fs i) mod isz = 0.
Proof. intros H Hi. unfold whole_items in H. rewrite Forall_forall in H. apply H. unfold fileat. apply nth_In. unfold nfiles in Hi. lia. Qed.

Lemma before_aligned isz fs : 0 < isz -> whole_items isz fs -> forall i, 0 <= i <= nfiles fs -> before fs i mod isz = 0.
Proof. intros Hz Hw i Hi. rewrite <- (Z2Nat.id i) by lia. assert (Hk : (Z.to_nat i <= length fs)%nat) by (unfold nfiles in Hi; lia).
  generalize dependent (Z.to_nat i). clear i Hi. intro k. induction k as [|k IH]; intro Hk; [reflexivity|].
  replace (Z.of_nat (S k)) with (Z.of_nat k + 1) by lia. rewrite before_succ by (unfold nfiles; lia).
  specialize (IH ltac:(lia)). pose proof (whole_fileat isz fs (Z.of_nat k) Hw ltac:(unfold nfiles; lia)).
  rewrite Z.add_mod by lia. rewrite IH, H. reflexivity. Qed.

Lemma cread_loop_items fs isz p0 : 0 < isz -> whole_items isz fs -> 0 <= p0 -> forall fuel s count acc,
  InvA isz fs s -> nfiles fs - ifile s <= Z.of_nat fuel -> 0 <= count -> absp fs s = p0 + len acc ->
  acc = slice (flat fs) p0 (len acc) ->
  (p0 + len acc + count * isz <= total fs ->
     exists s', cread_loop fuel fs isz s count acc = (s', OBytes (slice (flat fs) p0 (len acc + count * isz))) /\
                InvA isz fs s' /\ absp fs s' = p0 + len acc + count * isz) /\
  (p0 + len acc + count * isz > total fs ->
     exists s', cread_loop fuel fs isz s count acc = (s', OErr ValueError) /\ InvA isz fs s' /\ absp fs s' = total fs).
Proof. intros Hz Hw Hp0. induction fuel as [|fuel IH]; intros s count acc [HI HA] Hf Hc Ha Hacc.
  - destruct HI as [Hi _]. lia.
  - pose proof HI as [Hi Hp]. pose proof (absp_bounds fs s HI) as Hab. pose proof (len_nonneg acc) as Hl0.
    cbn [cread_loop]. set (f := fileat fs (ifile s)) in *.
    pose proof (whole_fileat isz fs (ifile s) Hw Hi) as Hwf. fold f in Hwf.
    assert (Hrem : (filelen f - pos s) mod isz = 0).
    { unfold filelen. replace (hdrlen f + datalen f - pos s) with (datalen f - (pos s - hdrlen f)) by lia.
      rewrite Zminus_mod, Hwf, HA. reflexivity. }
    set (q := (filelen f - pos s) / isz).
    assert (Hq : filelen f - pos s = isz * q) by (unfold q; apply Z.div_exact; lia).
    assert (Hq0 : 0 <= q) by nia.
    set (k1 := Z.min (Z.min (datalen f) count) (Z.max 0 q)).
    assert (Hk1 : k1 = Z.min count q).
    { unfold k1. assert (q <= datalen f) by (unfold filelen in Hq; nia). lia. }
    assert (Hk1b : 0 <= k1 /\ k1 <= count /\ k1 * isz <= filelen f - pos s) by nia.
    pose proof (read_is_flat fs s (k1 * isz) HI ltac:(nia) ltac:(fold f; lia)) as Er. fold f in Er. rewrite Er. clear Er. rewrite Ha.
    assert (Eacc : acc ++ slice (flat fs) (p0 + len acc) (k1 * isz) = slice (flat fs) p0 (len acc + k1 * isz)).
    { rewrite Hacc at 1. apply slice_cat; nia. }
    rewrite Eacc.
    assert (Elen : len (slice (flat fs) p0 (len acc + k1 * isz)) = len acc + k1 * isz).
    { apply slice_len; try nia. rewrite len_flat. unfold absp in Ha. fold f in Ha.
      pose proof (before_succ fs (ifile s) Hi). fold f in H. pose proof (before_mono fs (ifile s + 1) ltac:(lia)).
      unfold filelen in *. lia. }
    cbn [pos ifile].
    set (s1 := mkst (ifile s) (pos s + k1 * isz)).
    assert (HI1 : Inv fs s1) by (unfold Inv, s1; cbn [ifile pos]; fold f; lia).
    assert (HA1 : (pos s1 - hdrlen (fileat fs (ifile s1))) mod isz = 0).
    { unfold s1; cbn [ifile pos]. fold f. replace (pos s + k1 * isz - hdrlen f) with ((pos s - hdrlen f) + k1 * isz) by lia.
      rewrite Z.mod_add by lia. exact HA. }
    assert (Ha1 : absp fs s1 = p0 + (len acc + k1 * isz)) by (unfold absp, s1 in *; cbn [ifile pos]; fold f in Ha |- *; lia).
    pose proof (absp_bounds fs s1 HI1) as Hab1.
    destruct (Z.eqb_spec (count - k1) 0) as [E|NE].
    + split; intro Htt; [|nia]. exists s1. replace (len acc + count * isz) with (len acc + k1 * isz) by nia.
      repeat split; try apply HI1; try assumption. lia.
    + assert (Eend : pos s + k1 * isz = filelen f) by nia.
      destruct (Z.eq_dec (ifile s) (nfiles fs - 1)) as [E3|NE3].
      * assert (absp fs s1 = total fs).
        { unfold absp, s1; cbn [ifile pos]. fold f. pose proof (before_succ fs (ifile s) Hi). fold f in H.
          replace (ifile s + 1) with (nfiles fs) in H by lia. rewrite before_all in H. unfold filelen in *. lia. }
        unfold seek2hdr. replace ((0 <=? ifile s + 1) && (ifile s + 1 <? nfiles fs)) with false by lia.
        split; intro Htt; [nia|]. exists s1. repeat split; try apply HI1; assumption.
      * rewrite seek2hdr_ok by lia. set (s2 := mkst (ifile s + 1) (hdrlen (fileat fs (ifile s + 1)))).
        assert (HI2 : Inv fs s2) by (unfold Inv, s2, filelen, datalen; cbn [ifile pos]; lia).
        assert (HA2 : (pos s2 - hdrlen (fileat fs (ifile s2))) mod isz = 0) by (unfold s2; cbn [ifile pos]; rewrite Z.sub_diag; apply Z.mod_0_l; lia).
        assert (Ha2 : absp fs s2 = p0 + (len acc + k1 * isz)).
        { unfold absp, s2; cbn [ifile pos]. rewrite before_succ by lia. fold f.
          unfold absp, s1 in Ha1; cbn [ifile pos] in Ha1; fold f in Ha1. unfold filelen in *. lia. }
        specialize (IH s2 (count - k1) (slice (flat fs) p0 (len acc + k1 * isz)) (conj HI2 HA2)).
        rewrite Elen in IH.
        specialize (IH ltac:(unfold s2; cbn [ifile]; lia) ltac:(lia) Ha2 eq_refl).
        replace (len acc + k1 * isz + (count - k1) * isz) with (len acc + count * isz) in IH by lia.
        replace (p0 + (len acc + k1 * isz) + (count - k1) * isz) with (p0 + len acc + count * isz) in IH by lia.
        exact IH. Qed.

(** counted read of [n] items at an item-aligned position of a stream of whole items *)
Theorem cread_items_spec fs isz s n : 0 < isz -> whole_items isz fs -> InvA isz fs s -> 0 <= n ->
  (absp fs s + n * isz <= total fs ->
     exists s', cread fs isz s n = (s', OBytes (slice (flat fs) (absp fs s) (n * isz))) /\ InvA isz fs s' /\ absp fs s' = absp fs s + n * isz) /\
  (absp fs s + n * isz > total fs ->
     exists s', cread fs isz s n = (s', OErr ValueError) /\ InvA isz fs s' /\ absp fs s' = total fs).
Proof. intros Hz Hw HIA Hn. pose proof (absp_bounds fs s (proj1 HIA)). unfold cread.
  pose proof (cread_loop_items fs isz (absp fs s) Hz Hw ltac:(lia) (S (length fs)) s n [] HIA) as L.
  change (len []) with 0 in L. rewrite !Z.add_0_r in L. rewrite Z.add_0_l in L.
  apply L; try lia; try reflexivity. destruct HIA as [[Hi _] _]. unfold nfiles in *. lia. Qed.

(** an absolute seek to an item-aligned offset keeps the alignment; so read_block (seek to start*samp_stride, read nchans*nsamps items)
    returns the model slice at 16 and 32 bits too *)
Lemma seek_set_aligned fs isz s off : 0 < isz -> whole_items isz fs -> 0 <= off < total fs -> off mod isz = 0 ->
  exists s', seek_set_op fs s off = (s', OUnit) /\ InvA isz fs s' /\ absp fs s' = off.
Proof. intros Hz Hw Ho Hal. destruct (seek_set_ok fs s off Ho) as [s' [E [HI Ha]]]. exists s'. repeat split; try assumption; try apply HI.
  unfold absp in Ha. pose proof (before_aligned isz fs Hz Hw (ifile s') ltac:(destruct HI; lia)).
  replace (pos s' - hdrlen (fileat fs (ifile s'))) with (off - before fs (ifile s')) by lia.
  rewrite Zminus_mod, Hal, H. reflexivity. Qed.

(** * every history of item-aligned operations at an item width of isz bytes (16 and 32 bits: isz = 2, 4) *)
Definition op_aligned (isz : Z) (o : op) : Prop :=
  match o with SeekSet off => off mod isz = 0 | SeekCur off => off mod isz = 0 | Cread n => 0 <= n | Creadinto n => 0 <= n /\ n mod isz = 0 end.

Lemma absp_aligned isz fs s : 0 < isz -> whole_items isz fs -> InvA isz fs s -> absp fs s mod isz = 0.
Proof. intros Hz Hw [HI Hal]. unfold absp. pose proof (before_aligned isz fs Hz Hw (ifile s) ltac:(destruct HI; lia)).
  rewrite Z.add_mod by lia. rewrite H, Hal. reflexivity. Qed.

Lemma aligned_InvA isz fs s : 0 < isz -> whole_items isz fs -> Inv fs s -> absp fs s mod isz = 0 -> InvA isz fs s.
Proof. intros Hz Hw HI Hal. split; [assumption|]. unfold absp in Hal.
  pose proof (before_aligned isz fs Hz Hw (ifile s) ltac:(destruct HI; lia)).
  replace (pos s - hdrlen (fileat fs (ifile s))) with (before fs (ifile s) + (pos s - hdrlen (fileat fs (ifile s))) - before fs (ifile s)) by lia.
  rewrite Zminus_mod, Hal, H. reflexivity. Qed.

Lemma total_aligned isz fs : 0 < isz -> whole_items isz fs -> total fs mod isz = 0.
Proof. intros Hz Hw. rewrite <- before_all. apply before_aligned; try assumption. unfold nfiles. lia. Qed.

Lemma step_items_refines isz fs s o : 0 < isz -> whole_items isz fs -> InvA isz fs s -> op_aligned isz o ->
  let '(s', r) := step fs isz s o in
  let '(p', r') := spec_step (flat fs) isz (absp fs s) o in
  r = r' /\ absp fs s' = p' /\ InvA isz fs s'.
Proof. intros Hz Hw HA Hok. pose proof HA as [HI _]. pose proof (absp_bounds fs s HI) as Hab.
  pose proof (absp_aligned isz fs s Hz Hw HA) as Hpa. pose proof (total_aligned isz fs Hz Hw) as Hta.
  destruct o as [off|off|n|n]; cbn [step spec_step op_aligned] in *.
  - rewrite len_flat. destruct (Z.leb_spec 0 off); destruct (Z.ltb_spec off (total fs)); cbn [andb].
    + destruct (seek_set_aligned fs isz s off Hz Hw ltac:(lia) Hok) as [s' [-> [HA' Ha']]]. auto.
    + rewrite seek_set_err by lia. auto.
    + rewrite seek_set_err by lia. auto.
    + rewrite seek_set_err by lia. auto.
  - unfold seek_cur_op. rewrite stream_pos_abs by assumption. rewrite len_flat.
    assert (Hoa : (off + absp fs s) mod isz = 0) by (rewrite Z.add_mod by lia; rewrite Hok, Hpa; reflexivity).
    destruct (Z.leb_spec 0 (off + absp fs s)); destruct (Z.ltb_spec (off + absp fs s) (total fs)); cbn [andb].
    + destruct (seek_set_aligned fs isz s (off + absp fs s) Hz Hw ltac:(lia) Hoa) as [s' [-> [HA' Ha']]]. auto.
    + rewrite seek_set_err by lia. auto.
    + rewrite seek_set_err by lia. auto.
    + rewrite seek_set_err by lia. auto.
  - rewrite len_flat. destruct (cread_items_spec fs isz s n Hz Hw HA Hok) as [L1 L2].
    destruct (Z.leb_spec (absp fs s + n * isz) (total fs)).
    + destruct (L1 ltac:(lia)) as [s' [-> [HA' Ha']]]. auto.
    + destruct (L2 ltac:(lia)) as [s' [-> [HA' Ha']]]. auto.
  - destruct Hok as [Hn Hna]. rewrite len_flat. destruct (creadinto_spec fs s n HI Hn) as [s' [-> [HI' Ha']]].
    split; [reflexivity|]. split; [assumption|]. apply aligned_InvA; try assumption. rewrite Ha'.
    destruct (Z.min_spec n (total fs - absp fs s)) as [[_ ->]|[_ ->]].
    + rewrite Z.add_mod by lia. rewrite Hpa, Hna. reflexivity.
    + replace (absp fs s + (total fs - absp fs s)) with (total fs) by lia. assumption. Qed.

Theorem items_run_refines isz fs : 0 < isz -> whole_items isz fs -> forall ops s, InvA isz fs s -> Forall (op_aligned isz) ops ->
  run fs isz s ops = spec_run (flat fs) isz (absp fs s) ops.
Proof. intros Hz Hw. induction ops as [|o r IH]; intros s HA Hok; [reflexivity|]. inversion Hok as [|? ? Ho Hr]; subst.
  cbn [run spec_run]. pose proof (step_items_refines isz fs s o Hz Hw HA Ho) as L.
  destruct (step fs isz s o) as [s' res]. destruct (spec_step (flat fs) isz (absp fs s) o) as [p' res'].
  destruct L as [-> [Ha HA']]. rewrite stream_pos_abs by apply HA'. rewrite Ha. f_equal. rewrite <- Ha. apply IH; assumption. Qed.

Theorem items_stream_refines isz fs ops : 1 <= nfiles fs -> 0 < isz -> whole_items isz fs -> Forall (op_aligned isz) ops ->
  run fs isz (init fs) ops = spec_run (flat fs) isz 0 ops.
Proof. intros H Hz Hw Hok. destruct (init_inv fs H) as [HI Ha]. rewrite <- Ha. apply items_run_refines; try assumption.
  apply aligned_InvA; try assumption. rewrite Ha. apply Z.mod_0_l. lia. Qed.
