(** C10: min/max over ARBITRARY histories (any tree of additions, any start indices, zero-length pushes, additions with
    one empty side) and the std clause.  Lemmas about Gen/Moments.v (regenerated from kernels.py) and Model/C10_moments.v. *)
From Coq Require Import ZArith QArith Qfield List Bool Lia ZifyBool Lqa.
Require Import SPP.Model.C10_rt SPP.Gen.Moments SPP.Model.C10_moments SPP.Proofs.C10_moments.
Import ListNotations.
Open Scope Q_scope.

(** * what the regenerated kernels must do with the extrema: seed them from the chunk exactly when the accumulator holds no
    sample and the chunk is not empty, whatever the start index *)
Definition init_by_emptiness : Prop :=
  forall full f c k, (0 <= k)%Z -> init_of full f c k = ((c =? 0)%Z && (0 <? k)%Z)%bool.

Lemma hist_minmax_tree_if : init_by_emptiness -> empty_neutral_l -> empty_neutral_r ->
  forall full h, hist_ok h -> data h <> [] -> inv_minmax (data h) (eval full h).
Proof.
  intros HI EL ER full h. induction h as [|f c h IH|a IHa b IHb]; cbn [hist_ok data eval].
  - intros _ H. congruence.
  - intros [Hh Hb] Hne. pose proof (hist_moments full h Hh) as I. rewrite zlen_app in Hb.
    assert (Hcnt : s_cnt (eval full h) = zlen (data h)) by (destruct full; apply I).
    assert (P : s_min (push full f c (eval full h)) = lmin (if init_of full f (zlen (data h)) (zlen c) then hd 0 c else s_min (eval full h)) c /\
                s_max (push full f c (eval full h)) = lmax (if init_of full f (zlen (data h)) (zlen c) then hd 0 c else s_max (eval full h)) c).
    { rewrite <- Hcnt. destruct full; cbn [push init_of inv] in *.
      - apply (push_full_spec f c (data h) _ I Hb).
      - apply (push_basic_spec f c (data h) _ I Hb). }
    destruct P as [P1 P2]. unfold inv_minmax. rewrite P1, P2, HI by apply zlen_nonneg.
    destruct c as [|x c'].
    + (* a zero-length push changes nothing *)
      rewrite app_nil_r in *. change (zlen (@nil Q)) with 0%Z.
      replace ((zlen (data h) =? 0)%Z && (0 <? 0)%Z)%bool with false by (rewrite andb_false_r; reflexivity).
      cbn [lmin lmax]. apply IH; assumption.
    + pose proof (zlen_cons_pos x c') as Hk.
      destruct (data h) as [|y l] eqn:E.
      * (* first samples of this accumulator: seeded from the chunk, whatever the start index *)
        change (zlen (@nil Q)) with 0%Z.
        replace ((0 =? 0)%Z && (0 <? zlen (x :: c'))%Z)%bool with true by lia.
        cbn [app]. rewrite lmin_hd, lmax_hd by discriminate. split; reflexivity.
      * pose proof (zlen_cons_pos y l) as Hl.
        replace ((zlen (y :: l) =? 0)%Z && (0 <? zlen (x :: c'))%Z)%bool with false by lia.
        destruct (IH Hh ltac:(discriminate)) as [I1 I2].
        rewrite list_min_cont, list_max_cont by discriminate. split; [apply lmin_comp|apply lmax_comp]; assumption.
  - intros (Ha & Hb & _ & _) Hne.
    pose proof (hist_moments full a Ha) as Ia. pose proof (hist_moments full b Hb) as Ib.
    assert (Ca : s_cnt (eval full a) = zlen (data a)) by (destruct full; apply Ia).
    assert (Cb : s_cnt (eval full b) = zlen (data b)) by (destruct full; apply Ib).
    destruct (data a) as [|xa la] eqn:Ea; [|destruct (data b) as [|xb lb] eqn:Eb].
    + cbn [app] in *. pose proof (zlen_pos_of_ne _ Hne).
      destruct (EL (eval full a) (eval full b) Ca ltac:(lia)) as [M1 M2].
      unfold inv_minmax. rewrite M1, M2. apply IHb; auto.
    + rewrite app_nil_r. pose proof (zlen_cons_pos xa la).
      destruct (ER (eval full a) (eval full b) ltac:(lia) Cb) as [M1 M2].
      unfold inv_minmax. rewrite M1, M2. apply IHa; auto. discriminate.
    + pose proof (zlen_cons_pos xa la). pose proof (zlen_cons_pos xb lb).
      destruct (merge_minmax_nonempty (eval full a) (eval full b) ltac:(lia) ltac:(lia)) as [M1 M2].
      destruct (IHa Ha ltac:(discriminate)) as [A1 A2]. destruct (IHb Hb ltac:(discriminate)) as [B1 B2].
      unfold inv_minmax. rewrite M1, M2, list_min_app, list_max_app by discriminate.
      rewrite A1, A2, B1, B2. split; reflexivity.
Qed.

(** the three facts about the code as regenerated *)
Lemma gen_init_by_emptiness : init_by_emptiness.
Proof.
  intros [] f c k Hk; unfold init_of, compute_online_moments_init, compute_online_moments_basic_init; lia.
Qed.
Lemma gen_empty_neutral_l : empty_neutral_l.
Proof.
  intros [na a1 a2 a3 a4 alo ahi] [nb b1 b2 b3 b4 blo bhi]; cbn [s_cnt s_min s_max]; intros Ha Hb;
  unfold merge, add_online_moments; cbn [s_cnt s_m1 s_m2 s_m3 s_m4 s_min s_max]; cbv zeta; cbn [s_min s_max];
  subst; split; zeqb_cases; reflexivity.
Qed.
Lemma gen_empty_neutral_r : empty_neutral_r.
Proof.
  intros [na a1 a2 a3 a4 alo ahi] [nb b1 b2 b3 b4 blo bhi]; cbn [s_cnt s_min s_max]; intros Ha Hb;
  unfold merge, add_online_moments; cbn [s_cnt s_m1 s_m2 s_m3 s_m4 s_min s_max]; cbv zeta; cbn [s_min s_max];
  subst; split; zeqb_cases; reflexivity.
Qed.

(** * every history: any tree of additions (never two empty sides: [hist_ok]), any start indices, any chunk lengths incl. 0 *)
Theorem hist_minmax_tree full h : hist_ok h -> data h <> [] -> inv_minmax (data h) (eval full h).
Proof. apply hist_minmax_tree_if; [exact gen_init_by_emptiness|exact gen_empty_neutral_l|exact gen_empty_neutral_r]. Qed.

(** count, central sums and extrema at once *)
Theorem hist_record_tree full h : hist_ok h -> data h <> [] ->
  inv full (data h) (eval full h) /\ inv_minmax (data h) (eval full h).
Proof. intros Hok Hne. split; [apply hist_moments; exact Hok|apply hist_minmax_tree; assumption]. Qed.

Theorem hist_minmax_tree_independent full h1 h2 : hist_ok h1 -> hist_ok h2 -> data h1 = data h2 -> data h1 <> [] ->
  s_min (eval full h1) == s_min (eval full h2) /\ s_max (eval full h1) == s_max (eval full h2).
Proof.
  intros H1 H2 E Hne. destruct (hist_minmax_tree full h1 H1 Hne) as [A1 A2].
  destruct (hist_minmax_tree full h2 H2 ltac:(rewrite <- E; exact Hne)) as [B1 B2].
  rewrite A1, A2, B1, B2, E. split; reflexivity.
Qed.

(** * std = np.sqrt(var): [is_std r s n] (Model) says r is the non-negative root of the variance the record yields *)
Lemma qsq_nonneg d : 0 <= d * d.
Proof.
  destruct (Qlt_le_dec d 0) as [H|H].
  - setoid_replace (d * d) with ((- d) * (- d)) by ring. apply Qmult_le_0_compat; lra.
  - apply Qmult_le_0_compat; assumption.
Qed.
Lemma csum2_nonneg mu l : 0 <= csum2 mu l.
Proof.
  unfold csum2. induction l as [|x l IH]; cbn [map qsum]; [apply Qle_refl|].
  pose proof (qsq_nonneg (x - mu)). lra.
Qed.

Lemma z2q_pos n : (1 <= n)%Z -> 0 < z2q n.
Proof. intros H. unfold z2q. change 0 with (inject_Z 0). rewrite <- Zlt_Qlt. lia. Qed.

Lemma sq_root_unique r r' : 0 <= r -> 0 <= r' -> r * r == r' * r' -> r == r'.
Proof.
  intros H H' E. assert (F : (r - r') * (r + r') == 0) by (ring_simplify; rewrite E; ring).
  destruct (Qmult_integral _ _ F); lra.
Qed.

Lemma hist_var full h : hist_ok h -> data h <> [] ->
  var_q (eval full h) (zlen (data h)) == csum2 (qmean (data h)) (data h) / z2q (zlen (data h)).
Proof.
  intros Hok Hne. pose proof (hist_moments full h Hok) as I. destruct full; cbn [inv] in I.
  - apply (derived_two_pass _ _ Hne I).
  - apply (derived_basic_two_pass _ _ Hne I).
Qed.

Theorem hist_std full h : hist_ok h -> data h <> [] ->
  let n := zlen (data h) in let s := eval full h in let v := csum2 (qmean (data h)) (data h) / z2q n in
  0 <= var_q s n /\
  (forall r, is_std r s n -> 0 <= r /\ r * r == v) /\
  (forall r r', is_std r s n -> is_std r' s n -> r == r') /\
  (csum2 (qmean (data h)) (data h) == 0 -> forall r, is_std r s n -> r == 0).
Proof.
  intros Hok Hne n s v. pose proof (hist_var full h Hok Hne) as V. fold n s v in V.
  assert (Hn : 0 < z2q n) by (apply z2q_pos, zlen_pos_of_ne; exact Hne).
  assert (Hv : 0 <= v).
  { unfold v. apply Qle_shift_div_l; [exact Hn|]. rewrite Qmult_0_l. apply csum2_nonneg. }
  split; [rewrite V; exact Hv|]. split; [|split].
  - intros r [R0 R2]. split; [exact R0|]. rewrite R2. exact V.
  - intros r r' [R0 R2] [R0' R2']. apply sq_root_unique; auto. rewrite R2, R2'. reflexivity.
  - intros Hz r [R0 R2]. assert (E : r * r == 0).
    { rewrite R2, V. unfold v. rewrite Hz. field. intro Z0. rewrite Z0 in Hn. apply (Qlt_irrefl 0). exact Hn. }
    destruct (Qmult_integral _ _ E); assumption.
Qed.
