(** C18: optional arguments (nsamps = None, negative skipback), optional cards (NSTOT, ZERO_OFF), fractional
    ZERO_OFF / DAT_SCL / DAT_OFFS / DAT_WTS and the POL_TYPE table, over Gen.C18Pfits (regenerated) and Model.C18_PFits. *)
From Coq Require Import ZArith QArith Qfield List Bool Lia ZifyBool.
Require Coq.Strings.String.
Require Import SPP.Base.Rt SPP.Base.Iter SPP.Gen.Plan SPP.Gen.C18Pfits SPP.Model.Stream SPP.Model.Plan SPP.Model.C18_PFits
               SPP.Proofs.C01_plan SPP.Proofs.C18_pfits.
Import ListNotations.
Open Scope Z_scope.
Ltac Zify.zify_post_hook ::= Z.to_euclidean_division_equations.

(** ** read_plan with nsamps = None: everything from [start] to the end of the file, each sample once (any skipback sign) *)
Lemma plan_default_stitch : PlanSpec -> forall F g0 start s0, wf F -> 0 <= start < p_nstot F -> 1 <= g0 -> Z.abs s0 < Z.min (p_nstot F - start) g0 ->
  exists bl, pf_run_plan_default F g0 start s0 = TOk bl /\
    stitch (Z.abs s0 * p_nchan F) bl = concat (pyslice (all_rows F) start (p_nstot F)) /\
    Forall (block_ok (p_nchan F) g0) bl /\
    map (fun b => snd (fst b)) bl = zrange (len (map (fun _ => 0) bl)).
Proof. intros S F g0 start s0 W R Hg Hs. unfold pf_run_plan_default, pl_default_nsamps.
  assert (in_range F start (p_nstot F - start)) as IR by (unfold in_range; lia).
  destruct (plan_spec_stitch S F g0 start (p_nstot F - start) s0 W IR Hg Hs) as (bl & E1 & E2 & E3 & E4).
  exists bl. replace (start + (p_nstot F - start)) with (p_nstot F) in E2 by lia. repeat split; assumption. Qed.

(** the sign of the skipback argument does not matter *)
Lemma plan_skipback_sign F g0 start nsamps s0 : pfits_plan g0 start nsamps (- s0) = pfits_plan g0 start nsamps s0 ->
  pf_run_plan F g0 start nsamps (- s0) = pf_run_plan F g0 start nsamps s0.
Proof. intro E. unfold pf_run_plan. rewrite E. reflexivity. Qed.

Lemma plan_skipback_sign_all F g0 start nsamps s0 : pf_run_plan F g0 start nsamps (- s0) = pf_run_plan F g0 start nsamps s0.
Proof. apply plan_skipback_sign. unfold pfits_plan. rewrite Z.abs_opp. reflexivity. Qed.

(** ** optional cards *)
(** without an NSTOT card every sample of the table is valid: the whole-file read is the whole table *)
Lemma no_nstot_whole F : wf F -> p_nstot F = hdr_nstot None (p_nsblk F) (p_nsub F) -> whole F = ROk (all_rows F).
Proof. intros W E. destruct (whole_file F W) as [Hw _]. rewrite Hw. f_equal. pose proof W as [? ? ? ? ?].
  unfold hdr_nstot in E. unfold pyslice. rewrite E. cbn [Z.to_nat skipn]. rewrite Z.sub_0_r.
  apply firstn_all2. pose proof (all_rows_len F ltac:(lia) ltac:(lia)) as L. unfold lenr in L. lia. Qed.
Lemma cards_present n z nsblk nsub : hdr_nstot (Some n) nsblk nsub = n /\ hdr_zero_off (Some z) = z.
Proof. split; reflexivity. Qed.
(** without a ZERO_OFF card a sample is (raw * scale + offset) * weight *)
Lemma no_zero_off raw s o w : sub_value raw (hdr_zero_off None) s o w = (raw * s + o) * w.
Proof. unfold sub_value, hdr_zero_off. ring. Qed.

(** ** fractional values: the decode over Q is 1/(dz*ds*dw) times the decode of the scaled integer file *)
Lemma injnz d : d <> 0 -> ~ (inject_Z d == 0)%Q.
Proof. intros H E. apply H. unfold Qeq in E. cbn in E. lia. Qed.

Lemma sub_value_q_scaled raw z s o w dz ds dw : dz <> 0 -> ds <> 0 -> dw <> 0 ->
  (sub_value_q (inject_Z raw) (inject_Z z / inject_Z dz) (inject_Z s / inject_Z ds) (inject_Z o / (inject_Z dz * inject_Z ds)) (inject_Z w / inject_Z dw)
   * inject_Z (dz * ds * dw) == inject_Z (sub_value (raw * dz) z s o w))%Q.
Proof. intros Hz Hs Hw. unfold sub_value_q, sub_value.
  pose proof (injnz dz Hz). pose proof (injnz ds Hs). pose proof (injnz dw Hw).
  unfold Z.sub. repeat (rewrite ?inject_Z_mult, ?inject_Z_plus, ?inject_Z_opp). field. auto. Qed.

(** the polarisation combination commutes with the common factor *)
Lemma pol_value_q_scaled state c (v : Z -> Z) (vq : Z -> Q) D : (forall p, (vq p * D == inject_Z (v p))%Q) ->
  match pol_value_q state (inject_Z c) vq, pol_value state c v with
  | Some xq, Some x => (xq * D == inject_Z x)%Q
  | None, None => True
  | _, _ => False
  end.
Proof. intro H. unfold pol_value_q, pol_value.
  repeat match goal with |- context [if ?b then _ else _] => destruct b end; try exact I;
  repeat (rewrite ?inject_Z_mult, ?inject_Z_plus); try rewrite <- (H 0%Z); try rewrite <- (H 1%Z); try ring; try reflexivity. Qed.

(** [V] holds the fractional values whose numerators the scaled file carries *)
Definition numerators (V : qvals) (dz ds dw zn : Z) (sn on wn : Z -> Z -> Z) : Prop :=
  (q_zero V == inject_Z zn / inject_Z dz)%Q /\
  (forall i k, (q_scl V i k == inject_Z (sn i k) / inject_Z ds)%Q) /\
  (forall i k, (q_offs V i k == inject_Z (on i k) / (inject_Z dz * inject_Z ds))%Q) /\
  (forall i k, (q_wts V i k == inject_Z (wn i k) / inject_Z dw)%Q).

Lemma sub_value_q_compat a a' b b' c c' d d' e e' : (a == a' -> b == b' -> c == c' -> d == d' -> e == e' ->
  sub_value_q a b c d e == sub_value_q a' b' c' d' e')%Q.
Proof. intros Ha Hb Hc Hd He. unfold sub_value_q. rewrite Ha, Hb, Hc, Hd, He. reflexivity. Qed.

Lemma fractional_element F V dz ds dw zn sn on wn isub t c : dz <> 0 -> ds <> 0 -> dw <> 0 -> numerators V dz ds dw zn sn on wn ->
  match pol_elem_q F V (inject_Z (p_csc F)) isub t c,
        pol_value (p_state F) (p_csc F) (fun p => sub_elem (scaled_file F dz zn sn on wn) isub t p c) with
  | Some xq, Some x => (xq * inject_Z (dz * ds * dw) == inject_Z x)%Q /\ x = pol_elem (scaled_file F dz zn sn on wn) isub t c
  | None, None => True
  | _, _ => False
  end.
Proof. intros Hz Hs Hw (N1 & N2 & N3 & N4). unfold pol_elem_q.
  pose proof (pol_value_q_scaled (p_state F) (p_csc F) (fun p => sub_elem (scaled_file F dz zn sn on wn) isub t p c)
                (fun p => sub_elem_q F V isub t p c) (inject_Z (dz * ds * dw))) as P.
  assert (forall p, (sub_elem_q F V isub t p c * inject_Z (dz * ds * dw) == inject_Z (sub_elem (scaled_file F dz zn sn on wn) isub t p c))%Q) as E.
  { intro p. unfold sub_elem_q, sub_elem, scaled_file; cbn [p_raw p_zero p_scl p_offs p_wts p_npol p_nchan].
    eapply Qeq_trans; [|apply (sub_value_q_scaled _ _ _ _ _ dz ds dw Hz Hs Hw)]. apply Qmult_comp; [|reflexivity].
    apply sub_value_q_compat; [reflexivity|apply N1|apply N2|apply N3|apply N4]. }
  specialize (P E). unfold pol_elem.
  destruct (pol_value_q _ _ _), (pol_value (p_state F) (p_csc F) _) eqn:Ev; try exact P; try exact I.
  split; [exact P|]. cbn [p_state p_csc scaled_file] in *. rewrite Ev. reflexivity. Qed.

(** the scaled file has the layout of the fractional one: the position-independence theorems apply to it as they stand *)
Lemma scaled_wf F dz zn sn on wn : wf F -> wf (scaled_file F dz zn sn on wn).
Proof. intros [? ? ? ? St]. constructor; cbn; first [assumption | exact St]. Qed.

(** ** the POL_TYPE table *)
Import String.
Definition sum_spellings : list string := ["XXYY"; "LLRR"; "AABB"; "XXYYCRCI"; "LLRRCRCI"; "AABBCRCI"]%string.
Definition first_spellings : list string := ["STOKE"; "INTEN"; "AA+BB"]%string.

Lemma pol_spellings_sum card npol csc v : In card sum_spellings ->
  exists s, poln_state_of card npol = Some s /\ pol_value s csc v = Some ((v 0 + v 1) * csc).
Proof. unfold sum_spellings. cbn [In]. intros H.
  repeat (destruct H as [<-|H]; [eexists; split; [reflexivity|cbn; f_equal; ring]|]). contradiction. Qed.
Lemma pol_spellings_first card npol csc v : In card first_spellings ->
  exists s, poln_state_of card npol = Some s /\ pol_value s csc v = Some (v 0).
Proof. unfold first_spellings. cbn [In]. intros H.
  repeat (destruct H as [<-|H]; [eexists; split; [reflexivity|cbn; reflexivity]|]). contradiction. Qed.
Lemma find_none_intro {A} (f : A -> bool) l : (forall x, In x l -> f x = false) -> find f l = None.
Proof. induction l as [|a l IH]; intro H; [reflexivity|]. cbn. rewrite (H a (or_introl eq_refl)). apply IH. intros x Hx. apply H. right. exact Hx. Qed.
(** any other spelling: the state follows NPOL (1: the polarisation itself, 2: the sum of the two, 4: the first, Stokes I) *)
Lemma pol_spellings_other card npol csc v : ~ In card (map fst pol_table) ->
  (npol = 1 \/ npol = 4 -> exists s, poln_state_of card npol = Some s /\ pol_value s csc v = Some (v 0)) /\
  (npol = 2 -> exists s, poln_state_of card npol = Some s /\ pol_value s csc v = Some ((v 0 + v 1) * csc)).
Proof. intro N. assert (find (fun p => String.eqb (fst p) card) pol_table = None) as E.
  { apply find_none_intro. intros p Hp. apply String.eqb_neq. intros <-. apply N. apply in_map. exact Hp. }
  unfold poln_state_of. rewrite E. split.
  - intros [-> | ->]; eexists; (split; [reflexivity|cbn; reflexivity]).
  - intros ->. eexists. split; [reflexivity|cbn; f_equal; ring]. Qed.

(** ** witnesses *)
Definition wit_qv : qvals := mkqv (15 # 2) (fun _ _ => 1 # 4) (fun _ _ => (-7) # 2) (fun _ _ => 1 # 2).
Lemma wit_numerators : numerators wit_qv 2 4 2 15 (fun _ _ => 1) (fun _ _ => -28) (fun _ _ => 1).
Proof. unfold numerators, wit_qv; cbn. repeat split; intros; reflexivity. Qed.
Definition wit_nostot : pfile := mkpf 2 2 4 2 (hdr_nstot None 2 2) 8 1 (-1) (hdr_zero_off None) 1 (p_raw wit_file) (fun _ _ => 1) (fun _ _ => 0) (fun _ _ => 1).
Lemma wit_nostot_wf : wf wit_nostot.
Proof. constructor; cbn; try lia. vm_compute. destruct keeps_unit_axes; reflexivity. Qed.
Lemma wit_default_hyp : 0 <= 1 < p_nstot wit_file /\ Z.abs (-1) < Z.min (p_nstot wit_file - 1) 3.
Proof. cbn. lia. Qed.
