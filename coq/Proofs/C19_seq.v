(** C19 (c) -- the index-order sequential run of the generated threads equals the kernel's own sequential
    definition: the functional terms of Gen/Kernels.v (generated from the same source by py2coq.KernelTranslator).
    Proved here for extract_tim, extract_bpass, mask_channels, dedisperse, subband and invert_freq, and in Proofs/C19_seq2.v
    for remove_zerodm and the two decimators; the online moments have no functional twin in Gen/Kernels.v: they are tied by
    the correspondence run only. *)
From Coq Require Import ZArith List Bool Lia.
Require Import SPP.Base.Rt SPP.Base.Iter SPP.Gen.Kernels.
Require Import SPP.Model.C19_Prog SPP.Gen.C19Threads SPP.Model.C19_Footprints SPP.Proofs.C19_sched.
Import ListNotations.
Open Scope Z_scope.

Lemma run1_thread_of {A} (c : cmd A) m : run1 (thread_of c) m = snd (exec c m).
Proof. unfold run1, thread_of. rewrite exec_bind. reflexivity. Qed.

(** invariants through the thread list and through a counted loop *)
Lemma seq_run_threads_inv (f : Z -> prog) n (I : Z -> mem -> Prop) m :
  I 0 m -> (forall i m', 0 <= i < Z.of_nat n -> I i m' -> I (i + 1) (run1 (f i) m')) ->
  I (Z.of_nat n) (seq_run (threads_of f n) m).
Proof. induction n as [|n IH]; intros H0 Hs; [exact H0|].
  rewrite threads_of_S, seq_run_app, seq_run_cons. cbn [seq_run fold_left].
  replace (Z.of_nat (S n)) with (Z.of_nat n + 1) by lia. apply Hs; [lia|].
  apply IH; [exact H0|]. intros; apply Hs; [lia|assumption]. Qed.

Lemma exec_for_inv {St} n (body : Z -> St -> cmd St) (I : Z -> St -> mem -> Prop) : forall s m,
  I 0 s m ->
  (forall j t m', 0 <= j < Z.of_nat n -> I j t m' -> I (j + 1) (fst (exec (body j t) m')) (snd (exec (body j t) m'))) ->
  I (Z.of_nat n) (fst (exec (for_ n body s) m)) (snd (exec (for_ n body s) m)).
Proof. unfold for_. induction n as [|n IH]; intros s m H0 Hs; [exact H0|].
  rewrite exec_for_from_S. replace (Z.of_nat (S n)) with (Z.of_nat n + 1) by lia.
  replace (0 + Z.of_nat n) with (Z.of_nat n) by lia. apply Hs; [lia|].
  apply IH; [exact H0|]. intros; apply Hs; [lia|assumption]. Qed.

Lemma mupd_at m id k v k' : mupd m (id, k) v (id, k') = if k' =? k then v else m (id, k').
Proof. unfold mupd, loc_eqb. cbn [fst snd]. now rewrite Z.eqb_refl. Qed.
Lemma mupd_off m id k v l : fst l <> id -> mupd m (id, k) v l = m l.
Proof. intro H. apply mupd_other. intros ->. now apply H. Qed.

(** np.sum of a slice, load by load *)
Lemma exec_sum_reads id lo n : forall acc m,
  exec (for_ n (fun k_ acc_ => bind (rd (id, lo + k_)) (fun x_ => Ret (acc_ + x_))) acc) m =
  (acc + sum_n n (fun k => m (id, lo + k)), m).
Proof. unfold for_. induction n as [|n IH]; intros acc m.
  - cbn. f_equal. lia.
  - rewrite exec_for_from_S, IH. cbn [fst snd sum_n bind rd exec]. f_equal.
    replace (0 + Z.of_nat n) with (Z.of_nat n) by lia. lia. Qed.

(** * extract_tim *)
Lemma extract_tim_seq nchans nsamps index m k :
  seq_run (extract_tim_threads nchans nsamps index) m (extract_tim_ID_outarray, k) =
  extract_tim_run (arr_of m extract_tim_ID_inarray) (arr_of m extract_tim_ID_outarray) nchans nsamps index k.
Proof. unfold extract_tim_threads, extract_tim_trip, extract_tim_run.
  set (F := fun isamp outarray => upd outarray (index + isamp)
              (sum_range (arr_of m extract_tim_ID_inarray) (nchans * isamp) (nchans * (isamp + 1)))).
  pose (I := fun (j : Z) (m' : mem) => (forall l, fst l <> extract_tim_ID_outarray -> m' l = m l) /\
              forall k, m' (extract_tim_ID_outarray, k) = iter (Z.to_nat j) F (arr_of m extract_tim_ID_outarray) k).
  assert (H : I (Z.of_nat (Z.to_nat nsamps)) (seq_run (threads_of (extract_tim_thread nchans nsamps index) (Z.to_nat nsamps)) m)).
  { apply seq_run_threads_inv.
    - split; [reflexivity|]. intro; reflexivity.
    - intros i m' Hi [Hfr Hout]. unfold extract_tim_thread, extract_tim_body. rewrite run1_thread_of.
      rewrite exec_bind, exec_sum_reads. cbn [fst snd bind wr exec]. split.
      + intros l Hl. rewrite mupd_off by assumption. now apply Hfr.
      + intro k'. rewrite mupd_at. replace (Z.to_nat (i + 1)) with (S (Z.to_nat i)) by lia.
        cbn [iter]. rewrite Z2Nat.id by lia. unfold F at 1, upd.
        destruct (k' =? index + i); [|apply Hout].
        unfold sum_range. rewrite Z.add_0_l. apply sum_n_ext. intros j _. unfold arr_of. apply Hfr. discriminate. }
  unfold I in H. destruct H as [_ H]. rewrite Nat2Z.id in H. apply H. Qed.

(** * extract_bpass *)
Lemma extract_bpass_seq nchans nsamps m k :
  seq_run (extract_bpass_threads nchans nsamps) m (extract_bpass_ID_outarray, k) =
  extract_bpass_run (arr_of m extract_bpass_ID_inarray) (arr_of m extract_bpass_ID_outarray) nchans nsamps k.
Proof. unfold extract_bpass_threads, extract_bpass_trip, extract_bpass_run.
  set (inarray := arr_of m extract_bpass_ID_inarray).
  set (G := fun ichan isamp (outarray : arr) => upd outarray ichan (outarray ichan + inarray (nchans * isamp + ichan))).
  set (F := fun ichan outarray => iter (Z.to_nat nsamps) (G ichan) outarray).
  pose (I := fun (j : Z) (m' : mem) => (forall l, fst l <> extract_bpass_ID_outarray -> m' l = m l) /\
              forall k, m' (extract_bpass_ID_outarray, k) = iter (Z.to_nat j) F (arr_of m extract_bpass_ID_outarray) k).
  assert (H : I (Z.of_nat (Z.to_nat nchans)) (seq_run (threads_of (extract_bpass_thread nchans nsamps) (Z.to_nat nchans)) m)).
  { apply seq_run_threads_inv.
    - split; [reflexivity|]. intro; reflexivity.
    - intros i m' Hi [Hfr Hout]. unfold extract_bpass_thread, extract_bpass_body. rewrite run1_thread_of.
      rewrite exec_bind. cbn [exec snd].
      match goal with |- I _ (snd (exec (for_ ?n ?b ?s) m')) => 
        pose proof (exec_for_inv n b (fun j _ m'' => (forall l, fst l <> extract_bpass_ID_outarray -> m'' l = m l) /\
            forall k, m'' (extract_bpass_ID_outarray, k) = iter (Z.to_nat j) (G i) (arr_of m' extract_bpass_ID_outarray) k) s m') as HI end.
      cbv beta in HI. destruct HI as [Hfr2 Hout2].
      + split; [exact Hfr|]. intro; reflexivity.
      + intros j t m'' Hj [Hf Ho]. cbn [exec bind rd wr fst snd]. split.
        * intros l Hl. rewrite mupd_off by assumption. now apply Hf.
        * intro k'. rewrite mupd_at. replace (Z.to_nat (j + 1)) with (S (Z.to_nat j)) by lia. cbn [iter].
          rewrite Z2Nat.id by lia. unfold G at 1, upd. destruct (k' =? i); [|apply Ho].
          rewrite Ho. f_equal. unfold inarray, arr_of. apply Hf. discriminate.
      + split; [exact Hfr2|]. intro k'. rewrite Hout2, Nat2Z.id.
        replace (Z.to_nat (i + 1)) with (S (Z.to_nat i)) by lia. cbn [iter]. rewrite Z2Nat.id by lia.
        unfold F at 1. unfold G. rewrite !iter_accum. f_equal. unfold arr_of. apply Hout. }
  unfold I in H. destruct H as [_ H]. rewrite Nat2Z.id in H. apply H. Qed.

(** * dedisperse *)
Lemma dedisperse_seq maxdelay nchans nsamps index m k :
  seq_run (dedisperse_threads maxdelay nchans nsamps index) m (dedisperse_ID_outarray, k) =
  dedisperse_run (arr_of m dedisperse_ID_inarray) (arr_of m dedisperse_ID_outarray) (arr_of m dedisperse_ID_delays)
     maxdelay nchans nsamps index k.
Proof. unfold dedisperse_threads, dedisperse_trip, dedisperse_run.
  set (inarray := arr_of m dedisperse_ID_inarray). set (delays := arr_of m dedisperse_ID_delays).
  set (G := fun isamp ichan (outarray : arr) => upd outarray (index + isamp)
               (outarray (index + isamp) + inarray (nchans * (isamp + delays ichan) + ichan))).
  set (F := fun isamp outarray => iter (Z.to_nat nchans) (G isamp) outarray).
  pose (I := fun (j : Z) (m' : mem) => (forall l, fst l <> dedisperse_ID_outarray -> m' l = m l) /\
              forall k, m' (dedisperse_ID_outarray, k) = iter (Z.to_nat j) F (arr_of m dedisperse_ID_outarray) k).
  assert (H : I (Z.of_nat (Z.to_nat (nsamps - maxdelay)))
                (seq_run (threads_of (dedisperse_thread maxdelay nchans nsamps index) (Z.to_nat (nsamps - maxdelay))) m)).
  { apply seq_run_threads_inv.
    - split; [reflexivity|]. intro; reflexivity.
    - intros i m' Hi [Hfr Hout]. unfold dedisperse_thread, dedisperse_body. rewrite run1_thread_of.
      rewrite exec_bind. cbn [exec snd].
      match goal with |- I _ (snd (exec (for_ ?n ?b ?s) m')) => 
        pose proof (exec_for_inv n b (fun j _ m'' => (forall l, fst l <> dedisperse_ID_outarray -> m'' l = m l) /\
            forall k, m'' (dedisperse_ID_outarray, k) = iter (Z.to_nat j) (G i) (arr_of m' dedisperse_ID_outarray) k) s m') as HI end.
      cbv beta in HI. destruct HI as [Hfr2 Hout2].
      + split; [exact Hfr|]. intro; reflexivity.
      + intros j t m'' Hj [Hf Ho]. cbn [exec bind rd wr fst snd]. split.
        * intros l Hl. rewrite mupd_off by assumption. now apply Hf.
        * intro k'. rewrite mupd_at. replace (Z.to_nat (j + 1)) with (S (Z.to_nat j)) by lia. cbn [iter].
          rewrite Z2Nat.id by lia. unfold G at 1, upd. destruct (k' =? index + i); [|apply Ho].
          rewrite Ho. f_equal. unfold inarray, delays, arr_of.
          rewrite (Hf (dedisperse_ID_delays, j)) by discriminate. apply Hf. discriminate.
      + split; [exact Hfr2|]. intro k'. rewrite Hout2, Nat2Z.id.
        replace (Z.to_nat (i + 1)) with (S (Z.to_nat i)) by lia. cbn [iter]. rewrite Z2Nat.id by lia.
        unfold F at 1. unfold G. rewrite !iter_accum. f_equal. unfold arr_of. apply Hout. }
  unfold I in H. destruct H as [_ H]. rewrite Nat2Z.id in H. apply H. Qed.

(** * subband (no obligation needed for this part: the sequential run is the python definition whatever the table) *)
Lemma subband_seq maxdelay nchans nsubs nsamps m k :
  seq_run (subband_threads maxdelay nchans nsubs nsamps) m (subband_ID_outarray, k) =
  subband_run (arr_of m subband_ID_inarray) (arr_of m subband_ID_outarray) (arr_of m subband_ID_delays)
     (arr_of m subband_ID_chan_to_sub) maxdelay nchans nsubs nsamps k.
Proof. unfold subband_threads, subband_trip, subband_run.
  set (inarray := arr_of m subband_ID_inarray). set (delays := arr_of m subband_ID_delays).
  set (cts := arr_of m subband_ID_chan_to_sub).
  set (G := fun isamp ichan (outarray : arr) => upd outarray (nsubs * isamp + cts ichan)
               (outarray (nsubs * isamp + cts ichan) + inarray (nchans * (isamp + delays ichan) + ichan))).
  set (F := fun isamp outarray => iter (Z.to_nat nchans) (G isamp) outarray).
  pose (I := fun (j : Z) (m' : mem) => (forall l, fst l <> subband_ID_outarray -> m' l = m l) /\
              forall k, m' (subband_ID_outarray, k) = iter (Z.to_nat j) F (arr_of m subband_ID_outarray) k).
  assert (H : I (Z.of_nat (Z.to_nat (nsamps - maxdelay)))
                (seq_run (threads_of (subband_thread maxdelay nchans nsubs nsamps) (Z.to_nat (nsamps - maxdelay))) m)).
  { apply seq_run_threads_inv.
    - split; [reflexivity|]. intro; reflexivity.
    - intros i m' Hi [Hfr Hout]. unfold subband_thread, subband_body. rewrite run1_thread_of.
      rewrite exec_bind. cbn [exec snd].
      match goal with |- I _ (snd (exec (for_ ?n ?b ?s) m')) => 
        pose proof (exec_for_inv n b (fun j _ m'' => (forall l, fst l <> subband_ID_outarray -> m'' l = m l) /\
            forall k, m'' (subband_ID_outarray, k) = iter (Z.to_nat j) (G i) (arr_of m' subband_ID_outarray) k) s m') as HI end.
      cbv beta in HI. destruct HI as [Hfr2 Hout2].
      + split; [exact Hfr|]. intro; reflexivity.
      + intros j t m'' Hj [Hf Ho]. cbn [exec bind rd wr fst snd]. split.
        * intros l Hl. rewrite mupd_off by assumption. now apply Hf.
        * intro k'. rewrite mupd_at. replace (Z.to_nat (j + 1)) with (S (Z.to_nat j)) by lia. cbn [iter].
          rewrite Z2Nat.id by lia. unfold G at 1, upd.
          rewrite (Hf (subband_ID_chan_to_sub, j)) by discriminate. change (m (subband_ID_chan_to_sub, j)) with (cts j).
          destruct (k' =? nsubs * i + cts j); [|apply Ho].
          rewrite Ho. f_equal. unfold inarray, delays, arr_of.
          rewrite (Hf (subband_ID_delays, j)) by discriminate. apply Hf. discriminate.
      + split; [exact Hfr2|]. intro k'. rewrite Hout2, Nat2Z.id.
        replace (Z.to_nat (i + 1)) with (S (Z.to_nat i)) by lia. cbn [iter]. rewrite Z2Nat.id by lia.
        unfold F at 1. unfold G. rewrite !iter_accum. f_equal. unfold arr_of. apply Hout. }
  unfold I in H. destruct H as [_ H]. rewrite Nat2Z.id in H. apply H. Qed.

(** a scatter loop respects pointwise equality of the incoming array *)
Lemma iter_upd_ext n (w v : Z -> Z) : forall (a1 a2 : arr), (forall k, a1 k = a2 k) ->
  forall k, iter n (fun i a => upd a (w i) (v i)) a1 k = iter n (fun i a => upd a (w i) (v i)) a2 k.
Proof. induction n as [|n IH]; intros a1 a2 E k; cbn [iter]; [apply E|].
  unfold upd at 1 3. destruct (k =? w (Z.of_nat n)); [reflexivity|]. now apply IH. Qed.

(** * mask_channels *)
Lemma mask_channels_seq maskvalue nchans nsamps m k :
  seq_run (mask_channels_threads maskvalue nchans nsamps) m (mask_channels_ID_array, k) =
  mask_channels_run (arr_of m mask_channels_ID_array) (arr_of m mask_channels_ID_mask) maskvalue nchans nsamps k.
Proof. unfold mask_channels_threads, mask_channels_trip, mask_channels_run.
  set (mask := arr_of m mask_channels_ID_mask).
  set (G := fun ichan isamp (array : arr) => upd array (nchans * isamp + ichan) maskvalue).
  set (F := fun ichan (array : arr) => if negb (mask ichan =? 0) then iter (Z.to_nat nsamps) (G ichan) array else array).
  pose (I := fun (j : Z) (m' : mem) => (forall l, fst l <> mask_channels_ID_array -> m' l = m l) /\
              forall k, m' (mask_channels_ID_array, k) = iter (Z.to_nat j) F (arr_of m mask_channels_ID_array) k).
  assert (H : I (Z.of_nat (Z.to_nat nchans)) (seq_run (threads_of (mask_channels_thread maskvalue nchans nsamps) (Z.to_nat nchans)) m)).
  { apply seq_run_threads_inv.
    - split; [reflexivity|]. intro; reflexivity.
    - intros i m' Hi [Hfr Hout]. unfold mask_channels_thread, mask_channels_body. rewrite run1_thread_of.
      cbn [bind rd exec]. rewrite (Hfr (mask_channels_ID_mask, i)) by discriminate.
      change (m (mask_channels_ID_mask, i)) with (mask i).
      assert (HS : forall k', iter (Z.to_nat (i + 1)) F (arr_of m mask_channels_ID_array) k' =
                              F i (iter (Z.to_nat i) F (arr_of m mask_channels_ID_array)) k').
      { intro k'. replace (Z.to_nat (i + 1)) with (S (Z.to_nat i)) by lia. cbn [iter]. rewrite Z2Nat.id by lia. reflexivity. }
      unfold I. destruct (negb (mask i =? 0)) eqn:Em.
      + rewrite exec_bind. rewrite exec_bind. cbn [exec snd].
        match goal with |- context [exec (for_ ?n ?b ?s) m'] =>
          pose proof (exec_for_inv n b (fun j _ m'' => (forall l, fst l <> mask_channels_ID_array -> m'' l = m l) /\
              forall k, m'' (mask_channels_ID_array, k) = iter (Z.to_nat j) (G i) (arr_of m' mask_channels_ID_array) k) s m') as HI end.
        cbv beta in HI. destruct HI as [Hfr2 Hout2].
        * split; [exact Hfr|]. intro; reflexivity.
        * intros j t m'' Hj [Hf Ho]. cbn [exec bind rd wr fst snd]. split.
          -- intros l Hl. rewrite mupd_off by assumption. now apply Hf.
          -- intro k'. rewrite mupd_at. replace (Z.to_nat (j + 1)) with (S (Z.to_nat j)) by lia. cbn [iter].
             rewrite Z2Nat.id by lia. unfold G at 1, upd. destruct (k' =? nchans * j + i); [reflexivity|apply Ho].
        * split; [exact Hfr2|]. intro k'. rewrite Hout2, Nat2Z.id, HS. unfold F at 1. rewrite Em.
          unfold G. apply iter_upd_ext. intro. unfold arr_of. apply Hout.
      + cbn [bind exec snd]. split; [exact Hfr|]. intro k'. rewrite HS. unfold F at 1. rewrite Em. apply Hout. }
  unfold I in H. destruct H as [_ H]. rewrite Nat2Z.id in H. apply H. Qed.

(** * invert_freq (the fresh output array starts with whatever the memory holds there: np.empty_like) *)
Lemma invert_freq_seq nchans nsamps m k :
  seq_run (invert_freq_threads nchans nsamps) m (invert_freq_ID_outarray, k) =
  invert_freq_run (arr_of m invert_freq_ID_outarray) (arr_of m invert_freq_ID_array) nchans nsamps k.
Proof. unfold invert_freq_threads, invert_freq_trip, invert_freq_run. cbv zeta.
  set (array := arr_of m invert_freq_ID_array).
  set (G := fun isamp k1 (outarray : arr) => upd outarray (nchans * isamp + k1) (array (nchans * (isamp + 1) - 1 - k1))).
  set (F := fun isamp (outarray : arr) => iter (Z.to_nat (nchans * (isamp + 1) - nchans * isamp)) (G isamp) outarray).
  pose (I := fun (j : Z) (m' : mem) => (forall l, fst l <> invert_freq_ID_outarray -> m' l = m l) /\
              forall k, m' (invert_freq_ID_outarray, k) = iter (Z.to_nat j) F (arr_of m invert_freq_ID_outarray) k).
  assert (H : I (Z.of_nat (Z.to_nat nsamps)) (seq_run (threads_of (invert_freq_thread nchans nsamps) (Z.to_nat nsamps)) m)).
  { apply seq_run_threads_inv.
    - split; [reflexivity|]. intro; reflexivity.
    - intros i m' Hi [Hfr Hout]. unfold invert_freq_thread, invert_freq_body. rewrite run1_thread_of.
      rewrite exec_bind. cbn [exec snd].
      match goal with |- I _ (snd (exec (for_ ?n ?b ?s) m')) =>
        pose proof (exec_for_inv n b (fun j _ m'' => (forall l, fst l <> invert_freq_ID_outarray -> m'' l = m l) /\
            forall k, m'' (invert_freq_ID_outarray, k) = iter (Z.to_nat j) (G i) (arr_of m' invert_freq_ID_outarray) k) s m') as HI end.
      cbv beta in HI. destruct HI as [Hfr2 Hout2].
      + split; [exact Hfr|]. intro; reflexivity.
      + intros j t m'' Hj [Hf Ho]. cbn [exec bind rd wr fst snd]. split.
        * intros l Hl. rewrite mupd_off by assumption. now apply Hf.
        * intro k'. rewrite mupd_at. replace (Z.to_nat (j + 1)) with (S (Z.to_nat j)) by lia. cbn [iter].
          rewrite Z2Nat.id by lia. unfold G at 1, upd. destruct (k' =? nchans * i + j); [|apply Ho].
          unfold array, arr_of. apply Hf. discriminate.
      + split; [exact Hfr2|]. intro k'. rewrite Hout2, Nat2Z.id.
        replace (Z.to_nat (i + 1)) with (S (Z.to_nat i)) by lia. cbn [iter]. rewrite Z2Nat.id by lia.
        unfold F at 1. unfold G. apply iter_upd_ext. intro. unfold arr_of. apply Hout. }
  unfold I in H. destruct H as [_ H]. rewrite Nat2Z.id in H. apply H. Qed.
