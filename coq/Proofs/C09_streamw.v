(** C09 -- Filterbank.dedisperse over the WHOLE read plan: the loop of Model/C09_Stream.v over the blocks
    read_plan yields (plan_blocks) returns exactly sum_c x[c][start + t + t0 + d_c] at every t < nsamps_sel - span
    and 0 elsewhere, for every requested gulp. *)
From Coq Require Import ZArith List Bool Lia ZifyBool.
Require Import SPP.Base.Rt SPP.Base.Iter SPP.Model.C09_Arr2 SPP.Model.C09_Spec SPP.Gen.Kernels SPP.Gen.C09
  SPP.Model.C09_Stream SPP.Proofs.C09_arr2 SPP.Proofs.C09_kernels SPP.Proofs.C09_stream.
Import ListNotations.
Open Scope Z_scope.

Section Whole.
Variables (x : arr2) (d : arr) (nchans gulp nsel start : Z).
Hypothesis Hn : 1 <= nchans.
Hypothesis Href : exists r, 0 <= r < nchans /\ 0 <= d r.

Let blk := stream_block x d nchans gulp nsel.
Let sp := spec_stream x nchans start d (t0_of nchans d).
Let md := span_of nchans d.

(** blocks of read size G with skip-back md, written at ii * (G - md): from block ii on they add the demanded
    sums on [ii * (G - md), nsel - md) and nothing elsewhere *)
Lemma plan_suffix_adds G : 1 <= G - md -> md <= G - md ->
  (forall ii, stream_kernel_index d nchans gulp nsel ii = ii * (G - md)) ->
  forall fuel ii out, 0 <= ii -> nsel - ii * (G - md) <= Z.of_nat fuel ->
  forall k, fold_left blk (plan_blocks fuel start nsel G md ii) out k =
            out k + if (ii * (G - md) <=? k) && (k <? nsel - md) then sp k else 0.
Proof.
  intros Hs Hmd Hidx. assert (Hmd0 : 0 <= md) by (unfold md, span_of; lia). induction fuel as [|f IH]; intros ii out Hii Hf k.
  - cbn [plan_blocks fold_left]. destruct ((ii * (G - md) <=? k) && (k <? nsel - md)) eqn:E; lia.
  - cbn [plan_blocks]. cbv zeta. set (off := ii * (G - md)) in *.
    destruct (nsel - off <=? md) eqn:E1.
    + cbn [fold_left]. destruct ((off <=? k) && (k <? nsel - md)) eqn:E; lia.
    + destruct (nsel - off <=? G) eqn:E2.
      * cbn [fold_left]. unfold blk. replace (start + off) with (start + stream_kernel_index d nchans gulp nsel ii) by (rewrite Hidx; reflexivity).
        rewrite stream_block_adds_spec by assumption. rewrite Hidx. fold off. fold md. fold sp.
        replace (off + Z.max 0 (nsel - off - md)) with (nsel - md) by lia. reflexivity.
      * cbn [fold_left].
        assert (Hoff : (ii + 1) * (G - md) = off + (G - md)) by (unfold off; ring).
        rewrite IH; [|lia|rewrite Hoff; lia]. rewrite Hoff.
        unfold blk. replace (start + off) with (start + stream_kernel_index d nchans gulp nsel ii) by (rewrite Hidx; reflexivity).
        rewrite stream_block_adds_spec by assumption. rewrite Hidx. fold off. fold md. fold sp.
        replace (off + Z.max 0 (G - md)) with (off + (G - md)) by lia.
        destruct ((off <=? k) && (k <? off + (G - md))) eqn:A; destruct ((off + (G - md) <=? k) && (k <? nsel - md)) eqn:B;
          destruct ((off <=? k) && (k <? nsel - md)) eqn:C; lia.
Qed.

Theorem stream_whole_file fuel : 1 <= gulp -> md < nsel -> nsel <= Z.of_nat fuel ->
  forall k, stream_run x d nchans gulp nsel
              (plan_blocks fuel start nsel (Z.min nsel (stream_plan_gulp d nchans gulp nsel)) (stream_plan_skipback d nchans gulp nsel) 0) k
            = if (0 <=? k) && (k <? nsel - md) then sp k else 0.
Proof.
  intros Hg Hv Hf k. unfold stream_run.
  assert (Emd : stream_plan_skipback d nchans gulp nsel = md) by (apply stream_maxdelay_span; assumption).
  destruct (stream_plan_facts d nchans gulp nsel Hn) as [Esk [H2 [Hge [_ [_ _]]]]].
  rewrite Esk in Emd. rewrite Emd in H2. rewrite Esk, Emd.
  set (Gs := stream_plan_gulp d nchans gulp nsel) in *.
  assert (Hmdpos : 0 <= md) by (unfold md, span_of; lia).
  destruct (Z_le_gt_dec Gs nsel) as [Hle|Hgt].
  - (* the read size fits: blocks of Gs samples, stride Gs - md *)
    replace (Z.min nsel Gs) with Gs by lia.
    rewrite (plan_suffix_adds Gs); try lia.
    + cbn [Z.mul]. replace (0 * (Gs - md)) with 0 by lia. reflexivity.
    + intro ii. unfold stream_kernel_index. unfold Gs, stream_plan_gulp. f_equal. f_equal.
      unfold stream_plan_skipback in Esk. unfold stream_kernel_maxdelay in Emd. exact Emd.
  - (* the read size exceeds the selection: one block of nsel samples *)
    replace (Z.min nsel Gs) with nsel by lia.
    destruct fuel as [|f]; [lia|]. cbn [plan_blocks]. cbv zeta.
    replace (0 * (nsel - md)) with 0 by lia. replace (nsel - 0) with nsel by lia. replace (start + 0) with start by lia.
    destruct (nsel <=? md) eqn:E1; [lia|]. destruct (nsel <=? nsel) eqn:E2; [|lia]. cbn [fold_left].
    pose proof (stream_block_adds_spec x d nchans gulp nsel (fun _ => 0) nsel 0 start Hn Href k) as B.
    replace (stream_kernel_index d nchans gulp nsel 0) with 0 in B by reflexivity.
    replace (start + 0) with start in B by lia. rewrite B. fold md. fold sp.
    replace (0 + Z.max 0 (nsel - md)) with (nsel - md) by lia. reflexivity.
Qed.
End Whole.
