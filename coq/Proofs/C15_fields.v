(** C15 -- the other two fields of the result of stats.estimate_zscore (the location subtracted and the divisor used), and the
    lanes whose scale estimate is zero under an affine map, for the definitions regenerated in Gen/Stats.v. *)
From Coq Require Import ZArith List Bool QArith Qcanon Qcabs Lia Lqa.
Require Import SPP.Base.Rt SPP.Base.Iter SPP.Model.C15_np SPP.Gen.Stats.
Require Import SPP.Proofs.C15_lib SPP.Proofs.C15_order SPP.Proofs.C15_rel SPP.Proofs.C15_equiv SPP.Proofs.C15_view
               SPP.Proofs.C15_lanes SPP.Proofs.C15_lanes2 SPP.Proofs.C15_glue SPP.Proofs.C15_fixed SPP.Proofs.C15_main.
Import ListNotations.
Open Scope Z_scope.

Section Fields.
  Variable memo : nd -> nd.
  Hypothesis Hm : memo_ok memo.

  Section ZT.
    Variables (sh : list Z) (data loc scale : nd) (axis : option Z).
    Hypothesis Hsh : sh <> nil.
    Hypothesis Hd : shape data = sh.
    Hypothesis Bl : bc sh (shape loc).
    Hypothesis Bs : bc sh (shape scale).

    (** the divisor returned broadcasts against the data; the location returned is the one that was subtracted *)
    Lemma ztail_fields_bc : let '(_, l, s) := ztail memo data loc scale axis in l = loc /\ bc sh (shape s).
    Proof. unfold ztail. cbv zeta. split; [reflexivity|].
      set (tiny := memo (np_mul (scalar float32_tiny) (np_reduce max1 (np_abs (memo (np_sub data loc))) axis true))).
      assert (Bt : bc sh (shape tiny)).
      { unfold tiny. rewrite (memo_shape memo Hm). apply bc_map2; [now left|].
        assert (S : shape (np_abs (memo (np_sub data loc))) = sh).
        { cbn [shape np_abs nd_map]. rewrite (memo_shape memo Hm). cbn [shape np_sub nd_map2]. rewrite Hd. now apply bshape_full_l. }
        rewrite <- S at 1. apply bc_reduce. now rewrite S. }
      assert (Bzs : bc sh (shape (memo (np_le scale tiny)))) by (rewrite (memo_shape memo Hm); now apply bc_map2).
      destruct (np_any (memo (np_le scale tiny))); [|exact Bs].
      rewrite (memo_shape memo Hm). apply bc_map3; [exact Bzs|now left|exact Bs]. Qed.

    (** where the scale estimate is zero the divisor is 1 and the Z-score is the deviation itself; where the divisor is not 1 it is
        the scale estimate *)
    Lemma ztail_fields_rd I : in_range sh I ->
      let '(z, _, s) := ztail memo data loc scale axis in
      (rd s I = qz 1 \/ rd s I = rd scale I) /\
      (rd scale I = qz 0 -> rd s I = qz 1 /\ rd z I = (rd data I - rd loc I)%Qc).
    Proof. intro HI. pose proof (ztail_rd memo Hm sh data loc scale axis Hsh Hd Bl Bs I HI) as P.
      pose proof (tiny_nonneg memo Hm sh data loc axis Hsh Hd Bl I (in_range_length _ _ HI)) as T.
      destruct (ztail memo data loc scale axis) as [[z l] s]. destruct P as [Ps Pz].
      split.
      - rewrite Ps. destruct (Qcleb _ _); [now left|now right].
      - intro E0. assert (F : Qcleb (rd scale I) (rd (memo (np_mul (scalar float32_tiny) (np_reduce max1 (np_abs (memo (np_sub data loc))) axis true))) I) = true).
        { apply Qcleb_iff. rewrite E0. exact T. }
        rewrite F in Ps. split; [exact Ps|]. rewrite Pz, Ps. unfold Qcdiv. assert (E1 : (/ qz 1 = Q2Qc 1)%Qc) by reflexivity. rewrite E1. ring. Qed.
  End ZT.

  (** a lane whose scale estimate is zero, under x -> a x + b: unit divisor on both sides, Z-scores a (x - loc) *)
  Lemma zscore_zero_scale_affine (np_sqrt : Qc -> Qc) (sh : list Z) (a b : Qc) data data' loc loc' sc sc' axis I :
    a <> Q2Qc 0 -> sh <> nil -> shape data = sh -> bc sh (shape loc) -> bc sh (shape sc) -> in_range sh I ->
    rel_of (affine a b) data data' -> rel_of (affine a b) loc loc' -> rel_of (scale (Qcabs a)) sc sc' ->
    rd sc I = qz 0 ->
    let '(z, _, s) := ztail memo data loc sc axis in
    let '(z', _, s') := ztail memo data' loc' sc' axis in
    rd s I = qz 1 /\ rd s' I = qz 1 /\ rd z I = (rd data I - rd loc I)%Qc /\ rd z' I = (a * (rd data I - rd loc I))%Qc.
  Proof. intros Ha Hsh Hd Bl Bs HI Rd Rl Rs E0.
    pose proof (zscore_equivariant np_sqrt memo Hm sh a b data data' loc loc' sc sc' axis I Ha Hsh Hd Bl Bs HI Rd Rl Rs) as P.
    pose proof (ztail_fields_rd sh data loc sc axis Hsh Hd Bl Bs I HI) as Q.
    pose proof (tiny_nonneg memo Hm sh data loc axis Hsh Hd Bl I (in_range_length _ _ HI)) as T.
    destruct (ztail memo data loc sc axis) as [[z l] s]. destruct (ztail memo data' loc' sc' axis) as [[z' l'] s'].
    cbv zeta in P. destruct Q as [_ Q]. destruct (Q E0) as [Qs Qz].
    assert (F : Qcleb (rd sc I) (rd (memo (np_mul (scalar float32_tiny) (np_reduce max1 (np_abs (memo (np_sub data loc))) axis true))) I) = true).
    { apply Qcleb_iff. rewrite E0. exact T. }
    rewrite F in P. destruct P as [P1 [_ P3]]. repeat split; try assumption. rewrite (P3 eq_refl), Qz. reflexivity. Qed.
End Fields.

(** * the statements of Props/C15.v, for the materialising [nd_memo] *)
Definition loc_fn (lm : loc_method) : option (vec -> Qc) :=
  match lm with L_median => Some median1 | L_mean => Some mean1 | _ => None end.

Lemma rd_nd_memo X I : rd (nd_memo X) I = rd X I.
Proof. unfold rd. now rewrite nd_memo_shape, nd_memo_get. Qed.

(** an in-range index into an array with a single element is the all-zero index *)
Lemma in_range_size1 s : forall J, in_range s J -> fold_right Z.mul 1 s = 1 -> J = map (fun _ => 0) s.
Proof. induction s as [|d s IH]; intros [|i J] H P; cbn in H; try tauto; try reflexivity.
  destruct H as [Hi HJ]. cbn [fold_right] in P.
  assert (Hs : 0 <= fold_right Z.mul 1 s).
  { clear -HJ. revert J HJ. induction s as [|e s IHs]; intros [|j J] HJ; cbn in HJ; try tauto; cbn; try lia.
    destruct HJ as [Hj HJ]. specialize (IHs J HJ). apply Z.mul_nonneg_nonneg; lia. }
  assert (d = 1 /\ fold_right Z.mul 1 s = 1) as [-> Ps] by (apply Z.eq_mul_1_nonneg; [lia|exact P]).
  cbn [map]. f_equal; [lia|]. now apply IH. Qed.

Section MainFields.
  Variables (np_sqrt : Qc -> Qc) (np_pi : Qc) (np_std1 biweight1 : vec -> Qc) (np_cov01 : vec -> vec -> Qc).
  Notation est := (estimate_scale np_sqrt np_pi np_std1 biweight1 np_cov01 nd_memo).
  Notation zsc := (estimate_zscore np_sqrt np_pi np_std1 biweight1 np_cov01 nd_memo).
  Notation sfn := (scale_fn np_sqrt np_pi biweight1 np_cov01).

  Lemma sfn_not_norm m F : sfn m = Some F -> scale_method_eqb m S_norm = false.
  Proof. destruct m; cbn; intro H; try discriminate; reflexivity. Qed.
  Lemma loc_fn_est lm f A axis : loc_fn lm = Some f ->
    loc_method_eqb lm L_norm = false /\ estimate_loc A lm axis true = Some (np_reduce f A axis true).
  Proof. destruct lm; cbn; intro H; try discriminate; injection H as <-; split; reflexivity. Qed.

  (** the three fields of estimate_zscore(A, lm, m, axis=k0) along the lane through I0: the location returned is the location of the lane,
      the divisor returned is the lane's scale estimate (what estimate_scale returns for the lane as a 1-D array) or 1, and it is 1 with
      Z-scores x - loc when that estimate is zero; both broadcast against the data *)
  Theorem main_zscore_fields_axis sh A m F lm f k0 I0 : sh <> nil -> shape A = sh -> sfn m = Some F -> loc_fn lm = Some f ->
    in_range sh I0 -> - Z.of_nat (length sh) <= k0 < Z.of_nat (length sh) -> let k := axis_of sh k0 in 1 <= nth k sh 0 ->
    exists z l s v, zsc A lm m (Some k0) = Some (z, l, s) /\ est (of_vec (lane A k I0)) m None false = Some (scalar v) /\
      bc sh (shape l) /\ bc sh (shape s) /\ shape z = sh /\
      forall j, 0 <= j < nth k sh 0 -> let I := set_nth k j I0 in
        rd l I = f (lane A k I0) /\ (rd s I = qz 1 \/ rd s I = v) /\ (Q2Qc 0 < rd s I)%Qc /\
        rd z I = ((rd A I - f (lane A k I0)) / rd s I)%Qc /\
        (v = qz 0 -> rd s I = qz 1 /\ rd z I = (rd A I - f (lane A k I0))%Qc).
  Proof. intros Hsh HA HF Hf HI Hk0 k Hn.
    destruct (main_keepdims_axis np_sqrt np_pi np_std1 biweight1 np_cov01 sh A m F Hsh HA HF k0 I0 HI Hk0 Hn) as [B [v [EB [SB [BB [Ev RB]]]]]].
    fold k in SB, Ev, RB.
    destruct (loc_fn_est lm f A (Some k0) Hf) as [Ln El].
    set (loc := np_reduce f A (Some k0) true) in *.
    assert (Bl : bc sh (shape (nd_memo loc))).
    { rewrite nd_memo_shape. assert (0 <= 0 < nth k sh 0) as H0 by lia. now destruct (reduce_kd_lane sh k0 I0 A Hsh HA HI f 0 H0) as [_ [Bq _]]. }
    assert (Bs : bc sh (shape (nd_memo B))) by now rewrite nd_memo_shape.
    pose proof (ztail_fields_bc nd_memo memo_ok_nd_memo sh A (nd_memo loc) (nd_memo B) (Some k0) Hsh HA Bl Bs) as P1.
    assert (EZ : zsc A lm m (Some k0) = Some (ztail nd_memo A (nd_memo loc) (nd_memo B) (Some k0))).
    { rewrite estimate_zscore_unfold, Ln, El, (sfn_not_norm m F HF), EB. reflexivity. }
    destruct (ztail nd_memo A (nd_memo loc) (nd_memo B) (Some k0)) as [[z l] s] eqn:ET.
    destruct P1 as [-> Bs'].
    exists z, (nd_memo loc), s, v. split; [exact EZ|]. split; [exact Ev|]. split; [exact Bl|]. split; [exact Bs'|].
    assert (HI0 : in_range sh (set_nth k 0 I0)) by (apply in_range_set_nth; [exact HI|lia]).
    pose proof (zscore_divisor_positive nd_memo memo_ok_nd_memo sh A (nd_memo loc) (nd_memo B) (Some k0) Hsh HA Bl Bs _ HI0) as P0.
    rewrite ET in P0. split; [now destruct P0 as [_ [_ S]]|].
    intros j Hj I.
    assert (HIj : in_range sh I) by (apply in_range_set_nth; [exact HI|exact Hj]).
    pose proof (zscore_divisor_positive nd_memo memo_ok_nd_memo sh A (nd_memo loc) (nd_memo B) (Some k0) Hsh HA Bl Bs I HIj) as P2.
    pose proof (ztail_fields_rd nd_memo memo_ok_nd_memo sh A (nd_memo loc) (nd_memo B) (Some k0) Hsh HA Bl Bs I HIj) as P3.
    rewrite ET in P2, P3. rewrite !rd_nd_memo in P2, P3.
    assert (Rl : rd loc I = f (lane A k I0)) by (now destruct (reduce_kd_lane sh k0 I0 A Hsh HA HI f j Hj) as [_ [_ Rq]]).
    assert (Rs : rd B I = v) by (now apply RB).
    rewrite Rl, Rs in *. rewrite rd_nd_memo, Rl.
    destruct P2 as [Q1 [Q2 _]]. destruct P3 as [Q3 Q4].
    rewrite rd_nd_memo, Rl in Q4. split; [reflexivity|]. split; [exact Q3|]. split; [exact Q1|]. split; [exact Q2|exact Q4]. Qed.

  (** the same over the whole array (axis=None): the location returned is the location of the flattened data, the divisor returned is
      what estimate_scale returns for the flattened data as a 1-D array, or 1; 1 with Z-scores x - loc when that estimate is zero *)
  Theorem main_zscore_fields_none sh A m F lm f : sh <> nil -> shape A = sh -> sfn m = Some F -> loc_fn lm = Some f ->
    all_idx sh <> nil ->
    exists z l s v, zsc A lm m None = Some (z, l, s) /\ est (of_vec (ravel A)) m None false = Some (scalar v) /\
      bc sh (shape l) /\ bc sh (shape s) /\ shape z = sh /\
      forall I, in_range sh I ->
        rd l I = f (ravel A) /\ (rd s I = qz 1 \/ rd s I = v) /\ (Q2Qc 0 < rd s I)%Qc /\
        rd z I = ((rd A I - f (ravel A)) / rd s I)%Qc /\
        (v = qz 0 -> rd s I = qz 1 /\ rd z I = (rd A I - f (ravel A))%Qc).
  Proof. intros Hsh HA HF Hf Hne.
    destruct (main_keepdims_none np_sqrt np_pi np_std1 biweight1 np_cov01 sh A m F Hsh HA HF Hne) as [B [v [EB [SB [BB [Ev RB]]]]]].
    destruct (loc_fn_est lm f A None Hf) as [Ln El].
    set (loc := np_reduce f A None true) in *.
    assert (Bl : bc sh (shape (nd_memo loc))).
    { rewrite nd_memo_shape. unfold loc. rewrite <- HA. apply bc_reduce. now rewrite HA. }
    assert (Bs : bc sh (shape (nd_memo B))) by now rewrite nd_memo_shape.
    pose proof (ztail_fields_bc nd_memo memo_ok_nd_memo sh A (nd_memo loc) (nd_memo B) None Hsh HA Bl Bs) as P1.
    assert (EZ : zsc A lm m None = Some (ztail nd_memo A (nd_memo loc) (nd_memo B) None)).
    { rewrite estimate_zscore_unfold, Ln, El, (sfn_not_norm m F HF), EB. reflexivity. }
    destruct (ztail nd_memo A (nd_memo loc) (nd_memo B) None) as [[z l] s] eqn:ET.
    destruct P1 as [-> Bs'].
    exists z, (nd_memo loc), s, v. split; [exact EZ|]. split; [exact Ev|]. split; [exact Bl|]. split; [exact Bs'|].
    assert (Hsome : exists I1, in_range sh I1).
    { destruct (all_idx sh) as [|I1 r] eqn:E; [congruence|]. exists I1. apply in_range_all_idx. rewrite E. now left. }
    split.
    - destruct Hsome as [I1 H1].
      pose proof (zscore_divisor_positive nd_memo memo_ok_nd_memo sh A (nd_memo loc) (nd_memo B) None Hsh HA Bl Bs I1 H1) as P0.
      rewrite ET in P0. now destruct P0 as [_ [_ S]].
    - intros I HIj.
      pose proof (zscore_divisor_positive nd_memo memo_ok_nd_memo sh A (nd_memo loc) (nd_memo B) None Hsh HA Bl Bs I HIj) as P2.
      pose proof (ztail_fields_rd nd_memo memo_ok_nd_memo sh A (nd_memo loc) (nd_memo B) None Hsh HA Bl Bs I HIj) as P3.
      rewrite ET in P2, P3. rewrite !rd_nd_memo in P2, P3.
      assert (Rl : rd loc I = f (ravel A)) by reflexivity.
      assert (Rs : rd B I = v) by (apply RB; now apply in_range_length).
      rewrite Rl, Rs in *. rewrite rd_nd_memo, Rl.
      destruct P2 as [Q1 [Q2 _]]. destruct P3 as [Q3 Q4]. rewrite rd_nd_memo, Rl in Q4.
      split; [reflexivity|]. split; [exact Q3|]. split; [exact Q1|]. split; [exact Q2|exact Q4]. Qed.

  (** scale method 'norm' on 1-D data (TimeSeries.normalise, every lane): the divisor is 1 and the Z-scores are x - loc; location
      method 'norm': the location returned reads 0.  PARTIAL: 1-D data only -- np.ones(1) / np.zeros(1) against data of rank >= 2 is
      outside [bc] (same rank or scalar), although [bidx] evaluates it and the correspondence run covers it. *)
  Theorem main_zscore_norm_1d_partial n A lm axis loc I : shape A = (n :: nil) ->
    (if loc_method_eqb lm L_norm then Some (const1 (qz 0)) else estimate_loc A lm axis true) = Some loc ->
    bc (n :: nil) (shape loc) -> in_range (n :: nil) I ->
    exists z s, zsc A lm S_norm axis = Some (z, nd_memo loc, s) /\ rd s I = qz 1 /\ rd z I = (rd A I - rd loc I)%Qc /\ shape z = (n :: nil) /\ (lm = L_norm -> rd (nd_memo loc) I = qz 0).
  Proof. intros HA El Bl HI.
    assert (Hsh : (n :: nil) <> nil) by discriminate.
    assert (Bs : bc (n :: nil) (shape (const1 (qz 1)))) by (right; constructor; [now left|constructor]).
    destruct (main_zscore_finite np_sqrt np_pi np_std1 biweight1 np_cov01 (n :: nil) A lm S_norm axis loc (const1 (qz 1)) I Hsh HA El eq_refl Bl Bs HI)
      as [z [s [EZ [Pp [Pz Ps]]]]].
    exists z, s. split; [exact EZ|].
    assert (Bl' : bc (n :: nil) (shape (nd_memo loc))) by now rewrite nd_memo_shape.
    assert (Bs' : bc (n :: nil) (shape (nd_memo (const1 (qz 1))))) by now rewrite nd_memo_shape.
    pose proof (ztail_fields_rd nd_memo memo_ok_nd_memo (n :: nil) A (nd_memo loc) (nd_memo (const1 (qz 1))) axis Hsh HA Bl' Bs' I HI) as P3.
    rewrite estimate_zscore_unfold, El in EZ. cbn [scale_method_eqb] in EZ.
    assert (ET : ztail nd_memo A (nd_memo loc) (nd_memo (const1 (qz 1))) axis = (z, nd_memo loc, s)) by congruence. rewrite ET in P3.
    destruct P3 as [P3 _]. rewrite rd_nd_memo in P3.
    assert (E1 : rd s I = qz 1) by (destruct P3 as [P3|P3]; [exact P3|rewrite P3; reflexivity]).
    split; [exact E1|]. split; [|split; [exact Ps|]].
    - rewrite Pz, E1. unfold Qcdiv. assert (E2 : (/ qz 1 = Q2Qc 1)%Qc) by reflexivity. rewrite E2. ring.
    - intros ->. cbn in El. injection El as <-. rewrite rd_nd_memo. reflexivity. Qed.

  (** keepdims=False along an axis: the array of the per-lane estimates, of the input's shape without the reduced axis; a single
      lane comes back as a scalar holding that lane's estimate *)
  Theorem main_nokd_axis sh A m F k0 I0 : sh <> nil -> shape A = sh -> sfn m = Some F -> in_range sh I0 ->
    let k := axis_of sh k0 in 1 <= nth k sh 0 ->
    exists B, est A m (Some k0) false = Some B /\
      (size (F A (Some k0)) = 1 -> shape B = nil /\ get B nil = get (F (of_vec (lane A k I0)) None) nil) /\
      (size (F A (Some k0)) <> 1 -> shape B = remove_nth k sh /\
         get B (remove_nth k I0) = get (F (of_vec (lane A k I0)) None) nil).
  Proof. intros Hsh HA HF HI k Hn.
    destruct (main_lane np_sqrt np_pi biweight1 np_cov01 sh A Hsh HA k0 I0 HI Hn m F HF) as [S G]. fold k in S, G.
    rewrite (est_epilogue np_sqrt np_pi np_std1 biweight1 np_cov01 A m F (Some k0) false HF), (epilogue_nokd nd_memo memo_ok_nd_memo).
    eexists. split; [reflexivity|]. split; intro Hs.
    - assert (Hz : remove_nth k I0 = map (fun _ => 0) (remove_nth k sh)).
      { apply in_range_size1; [now apply in_range_remove_nth|]. unfold size in Hs. now rewrite S in Hs. }
      apply Z.eqb_eq in Hs. rewrite Hs. split; [reflexivity|]. cbn [get scalar]. unfold item.
      rewrite nd_memo_shape, nd_memo_get, S, <- Hz. exact G.
    - apply Z.eqb_neq in Hs. rewrite Hs. rewrite nd_memo_shape, nd_memo_get. split; [exact S|exact G]. Qed.
End MainFields.
