(** C14: NumPy's iterative symmetric padding (Model/C14_nppad.v) equals the closed-form index map [sym] / [pad_sym] of
    Model/C14_filters.v for EVERY pad length -- also pads many times longer than the data, where NumPy reflects an
    already reflected array several times (windows wider than the series). *)
From Coq Require Import ZArith List Bool Lia ZifyBool.
Require Import SPP.Base.Rt SPP.Gen.C14_stats SPP.Model.C14_filters SPP.Model.C14_nppad SPP.Proofs.C14_running.
Import ListNotations.
Open Scope Z_scope.

Lemma sym_period_mul n k j : 1 <= n -> sym n (k + j * (2 * n)) = sym n k.
Proof. intro H. unfold sym. cbv zeta. rewrite Z.mod_add by lia. reflexivity. Qed.

(** every multiple of n is a mirror point of the symmetric extension (edge sample repeated) *)
Lemma sym_mirror_at n m u : 1 <= n -> sym n (n * m - 1 - u) = sym n (n * m + u).
Proof. intro H. destruct (Z.even m) eqn:E.
  - apply Z.even_spec in E. destruct E as [j ->].
    replace (n * (2 * j) - 1 - u) with ((- 1 - u) + j * (2 * n)) by ring.
    replace (n * (2 * j) + u) with (u + j * (2 * n)) by ring.
    rewrite !sym_period_mul by lia. apply sym_mirror_left. lia.
  - assert (O : Z.odd m = true) by (rewrite <- Z.negb_even, E; reflexivity).
    apply Z.odd_spec in O. destruct O as [j ->].
    replace (n * (2 * j + 1) - 1 - u) with ((2 * n - 1 - (n + u)) + j * (2 * n)) by ring.
    replace (n * (2 * j + 1) + u) with ((n + u) + j * (2 * n)) by ring.
    rewrite !sym_period_mul by lia. apply sym_mirror_right. lia. Qed.

(** invariant of NumPy's loop: the filled part [lp, T - rp) already equals the closed form, and an edge that will be
    reflected about again sits on a multiple of n (that is what `old_length // n * n` is for) *)
Definition np_inv (x : arr) (n T pl0 : Z) (st : arr * Z * Z) : Prop :=
  let '(P, lp, rp) := st in
  0 <= lp <= pl0 /\ 0 <= rp /\ pl0 + n <= T - rp /\
  (lp = 0 \/ exists m, lp - pl0 = n * m) /\ (rp = 0 \/ exists m, T - rp - pl0 = n * m) /\
  forall q, lp <= q < T - rp -> P q = x (sym n (q - pl0)).

Lemma np_step_inv x n T pl0 P lp rp : 1 <= n -> np_inv x n T pl0 (P, lp, rp) ->
  let '(P', lp', rp') := np_reflect_step n T (P, lp, rp) in
  np_inv x n T pl0 (P', lp', rp') /\ (lp' + rp' = 0 \/ lp' + rp' < lp + rp).
Proof. intros Hn (Hlp & Hrp & Hfill & Hal & Har & HP). unfold np_reflect_step. cbv zeta.
  set (F := T - rp - lp). set (d := F / n). set (old := d * n).
  assert (HF : n <= F) by (unfold F; lia).
  assert (Hd : 1 <= d) by (unfold d; apply Z.div_le_lower_bound; lia).
  assert (Hold : n <= old <= F).
  { unfold old, d. split; [nia|]. rewrite Z.mul_comm. apply Z.mul_div_le. lia. }
  set (cl := if 0 <? lp then Z.min old lp else 0). set (cr := if 0 <? rp then Z.min old rp else 0).
  assert (Hcl : 0 <= cl <= lp /\ cl <= old /\ (0 < lp -> 1 <= cl) /\ (cl = lp \/ (0 < lp /\ cl = old))).
  { unfold cl. destruct (0 <? lp) eqn:E; lia. }
  assert (Hcr : 0 <= cr <= rp /\ cr <= old /\ (0 < rp -> 1 <= cr) /\ (cr = rp \/ (0 < rp /\ cr = old))).
  { unfold cr. destruct (0 <? rp) eqn:E; lia. }
  split; [|lia]. unfold np_inv. repeat split; try lia.
  - (* left edge stays aligned *)
    destruct Hcl as (_ & _ & _ & [Hc | [Hpos Hc]]); [left; lia|]. right.
    destruct Hal as [Hz | [m Hm]]; [lia|]. exists (m - d). unfold old in Hc. rewrite Hc. lia.
  - destruct Hcr as (_ & _ & _ & [Hc | [Hpos Hc]]); [left; lia|]. right.
    destruct Har as [Hz | [m Hm]]; [lia|]. exists (m + d). unfold old in Hc. rewrite Hc. lia.
  - intros q Hq.
    assert (L : forall s, lp - cl <= s < T - rp ->
              (if (lp - cl <=? s) && (s <? lp) then P (2 * lp - 1 - s) else P s) = x (sym n (s - pl0))).
    { intros s Hs. destruct ((lp - cl <=? s) && (s <? lp)) eqn:E.
      - assert (0 < lp) by lia. destruct Hal as [Hz | [m Hm]]; [lia|].
        rewrite HP by (unfold F in *; lia).
        replace (2 * lp - 1 - s - pl0) with (n * m + (lp - 1 - s)) by lia.
        replace (s - pl0) with (n * m - 1 - (lp - 1 - s)) by lia.
        now rewrite sym_mirror_at by lia.
      - apply HP. lia. }
    destruct ((T - rp <=? q) && (q <? T - rp + cr)) eqn:E.
    + assert (0 < rp) by lia. destruct Har as [Hz | [m Hm]]; [lia|].
      rewrite L by (unfold F in *; lia).
      replace (2 * (T - rp) - 1 - q - pl0) with (n * m - 1 - (q - (T - rp))) by lia.
      replace (q - pl0) with (n * m + (q - (T - rp))) by lia.
      apply f_equal. apply sym_mirror_at. lia.
    + apply L. lia.
Qed.

Lemma np_run_inv x n T pl0 fuel : 1 <= n -> forall st, np_inv x n T pl0 st ->
  (let '(_, lp, rp) := st in lp + rp <= Z.of_nat fuel) ->
  let '(P', lp', rp') := np_reflect_run fuel n T st in
  np_inv x n T pl0 (P', lp', rp') /\ lp' = 0 /\ rp' = 0.
Proof. intro Hn. induction fuel as [|k IH]; intros [[P lp] rp] Hi Hm.
  - cbn [np_reflect_run]. split; [assumption|]. destruct Hi as (? & ? & _). lia.
  - cbn [np_reflect_run]. pose proof (np_step_inv x n T pl0 P lp rp Hn Hi) as S.
    destruct (np_reflect_step n T (P, lp, rp)) as [[P1 lp1] rp1]. destruct S as [Hi1 Hd].
    apply IH; [assumption|]. destruct Hi1 as (? & ? & _). lia. Qed.

(** NumPy's result equals the closed form on the whole buffer, for EVERY pl, pr >= 0 and every previous content of the buffer *)
Lemma np_pad_symmetric_is_sym junk x n pl pr : 1 <= n -> 0 <= pl -> 0 <= pr ->
  snd (fst (np_pad_symmetric junk x n pl pr)) = 0 /\ snd (np_pad_symmetric junk x n pl pr) = 0 /\
  forall q, 0 <= q < pad_len n pl pr -> np_pad_symmetric_array junk x n pl pr q = pad_sym x n pl q.
Proof. intros Hn Hl Hr. unfold np_pad_symmetric_array, np_pad_symmetric, pad_len.
  pose proof (np_run_inv x n (pl + n + pr) pl (Z.to_nat (pl + pr)) Hn (np_pad_init junk x n pl, pl, pr)) as R.
  destruct (np_reflect_run (Z.to_nat (pl + pr)) n (pl + n + pr) (np_pad_init junk x n pl, pl, pr)) as [[P' lp'] rp'].
  destruct R as [Hi [-> ->]].
  - unfold np_inv. repeat split; try lia.
    + right. exists 0. lia.
    + right. exists 1. lia.
    + intros q Hq. unfold np_pad_init. replace ((pl <=? q) && (q <? pl + n)) with true by lia.
      now rewrite sym_inside by lia.
  - lia.
  - cbn [fst snd]. split; [reflexivity|]. split; [reflexivity|]. intros q Hq.
    destruct Hi as (_ & _ & _ & _ & _ & HP). unfold pad_sym. apply HP. lia. Qed.

(** a window wider than the data: the pads of stats.running_filter exceed the length, NumPy needs more than one step, and the
    result is still the closed form the running-filter theorems are stated over *)
Lemma running_filter_pad_any_width junk x n w : 1 <= n -> 1 <= w ->
  forall q, 0 <= q < pad_len n (rf_pad_left w) (rf_pad_right w) ->
    np_pad_symmetric_array junk x n (rf_pad_left w) (rf_pad_right w) q = pad_sym x n (rf_pad_left w) q.
Proof. intros Hn Hw. destruct (rf_pads w Hw) as (_ & Hl & Hr & _).
  apply (np_pad_symmetric_is_sym junk x n (rf_pad_left w) (rf_pad_right w) Hn Hl Hr). Qed.

(** a one-sample series: NumPy fills the pads with that sample (its legacy branch for a singleton axis); so does the closed form *)
Lemma pad_sym_singleton x pl q : pad_sym x 1 pl q = x 0.
Proof. unfold pad_sym. f_equal. pose proof (sym_range 1 (q - pl)). lia. Qed.
