(** C11, whole-call level: a strictly periodic pulse train (period exactly L samples, no acceleration, period/tsamp exact)
    through Filterbank.fold as a whole -- regenerated delay shift (delays of either sign), max_delay, gulp adjustment,
    skip-back, read plan over any file list, kernel per block -- for every gulp. *)
From Coq Require Import ZArith QArith List Bool Lia ZifyBool.
Require Import SPP.Base.Rt SPP.Base.Iter SPP.Gen.Plan SPP.Gen.C11Fold SPP.Model.C11_rt SPP.Model.Stream SPP.Model.Plan
               SPP.Model.C11_fold SPP.Proofs.C11_kernel SPP.Proofs.C11_pipe SPP.Proofs.C11_verdict SPP.Proofs.C11_call.
Import ListNotations.
Open Scope Z_scope.
Ltac Zify.zify_post_hook ::= Z.to_euclidean_division_equations.

(** with as many bins as the period has samples, the phase bin of sample a is a mod L: one sample of misplacement = one bin *)
Lemma phasebin_fine tsamp L total a period accel : (0 < tsamp)%Q -> 0 < L -> (accel == 0)%Q -> (period == inject_Z L * tsamp)%Q -> 0 <= a ->
  fold_phasebin tsamp period accel total L 0 a = a mod L.
Proof. intros Hts HL Ha Hp H0. rewrite (phasebin_periodic tsamp L total L Hts HL HL a period accel Ha Hp H0).
  f_equal. symmetry. apply Z.div_unique with (r := L); nia. Qed.

(** two selections of the channels that differ only where the value is 0 have the same sum *)
Lemma sumif_zero_diff n p q v : (forall c, 0 <= c < Z.of_nat n -> p c = q c \/ v c = 0) -> sumif n p v = sumif n q v.
Proof. intro H. rewrite !sumif_as_sum. apply sum_n_ext. intros c Hc. destruct (H c Hc) as [Hpq | Hv0]; [rewrite Hpq; reflexivity | rewrite Hv0].
  destruct (p c), (q c); reflexivity. Qed.

Section Train.
  Variables (fs : list file) (nch N gulp start nsamps nn : Z) (raw : arr) (tsamp period accel : Q) (nints nbands : Z) (L a0 : Z).
  Hypotheses (Hlaw : delays_law) (Hmin0 : vmin (Z.to_nat nch) raw <= 0)
             (Hf : 1 <= nfiles fs) (Hc : 1 <= nch) (Ht : total fs = N * nch)
             (Hs0 : 0 <= start) (Hn : 1 <= nsamps) (Hr : start + nsamps <= N) (Hg : 1 <= gulp) (Hnn : nn = 1 -> nsamps = N - start)
             (Hnints : 1 <= nints) (Hnbands : 1 <= nbands) (Hspan : call_span nch raw < nsamps)
             (Hts : (0 < tsamp)%Q) (HL : 0 < L) (Hac : (accel == 0)%Q) (Hper : (period == inject_Z L * tsamp)%Q) (Ha0 : 0 <= a0 < L).

  Let nb := fold_nbands nbands nch.
  Let n := nsamps - call_span nch raw.
  Let v := cval fs nch start raw.
  (** the dedispersed selection holds a strictly periodic train: nothing outside the samples a = a0 (mod L) *)
  Hypothesis (Htrain : forall a c, 0 <= a < n -> 0 <= c < nch -> a mod L <> a0 -> v a c = 0).

  (** any number of bins: every cell outside one phase bin stays empty of signal (the kernel-level theorem, for the whole call) *)
  Theorem fold_call_periodic nbins : 1 <= nbins ->
    exists f cn, fold_call fs nch gulp start nsamps nn raw tsamp period accel nbins nints nbands = Some (f, cn) /\
      forall k, k mod nbins <> fold_phasebin tsamp period accel (fold_total N start nsamps nn) nbins 0 a0 -> f k = 0.
  Proof. intro Hnbins.
    destruct (fold_call_spec fs nch N gulp start nsamps nn raw tsamp period accel nbins nints nbands) as [f [cn [E [S _]]]]; try assumption.
    exists f, cn. split; [exact E|]. intros k Hk. rewrite (proj1 (S k)). apply cellsum_zero. intros a c Ha Hcx Hcell.
    apply Htrain; try assumption. intro Hmod. apply Hk. rewrite <- Hcell. unfold ccell, pcell. rewrite cell_of_phasebin by lia.
    replace a with (a0 + (a / L) * L) by (rewrite <- Hmod; pose proof (Z.div_mod a L ltac:(lia)); lia).
    apply phasebin_shift; try assumption; try lia. apply Z.div_pos; lia. Qed.

  (** nbins = L: in EVERY (sub-integration i, sub-band b) of the cube, every phase bin other than a0 is empty and bin a0 holds the
      sum of all samples of the selection that fall in (i, b) -- i.e. of all pulses there: exactly one bin is lit *)
  Theorem fold_call_train :
    exists f cn, fold_call fs nch gulp start nsamps nn raw tsamp period accel L nints nbands = Some (f, cn) /\
      forall i b, 0 <= b < nb ->
        (forall p, 0 <= p < L -> p <> a0 -> f (cube_index (fold_cube_dims nints nb L) i b p) = 0) /\
        f (cube_index (fold_cube_dims nints nb L) i b a0) =
          cubesum nch (c_si N start nsamps nn nints) (c_sb nch nbands) (fun _ => a0) v n i b a0 /\
        (forall p, 0 <= p < L ->
           cn (cube_index (fold_cube_dims nints nb L) i b p) =
             cubesum nch (c_si N start nsamps nn nints) (c_sb nch nbands) (fun a => a mod L) (fun _ _ => 1) n i b p).
  Proof. assert (HnL : 1 <= L) by lia.
    destruct (fold_call_cube fs nch N gulp start nsamps nn raw tsamp period accel L nints nbands) as [f [cn [E S]]]; try assumption.
    exists f, cn. split; [exact E|]. intros i b Hb. fold nb in S.
    assert (Hpb : forall a, 0 <= a -> c_pb N start nsamps nn tsamp period accel L a = a mod L).
    { intros a Ha. unfold c_pb. apply phasebin_fine; assumption. }
    split; [|split].
    - intros p Hp Hne. destruct (S i b p Hb Hp) as [Sf _]. rewrite Sf. fold n. fold v. unfold cubesum.
      apply sum_n_0. intros a Ha. rewrite sumif_as_sum. apply sum_n_0. intros c Hcx.
      destruct ((c_si N start nsamps nn nints a =? i) && (c_sb nch nbands c =? b) && (c_pb N start nsamps nn tsamp period accel L a =? p)) eqn:Eb; [|reflexivity].
      rewrite !andb_true_iff, !Z.eqb_eq in Eb. destruct Eb as [_ Ep]. rewrite Hpb in Ep by lia.
      apply Htrain; try lia.
    - destruct (S i b a0 Hb Ha0) as [Sf _]. rewrite Sf. fold n. fold v. unfold cubesum. apply sum_n_ext. intros a Ha.
      apply sumif_zero_diff. intros c Hcx. rewrite Hpb by lia.
      destruct (Z.eq_dec (a mod L) a0) as [Em|Nm].
      + left. rewrite Em. reflexivity.
      + right. apply Htrain; try lia.
    - intros p Hp. destruct (S i b p Hb Hp) as [_ Sc]. rewrite Sc. fold n. unfold cubesum. apply sum_n_ext. intros a Ha.
      apply sumif_ext. intros c Hcx. rewrite Hpb by lia. split; reflexivity. Qed.
End Train.
