(** C08: per-API header lemmas over the definitions REGENERATED from the current source (Gen/C08.v).
    Every lemma is for all headers (any fch1, foff of either sign -- rationals, so -1/10 and -1/3 are ordinary values),
    all (start, nsamps), channel selections, factors, sub-band counts and DMs. *)
From Coq Require Import ZArith QArith Qround Qabs Qminmax Qfield Lqa String List Bool Lia ZifyBool.
Require Import SPP.Model.C08_rt SPP.Model.C08_spec SPP.Gen.C08 SPP.Proofs.C08_lib.
Import ListNotations.
Open Scope Z_scope.

Ltac hdr_eval :=
  cbv [new_header prep_outfile fold_left known existsb header_fields String.eqb Ascii.eqb Bool.eqb andb orb fst snd app
       set_field val_Q val_Z dtype_code h_nchans h_nbits h_nsamples h_fch1 h_foff h_tsamp h_tstart h_dm h_dtype label
       advanced decimated copies_channels reverses_channels mjd_after_nsamps dedispersed_header_upd].

(** prep_outfile on a symbolic depth: split on whether it differs from the input's *)
Ltac split_depth e := destruct (Z.eqb e _) eqn:?; try match goal with H : (_ =? _) = _ |- _ => cbv [C08_rt.h_nbits] in H end.

(** the DM key of SIGPROC files is not a field of Header: a header update under "refdm" is silently dropped *)
Lemma refdm_is_dropped : forall h v, new_header header_fields h [("refdm"%string, v)] = h.
Proof. intros. apply new_header_drops_unknown. reflexivity. Qed.

Lemma modelled_keys_are_fields :
  forallb (known header_fields) ["nchans"; "nbits"; "nsamples"; "fch1"; "foff"; "tsamp"; "tstart"; "dm"; "data_type"]%string = true.
Proof. reflexivity. Qed.

(** ---- requesting a block by frequency ------------------------------------------------------------------ *)

(** the index conversion tolerates ANY error below half a channel in the quotient (so the float error of
    (f - fch1)/foff, a few ulp, cannot move it) *)
Lemma freq_to_index_robust : forall (k : Z) (x : Q), (Qabs (x - inject_Z k) < 1 # 2)%Q -> read_block_to_index x = k.
Proof. intros. unfold read_block_to_index. apply Qround_he_robust. assumption. Qed.

Lemma ratio_on_grid : forall h k, ~ (h_foff h == 0)%Q -> ((label h k - h_fch1 h) / h_foff h == inject_Z k)%Q.
Proof. intros h k Hf. unfold label. field. exact Hf. Qed.

(** whatever frequency is requested and whatever value x the quotient evaluates to (exactly, or in binary64):
    if read_block returns at all, the container is consistent with the rows it holds *)
Lemma read_block_consistent_x : forall h start nsamps f n nsr x cs rows h',
  0 <= n -> read_block_model_x h start nsamps f n nsr x = Some (cs, rows, h') ->
  cs = read_block_to_index x /\ 0 <= cs /\ cs + n <= h_nchans h /\ rows = n /\ h_nchans h' = n /\ h_nsamples h' = nsr /\
  advanced h h' start /\ copies_channels h h' cs /\ (h_foff h' == h_foff h)%Q /\ (h_tsamp h' == h_tsamp h)%Q /\ (h_dm h' == h_dm h)%Q /\ h_nbits h' = h_nbits h.
Proof.
  intros h start nsamps f n nsr x cs rows h' Hn. unfold read_block_model_x.
  set (c := read_block_to_index x).
  destruct ((c <? 0) || (c + n >? h_nchans h)) eqn:G1; [discriminate |].
  destruct ((start <? 0) || (start + nsamps >? h_nsamples h)) eqn:G2; [discriminate |].
  intro E. injection E as E1 E2 E3. subst cs rows h'.
  assert (0 <= c /\ c + n <= h_nchans h) by lia.
  split; [reflexivity |]. split; [lia |]. split; [lia |]. split; [apply py_slice_len_inrange; lia |].
  hdr_eval. repeat split; try reflexivity. intro j. rewrite inject_Z_plus. ring.
Qed.

Lemma read_block_consistent : forall h start nsamps f n nsr cs rows h',
  0 <= n -> read_block_model h start nsamps f n nsr = Some (cs, rows, h') ->
  0 <= cs /\ cs + n <= h_nchans h /\ rows = n /\ h_nchans h' = n /\ h_nsamples h' = nsr /\
  advanced h h' start /\ copies_channels h h' cs /\ (h_foff h' == h_foff h)%Q /\ (h_tsamp h' == h_tsamp h)%Q /\ (h_dm h' == h_dm h)%Q /\ h_nbits h' = h_nbits h.
Proof.
  intros h start nsamps f n nsr cs rows h' Hn E. unfold read_block_model in E.
  apply (read_block_consistent_x _ _ _ _ _ _ _ _ _ _ Hn) in E. tauto.
Qed.

(** a request for channel k whose quotient evaluates to anything within half a channel of k is accepted whenever channels
    k .. k+n-1 exist (foff of either sign), and returns exactly those channels *)
Lemma read_block_by_frequency_x : forall h start nsamps f k n nsr x,
  (Qabs (x - inject_Z k) < 1 # 2)%Q -> 0 <= k -> 0 <= n -> k + n <= h_nchans h -> 0 <= start -> start + nsamps <= h_nsamples h ->
  exists h', read_block_model_x h start nsamps f n nsr x = Some (k, n, h') /\ copies_channels h h' k.
Proof.
  intros h start nsamps f k n nsr x Hx Hk Hn Hkn Hs Hsn.
  pose proof (freq_to_index_robust k x Hx) as C.
  destruct (read_block_model_x h start nsamps f n nsr x) as [[[cs rows] h'] |] eqn:E.
  - pose proof (read_block_consistent_x _ _ _ _ _ _ _ _ _ _ Hn E) as P.
    destruct P as (P0 & _ & _ & P3 & _ & _ & _ & P7 & _). rewrite C in P0. subst cs rows. exists h'. split; [reflexivity | exact P7].
  - exfalso. unfold read_block_model_x in E. rewrite C in E.
    assert (G1 : (k <? 0) || (k + n >? h_nchans h) = false) by lia.
    assert (G2 : (start <? 0) || (start + nsamps >? h_nsamples h) = false) by lia.
    rewrite G1, G2 in E. discriminate.
Qed.

(** in exact arithmetic the quotient of fch1 + k*foff IS k *)
Lemma read_block_by_frequency : forall h start nsamps k n nsr,
  ~ (h_foff h == 0)%Q -> 0 <= k -> 0 <= n -> k + n <= h_nchans h -> 0 <= start -> start + nsamps <= h_nsamples h ->
  exists h', read_block_model h start nsamps (label h k) n nsr = Some (k, n, h') /\ copies_channels h h' k.
Proof.
  intros h start nsamps k n nsr Hf Hk Hn Hkn Hs Hsn. unfold read_block_model.
  apply read_block_by_frequency_x; try assumption.
  unfold read_block_ratio. rewrite (ratio_on_grid h k Hf).
  assert (Z0 : (inject_Z k - inject_Z k == 0)%Q) by ring. rewrite Z0. reflexivity.
Qed.

(** ---- FilReader.read_dedisp_block ----------------------------------------------------------------------- *)
Lemma read_dedisp_block_hdr : forall h start nsamps dm, let h' := hdr_read_dedisp_block h start nsamps dm in
  h_nsamples h' = datalen_read_dedisp_block h start nsamps dm /\ datalen_read_dedisp_block h start nsamps dm = nsamps /\
  h_nchans h' = datarows_read_dedisp_block h start nsamps dm /\ advanced h h' start /\ copies_channels h h' 0 /\
  (h_tsamp h' == h_tsamp h)%Q /\ (cdm_read_dedisp_block h start nsamps dm == dm)%Q.
Proof.
  intros. subst h'. unfold hdr_read_dedisp_block, upd_read_dedisp_block, datalen_read_dedisp_block, datarows_read_dedisp_block, cdm_read_dedisp_block.
  hdr_eval. repeat split; try reflexivity.
Qed.

(** ---- streaming reductions to a TimeSeries -------------------------------------------------------------- *)
Lemma band_ends_within : forall h h', (h_fch1 h' == h_fch1 h)%Q -> within_band h h'.
Proof. intros h h' E. unfold within_band. apply Qbetween_left. unfold label. rewrite E. change (inject_Z 0) with 0%Q. ring. Qed.

Lemma collapse_hdr : forall h start nsamps b, let h' := hdr_collapse h start nsamps b in
  h_nsamples h' = datalen_collapse h start nsamps b /\ datalen_collapse h start nsamps false = nsamps /\
  datalen_collapse h start nsamps true = h_nsamples h - start /\
  h_nchans h' = 1 /\ advanced h h' start /\ (h_tsamp h' == h_tsamp h)%Q /\ (h_dm h' == 0)%Q /\ within_band h h'.
Proof.
  intros. subst h'. split; [| split; [| split; [| split; [| split; [| split; [| split]]]]]]; try apply band_ends_within;
  unfold hdr_collapse, upd_collapse, datalen_collapse; hdr_eval; reflexivity.
Qed.

Lemma dedisperse_hdr : forall h dm start nsamps b md, let h' := hdr_dedisperse h dm start nsamps b md in
  h_nsamples h' = datalen_dedisperse h dm start nsamps b md /\ datalen_dedisperse h dm start nsamps false md = nsamps - md /\
  datalen_dedisperse h dm start nsamps true md = h_nsamples h - start - md /\
  h_nchans h' = 1 /\ advanced h h' start /\ (h_tsamp h' == h_tsamp h)%Q /\ (h_dm h' == dm)%Q /\ within_band h h'.
Proof.
  intros. subst h'. split; [| split; [| split; [| split; [| split; [| split; [| split]]]]]]; try apply band_ends_within;
  unfold hdr_dedisperse, upd_dedisperse, datalen_dedisperse; hdr_eval; reflexivity.
Qed.

Lemma read_chan_hdr : forall h ichan start nsamps b, let h' := hdr_read_chan h ichan start nsamps b in
  h_nsamples h' = datalen_read_chan h ichan start nsamps b /\ datalen_read_chan h ichan start nsamps false = nsamps /\
  datalen_read_chan h ichan start nsamps true = h_nsamples h - start /\
  h_nchans h' = 1 /\ advanced h h' start /\ (h_tsamp h' == h_tsamp h)%Q /\ (h_dm h' == 0)%Q /\ (label h' 0 == label h ichan)%Q.
Proof.
  intros. subst h'. unfold hdr_read_chan, upd_read_chan, datalen_read_chan; hdr_eval. repeat split; try reflexivity. ring.
Qed.

Lemma bandpass_hdr : forall h start nsamps b, let h' := hdr_bandpass h start nsamps b in
  h_nsamples h' = datalen_bandpass h start nsamps b /\ datalen_bandpass h start nsamps b = h_nchans h /\ h_nchans h' = 1.
Proof. intros. subst h'. unfold hdr_bandpass, upd_bandpass, datalen_bandpass; hdr_eval. repeat split. Qed.

(** ---- files written by the streaming transforms ---------------------------------------------------------- *)
Lemma invert_freq_hdr : forall h start, let h' := hdr_invert_freq h start in
  reverses_channels h h' /\ (h_foff h' == - h_foff h)%Q /\ h_nchans h' = h_nchans h /\ advanced h h' start /\
  (h_tsamp h' == h_tsamp h)%Q /\ h_nbits h' = h_nbits h /\ depth_invert_freq h start = h_nbits h'.
Proof.
  intros. subst h'. unfold depth_invert_freq, hdr_invert_freq, out_invert_freq, upd_invert_freq.
  cbv [prep_outfile]. rewrite Z.eqb_refl. hdr_eval. repeat split; try reflexivity; try ring.
  intro j. unfold Zminus. rewrite !inject_Z_plus, !inject_Z_opp. ring.
Qed.

Lemma apply_channel_mask_hdr : forall h start, let h' := hdr_apply_channel_mask h start in
  copies_channels h h' 0 /\ h_nchans h' = h_nchans h /\ advanced h h' start /\ (h_tsamp h' == h_tsamp h)%Q /\
  h_nbits h' = h_nbits h /\ depth_apply_channel_mask h start = h_nbits h'.
Proof.
  intros. subst h'. unfold depth_apply_channel_mask, hdr_apply_channel_mask, out_apply_channel_mask, upd_apply_channel_mask.
  cbv [prep_outfile]. rewrite Z.eqb_refl. hdr_eval. repeat split; try reflexivity.
Qed.

Lemma grid_start_within : forall h h' f, (h_fch1 h' == h_fch1 h)%Q -> (h_foff h' == h_foff h * inject_Z f)%Q -> sums_channels h h' f.
Proof.
  intros h h' f E1 E2. split; [exact E2 |]. intro j. apply Qbetween_left. unfold label. rewrite E1, E2, inject_Z_mult. ring.
Qed.

Lemma downsample_hdr : forall h tf ff start, let h' := hdr_downsample h tf ff start in
  decimated h h' tf /\ h_nchans h' = h_nchans h / ff /\ sums_channels h h' ff /\ advanced h h' start /\
  h_nbits h' = h_nbits h /\ depth_downsample h tf ff start = h_nbits h'.
Proof.
  intros. subst h'. split; [| split; [| split; [| split; [| split]]]]; try apply grid_start_within;
  unfold depth_downsample, hdr_downsample, out_downsample, upd_downsample; cbv [prep_outfile]; rewrite Z.eqb_refl; hdr_eval; reflexivity.
Qed.

Lemma extract_samps_hdr : forall h start nsamps, let h' := hdr_extract_samps h start nsamps in
  copies_channels h h' 0 /\ h_nchans h' = h_nchans h /\ advanced h h' start /\ (h_tsamp h' == h_tsamp h)%Q /\
  h_nbits h' = h_nbits h /\ depth_extract_samps h start nsamps = h_nbits h'.
Proof.
  intros. subst h'. unfold depth_extract_samps, hdr_extract_samps, out_extract_samps, upd_extract_samps.
  cbv [prep_outfile]. rewrite Z.eqb_refl. hdr_eval. repeat split; try reflexivity.
Qed.

Lemma extract_chans_hdr : forall h chan start, let h' := hdr_extract_chans h chan start in
  h_nchans h' = 1 /\ (label h' 0 == label h chan)%Q /\ advanced h h' start /\ (h_tsamp h' == h_tsamp h)%Q /\
  h_nbits h' = 32 /\ depth_extract_chans h chan start = 32 /\ h_dtype h' = 2.
Proof.
  intros. subst h'. unfold depth_extract_chans, hdr_extract_chans, out_extract_chans, upd_extract_chans.
  cbv [prep_outfile]. split_depth 32; hdr_eval; repeat split; try reflexivity; ring.
Qed.

Lemma extract_bands_hdr : forall h chanstart cps batch_start i start, let h' := hdr_extract_bands h chanstart cps batch_start i start in
  h_nchans h' = cps /\ copies_channels h h' (chanstart + (batch_start + i) * cps) /\ (h_foff h' == h_foff h)%Q /\ advanced h h' start /\
  (h_tsamp h' == h_tsamp h)%Q /\ h_nbits h' = h_nbits h /\ depth_extract_bands h chanstart cps batch_start i start = h_nbits h'.
Proof.
  intros. subst h'. unfold depth_extract_bands, hdr_extract_bands, out_extract_bands, upd_extract_bands.
  cbv [prep_outfile]. rewrite Z.eqb_refl. hdr_eval. repeat split; try reflexivity.
  intro j. rewrite !inject_Z_plus, !inject_Z_mult, !inject_Z_plus. ring.
Qed.

Lemma requantize_hdr : forall h nbits_out start, let h' := hdr_requantize h nbits_out start in
  h_nbits h' = nbits_out /\ depth_requantize h nbits_out start = nbits_out /\ copies_channels h h' 0 /\ h_nchans h' = h_nchans h /\
  advanced h h' start /\ (h_tsamp h' == h_tsamp h)%Q.
Proof.
  intros. subst h'. unfold depth_requantize, hdr_requantize, out_requantize, upd_requantize.
  destruct h. cbv [prep_outfile]. split_depth nbits_out; hdr_eval; repeat split; try reflexivity; try lia.
Qed.

Lemma remove_zerodm_hdr : forall h start, let h' := hdr_remove_zerodm h start in
  copies_channels h h' 0 /\ h_nchans h' = h_nchans h /\ advanced h h' start /\ (h_tsamp h' == h_tsamp h)%Q /\
  h_nbits h' = h_nbits h /\ depth_remove_zerodm h start = h_nbits h'.
Proof.
  intros. subst h'. unfold depth_remove_zerodm, hdr_remove_zerodm, out_remove_zerodm, upd_remove_zerodm.
  cbv [prep_outfile]. rewrite Z.eqb_refl. hdr_eval. repeat split; try reflexivity.
Qed.

(** sub-bands: nsub bands of sf = nchans/nsub channels each; label of band j is the middle of its inputs' span *)
Lemma subband_hdr : forall h dm nsub sf start, 1 <= nsub -> 1 <= sf -> h_nchans h = nsub * sf ->
  let h' := hdr_subband h dm nsub start in
  h_nchans h' = nsub /\ sums_channels h h' sf /\ (h_dm h' == dm)%Q /\ advanced h h' start /\ (h_tsamp h' == h_tsamp h)%Q /\
  h_nbits h' = 32 /\ depth_subband h dm nsub start = 32.
Proof.
  intros h dm nsub sf start Hn Hs HC h'. subst h'.
  assert (D : h_nchans h / nsub = sf). { rewrite HC. rewrite Z.mul_comm. apply Z.div_mul. lia. }
  unfold depth_subband, hdr_subband, out_subband, upd_subband. rewrite D.
  cbv [prep_outfile]. split_depth 32; hdr_eval; (split; [reflexivity |]); (split; [| repeat split; reflexivity]);
  (split; [hdr_eval; reflexivity |]); intro j; apply Qbetween_mid; unfold label; hdr_eval;
  unfold Zminus; rewrite !inject_Z_plus, !inject_Z_mult, !inject_Z_opp; field.
Qed.

(** ---- blocks and time series ----------------------------------------------------------------------------- *)
Lemma block_pad_samples_hdr : forall h n off, let h' := hdr_block_pad_samples h n off in
  h_nsamples h' = n /\ h_nchans h' = h_nchans h /\ advanced h h' (- off) /\ (h_tsamp h' == h_tsamp h)%Q.
Proof. intros. unfold h', hdr_block_pad_samples, upd_block_pad_samples. hdr_eval. repeat split; try reflexivity. Qed.

Lemma block_new_like_dm : forall d, (cdm_block_new_like d == d)%Q.
Proof. intro d. reflexivity. Qed.

Lemma block_downsample_hdr : forall h ff tf d, let h' := hdr_block_downsample h ff tf d in
  decimated h h' tf /\ h_nsamples h' = h_nsamples h / tf /\ h_nchans h' = h_nchans h / ff /\ sums_channels h h' ff /\
  (h_tstart h' == h_tstart h)%Q /\ (cdm_block_downsample h ff tf d == d)%Q.
Proof.
  intros. subst h'. split; [| split; [| split; [| split; [| split]]]]; try apply grid_start_within;
  unfold hdr_block_downsample, upd_block_downsample, cdm_block_downsample; hdr_eval; reflexivity.
Qed.

Lemma block_get_tim_hdr : forall h blk_dm, let h' := hdr_block_get_tim h blk_dm in
  (h_dm h' == blk_dm)%Q /\ h_nchans h' = 1 /\ h_nbits h' = 32 /\ h_dtype h' = 2 /\ h_nsamples h' = h_nsamples h /\
  (h_tstart h' == h_tstart h)%Q /\ (h_tsamp h' == h_tsamp h)%Q /\ within_band h h'.
Proof.
  intros. subst h'. split; [| split; [| split; [| split; [| split; [| split; [| split]]]]]]; try apply band_ends_within;
  unfold hdr_block_get_tim, upd_block_get_tim; hdr_eval; reflexivity.
Qed.

Lemma block_dedisperse_hdr : forall h dm n, let h' := hdr_block_dedisperse h dm n in
  h_nsamples h' = n /\ h_nchans h' = h_nchans h /\ (cdm_block_dedisperse h dm n == dm)%Q /\ copies_channels h h' 0 /\ (h_tsamp h' == h_tsamp h)%Q.
Proof.
  intros. subst h'. unfold hdr_block_dedisperse, upd_block_dedisperse, cdm_block_dedisperse. hdr_eval.
  repeat split; try reflexivity.
Qed.

Lemma block_to_file_hdr : forall h blk_dm, let h' := hdr_block_to_file h blk_dm in
  h_nbits h' = 32 /\ depth_block_to_file h blk_dm = 32 /\ (h_dm h' == blk_dm)%Q /\ h_nchans h' = h_nchans h /\ copies_channels h h' 0 /\
  (h_tstart h' == h_tstart h)%Q /\ (h_tsamp h' == h_tsamp h)%Q.
Proof.
  intros. subst h'. unfold depth_block_to_file, hdr_block_to_file, out_block_to_file, upd_block_to_file.
  cbv [prep_outfile]. split_depth 32; hdr_eval; repeat split; try reflexivity.
Qed.

Lemma ts_downsample_hdr : forall h factor n, let h' := hdr_ts_downsample h factor n in
  decimated h h' factor /\ h_nsamples h' = n /\ (h_tstart h' == h_tstart h)%Q /\ (h_dm h' == h_dm h)%Q.
Proof. intros. subst h'. unfold hdr_ts_downsample, upd_ts_downsample. hdr_eval. repeat split; reflexivity. Qed.

Lemma ts_lengths_hdr : forall h n, h_nsamples (hdr_ts_pad h n) = n /\ h_nsamples (hdr_ts_resample h n) = n /\ h_nsamples (hdr_ts_correlate h n) = n.
Proof.
  intros. unfold hdr_ts_pad, upd_ts_pad, hdr_ts_resample, upd_ts_resample, hdr_ts_correlate, upd_ts_correlate. hdr_eval. repeat split; reflexivity.
Qed.

Lemma ts_to_tim_hdr : forall h, let h' := hdr_ts_to_tim h in
  h_nbits h' = 32 /\ depth_ts_to_tim h = 32 /\ h_nsamples h' = h_nsamples h /\ (h_tsamp h' == h_tsamp h)%Q /\ (h_tstart h' == h_tstart h)%Q /\ (h_dm h' == h_dm h)%Q.
Proof.
  intros. subst h'. unfold depth_ts_to_tim, hdr_ts_to_tim, out_ts_to_tim, upd_ts_to_tim.
  destruct h. cbv [prep_outfile]. split_depth 32; hdr_eval; repeat split; try reflexivity; try lia.
Qed.
