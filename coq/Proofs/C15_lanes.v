(** C15 -- lane handling.  A computation on an N-d array with `axis=k` (or `axis=None`), read along one lane (or along
    the flattened array), is the same computation on that lane as a 1-D array with `axis=None`. *)
From Coq Require Import ZArith List Bool QArith Qcanon Qcabs Lia.
Require Import SPP.Base.Rt SPP.Base.Iter SPP.Model.C15_np.
Require Import SPP.Proofs.C15_lib SPP.Proofs.C15_order SPP.Proofs.C15_rel SPP.Proofs.C15_view.
Import ListNotations.
Open Scope Z_scope.

(** a view: the full shape, the number of members, the index family, and the `axis` argument whose reductions run
    exactly over the family *)
Record view := mk_view { v_sh : list Z; v_n : Z; v_fam : Z -> list Z; v_axis : option Z }.

Definition famlist (V : view) (X : nd) : vec := map (fun j => get X (v_fam V j)) (zrange (v_n V)).
Definition ofamlist (V : view) (O : ndo) : list (option Qc) :=
  map (fun j => let i := v_fam V j in if qtrue (get (omask O) i) then Some (get (oval O) i) else None) (zrange (v_n V)).

Record view_ok (V : view) : Prop := {
  vo_nonnil : v_sh V <> nil;
  vo_fam : forall j, 0 <= j < v_n V -> in_range (v_sh V) (v_fam V j);
  vo_red : forall f X, shape X = v_sh V ->
     bc (v_sh V) (shape (np_reduce f X (v_axis V) true)) /\
     forall j, 0 <= j < v_n V -> rd (np_reduce f X (v_axis V) true) (v_fam V j) = f (famlist V X);
  vo_ored : forall f O, shape (oval O) = v_sh V ->
     bc (v_sh V) (shape (np_oreduce f O (v_axis V) true)) /\
     forall j, 0 <= j < v_n V -> rd (np_oreduce f O (v_axis V) true) (v_fam V j) = f (ofamlist V O)
}.

(** * instances *)
Lemma set_nth_set_nth k : forall I x y, set_nth k x (set_nth k y I) = set_nth k x I.
Proof. induction k as [|k IH]; intros [|i I] x y; cbn; try reflexivity. now rewrite IH. Qed.
Lemma set_nth_length k : forall I x, length (set_nth k x I) = length I.
Proof. induction k as [|k IH]; intros [|i I] x; cbn; try reflexivity. now rewrite IH. Qed.
Lemma in_range_set_nth sh : forall k I j, in_range sh I -> 0 <= j < nth k sh 0 -> in_range sh (set_nth k j I).
Proof. induction sh as [|d sh IH]; intros k [|i I] j H Hj; cbn in H; try tauto.
  - destruct k; cbn in *; lia.
  - destruct k as [|k]; cbn [set_nth nth in_range] in *; [tauto|]. split; [tauto|]. apply IH; tauto. Qed.
Lemma dimok_set_nth sh : forall k, Forall2 dimok (set_nth k 1 sh) sh.
Proof. induction sh as [|d sh IH]; intro k; [destruct k; constructor|]. destruct k as [|k]; cbn [set_nth].
  - constructor; [now left|apply Forall2_dimok_refl]. - constructor; [now right|apply IH]. Qed.
Lemma clamp_kd sh : forall k I, in_range sh I -> (k < length sh)%nat -> clamp (set_nth k 1 sh) I = set_nth k 0 I.
Proof. induction sh as [|d sh IH]; intros k [|i I] H Hk; cbn in H, Hk; try tauto; try lia.
  destruct k as [|k]; cbn [set_nth clamp].
  - change (1 =? 1) with true. cbn. f_equal. apply clamp_in_range. tauto.
  - rewrite IH by (try tauto; lia). destruct (d =? 1) eqn:E; [|reflexivity]. f_equal. lia. Qed.

(** the lane of an array of shape [sh] along axis [k] through [I0] *)
Definition lane_view (sh : list Z) (k0 : Z) (I0 : list Z) : view :=
  let k := Z.to_nat (k0 mod Z.of_nat (length sh)) in
  mk_view sh (nth k sh 0) (fun j => set_nth k j I0) (Some k0).

Lemma lane_view_ok sh k0 I0 : sh <> nil -> in_range sh I0 -> view_ok (lane_view sh k0 I0).
Proof. intros Hn HI. set (k := Z.to_nat (k0 mod Z.of_nat (length sh))).
  assert (Hk : (k < length sh)%nat).
  { unfold k. assert (0 < Z.of_nat (length sh)) by (destruct sh; [congruence|cbn; lia]).
    pose proof (Z.mod_pos_bound k0 _ H). lia. }
  constructor; cbn [v_sh v_n v_fam v_axis lane_view]; fold k.
  - exact Hn.
  - intros j Hj. now apply in_range_set_nth.
  - intros f X HX. assert (Ek : norm_axis X k0 = k) by (unfold norm_axis, ndim; now rewrite HX).
    unfold np_reduce, reduce_axis. rewrite Ek. cbn [shape]. rewrite HX. split.
    + right. apply dimok_set_nth.
    + intros j Hj. unfold rd. cbn [shape get]. rewrite ?HX.
      rewrite bidx_eqlen by (rewrite !set_nth_length; now apply in_range_length).
      rewrite clamp_kd by (try assumption; now apply in_range_set_nth). rewrite set_nth_set_nth.
      unfold lane, famlist. cbn [v_fam v_n lane_view]. fold k. rewrite HX. f_equal. apply map_ext. intro. now rewrite set_nth_set_nth.
  - intros f O HO. assert (Ek : norm_axis (oval O) k0 = k) by (unfold norm_axis, ndim; now rewrite HO).
    unfold np_oreduce. rewrite Ek, HO. cbn [shape]. split.
    + right. apply dimok_set_nth.
    + intros j Hj. unfold rd. cbn [shape get].
      rewrite bidx_eqlen by (rewrite !set_nth_length; now apply in_range_length).
      rewrite clamp_kd by (try assumption; now apply in_range_set_nth). rewrite set_nth_set_nth.
      unfold olane, ofamlist. cbn [v_fam v_n lane_view]. fold k. rewrite HO. f_equal. apply map_ext. intro. now rewrite set_nth_set_nth. Qed.

(** the whole array in C order *)
Definition flat_view (sh : list Z) : view :=
  mk_view sh (Z.of_nat (length (all_idx sh))) (fun j => nth (Z.to_nat j) (all_idx sh) nil) None.

Lemma in_range_all_idx sh : forall I, In I (all_idx sh) -> in_range sh I.
Proof. induction sh as [|d sh IH]; intros I H; cbn in H.
  - destruct H as [<-|[]]. exact I.
  - apply in_flat_map in H. destruct H as [i [Hi H]]. apply in_map_iff in H. destruct H as [J [<- HJ]].
    apply In_zrange in Hi. cbn. split; [exact Hi|now apply IH]. Qed.
Lemma all_idx_in_range sh : forall I, in_range sh I -> In I (all_idx sh).
Proof. induction sh as [|d sh IH]; intros [|i I] H; cbn in H; try tauto; [now left|].
  cbn. apply in_flat_map. exists i. split; [apply In_zrange; tauto|]. apply in_map. apply IH. tauto. Qed.
Lemma dimok_ones sh : Forall2 dimok (map (fun _ => 1) sh) sh.
Proof. induction sh; constructor; [now left|assumption]. Qed.
Lemma map_nth_zrange {A} (l : list A) (d : A) : map (fun j => nth (Z.to_nat j) l d) (zrange (Z.of_nat (length l))) = l.
Proof. apply (zrange_vlen_map l (fun j => nth (Z.to_nat j) l d)). intros i Hi. rewrite Nat2Z.id. apply nth_indep. exact Hi. Qed.

Lemma flat_view_ok sh : sh <> nil -> view_ok (flat_view sh).
Proof. intro Hn. constructor; cbn [v_sh v_n v_fam v_axis flat_view].
  - exact Hn.
  - intros j Hj. apply in_range_all_idx. apply nth_In. lia.
  - intros f X HX. cbn [np_reduce]. unfold reduce_all. cbn [shape]. rewrite HX. split; [right; apply dimok_ones|].
    intros j Hj. unfold rd. cbn [get]. unfold famlist, ravel. cbn [v_fam v_n flat_view]. rewrite HX. f_equal.
    rewrite <- (map_nth_zrange (all_idx sh) nil) at 1. now rewrite map_map.
  - intros f O HO. unfold np_oreduce. rewrite HO. cbn [shape]. split; [right; apply dimok_ones|].
    intros j Hj. unfold rd. cbn [get]. unfold ofamlist, oravel. cbn [v_fam v_n flat_view]. rewrite HO. f_equal.
    rewrite <- (map_nth_zrange (all_idx sh) nil) at 1. now rewrite map_map. Qed.

(** a 1-D array of [n] elements, reduced with axis=None *)
Definition vec_view (n : Z) : view := mk_view (n :: nil) n (fun j => j :: nil) None.

Lemma vec_view_ok n : 0 <= n -> view_ok (vec_view n).
Proof. intro Hn. constructor; cbn [v_sh v_n v_fam v_axis vec_view].
  - discriminate.
  - intros j Hj. cbn. lia.
  - intros f X HX. cbn [np_reduce]. unfold reduce_all. cbn [shape]. rewrite HX. split; [right; apply (dimok_ones (n :: nil))|].
    intros j Hj. unfold rd. cbn [get]. unfold famlist, ravel. cbn [v_fam v_n vec_view]. rewrite HX, all_idx_1, map_map. reflexivity.
  - intros f O HO. unfold np_oreduce. rewrite HO. cbn [shape]. split; [right; apply (dimok_ones (n :: nil))|].
    intros j Hj. unfold rd. cbn [get]. unfold ofamlist, oravel. cbn [v_fam v_n vec_view]. rewrite HO, all_idx_1, map_map. reflexivity. Qed.

(** * the lane relation between a computation on the big array (view [V]) and on the 1-D array (view [W]) *)
Section LR.
  Variables V W : view.
  Hypothesis HV : view_ok V.
  Hypothesis HW : view_ok W.
  Hypothesis Hn : v_n W = v_n V.
  Variable memo : nd -> nd.
  Hypothesis Hm : memo_ok memo.

  Record LR (X Y : nd) : Prop := {
    lr_bx : bc (v_sh V) (shape X);
    lr_by : bc (v_sh W) (shape Y);
    lr_rd : forall j, 0 <= j < v_n V -> rd X (v_fam V j) = rd Y (v_fam W j) }.
  Definition LRF (X Y : nd) : Prop := LR X Y /\ shape X = v_sh V /\ shape Y = v_sh W.

  Lemma famlen j : 0 <= j < v_n V -> length (v_fam V j) = length (v_sh V) /\ length (v_fam W j) = length (v_sh W).
  Proof. intro Hj. split; apply in_range_length; apply vo_fam; try assumption; lia. Qed.

  Lemma LR_scalar x : LR (scalar x) (scalar x).
  Proof. constructor; [now left|now left|reflexivity]. Qed.
  Lemma LR_memo X Y : LR X Y -> LR (memo X) (memo Y).
  Proof. intros [B1 B2 R]. destruct (Hm X) as [S1 G1], (Hm Y) as [S2 G2]. constructor; [now rewrite S1|now rewrite S2|].
    intros j Hj. unfold rd. rewrite S1, S2, G1, G2. now apply R. Qed.
  Lemma LRF_memo X Y : LRF X Y -> LRF (memo X) (memo Y).
  Proof. intros [H [S1 S2]]. split; [now apply LR_memo|]. now rewrite !(memo_shape memo Hm). Qed.
  Lemma LR_map f X Y : LR X Y -> LR (nd_map f X) (nd_map f Y).
  Proof. intros [B1 B2 R]. constructor; try assumption. intros j Hj. rewrite !rd_map. now rewrite R. Qed.
  Lemma LRF_map f X Y : LRF X Y -> LRF (nd_map f X) (nd_map f Y).
  Proof. intros [H [S1 S2]]. split; [now apply LR_map|split; assumption]. Qed.
  Lemma LR_map2 op X Y X2 Y2 : LR X Y -> LR X2 Y2 -> LR (nd_map2 op X X2) (nd_map2 op Y Y2).
  Proof. intros [B1 B2 R] [B1' B2' R']. constructor; try (apply bc_map2; assumption).
    intros j Hj. destruct (famlen j Hj) as [L1 L2].
    rewrite (rd_map2 (v_sh V)), (rd_map2 (v_sh W)) by assumption. now rewrite R, R'. Qed.
  Lemma LRF_map2_l op X Y X2 Y2 : LRF X Y -> LR X2 Y2 -> LRF (nd_map2 op X X2) (nd_map2 op Y Y2).
  Proof. intros [H [S1 S2]] H2. split; [now apply LR_map2|]. cbn [shape nd_map2]. rewrite S1, S2.
    destruct H2 as [B1 B2 _]. split; apply bshape_full_l; assumption. Qed.
  Lemma LRF_map2_r op X Y X2 Y2 : LR X Y -> LRF X2 Y2 -> LRF (nd_map2 op X X2) (nd_map2 op Y Y2).
  Proof. intros H [H2 [S1 S2]]. split; [now apply LR_map2|]. cbn [shape nd_map2]. rewrite S1, S2.
    destruct H as [B1 B2 _]. split; apply bshape_full_r; assumption. Qed.
  Lemma LR_map3 op X Y X2 Y2 X3 Y3 : LR X Y -> LR X2 Y2 -> LR X3 Y3 -> LR (nd_map3 op X X2 X3) (nd_map3 op Y Y2 Y3).
  Proof. intros [B1 B2 R] [B1' B2' R'] [B1'' B2'' R'']. constructor; try (apply bc_map3; assumption).
    intros j Hj. destruct (famlen j Hj) as [L1 L2].
    rewrite (rd_map3 (v_sh V)), (rd_map3 (v_sh W)) by (try assumption; apply vo_nonnil; assumption). now rewrite R, R', R''. Qed.

  Lemma famlist_LRF X Y : LRF X Y -> famlist V X = famlist W Y.
  Proof. intros [[B1 B2 R] [S1 S2]]. unfold famlist. rewrite Hn. apply map_ext_in. intros j Hj. apply In_zrange in Hj.
    rewrite <- (rd_full (v_sh V)), <- (rd_full (v_sh W)) by (try assumption; apply vo_fam; try assumption; lia). now apply R. Qed.

  Lemma LR_reduce f X Y : LRF X Y -> LR (np_reduce f X (v_axis V) true) (np_reduce f Y (v_axis W) true).
  Proof. intro H. pose proof H as [_ [S1 S2]]. destruct (vo_red V HV f X S1) as [B1 R1], (vo_red W HW f Y S2) as [B2 R2].
    constructor; try assumption. intros j Hj. rewrite R1, R2 by lia. now rewrite (famlist_LRF X Y H). Qed.

  (** masked arrays *)
  Definition OLRF (O P : ndo) : Prop := LRF (omask O) (omask P) /\ LRF (oval O) (oval P).
  Lemma ofamlist_OLRF O P : OLRF O P -> ofamlist V O = ofamlist W P.
  Proof. intros [[[Bm1 Bm2 Rm] [Sm1 Sm2]] [[Bv1 Bv2 Rv] [Sv1 Sv2]]]. unfold ofamlist. rewrite Hn. apply map_ext_in. intros j Hj.
    apply In_zrange in Hj. cbv zeta.
    rewrite <- (rd_full (v_sh V) (omask O)), <- (rd_full (v_sh W) (omask P)), <- (rd_full (v_sh V) (oval O)), <- (rd_full (v_sh W) (oval P))
      by (try assumption; apply vo_fam; try assumption; lia).
    now rewrite Rm, Rv by lia. Qed.
  Lemma LR_oreduce f O P : OLRF O P -> LR (np_oreduce f O (v_axis V) true) (np_oreduce f P (v_axis W) true).
  Proof. intro H. pose proof H as [_ [_ [S1 S2]]]. destruct (vo_ored V HV f O S1) as [B1 R1], (vo_ored W HW f P S2) as [B2 R2].
    constructor; try assumption. intros j Hj. rewrite R1, R2 by lia. now rewrite (ofamlist_OLRF O P H). Qed.
  Lemma OLRF_where_nan C D X Y : LRF C D -> LRF X Y -> OLRF (np_where_nan C X) (np_where_nan D Y).
  Proof. intros HC HX. split; cbn [omask oval np_where_nan]; apply LRF_map2_l; try assumption; apply HX || apply HC. Qed.
End LR.

Ltac lr := first
  [ assumption | reflexivity | apply LR_scalar
  | apply LR_memo; lr | apply LRF_memo; lr | apply LR_reduce; lr | apply LR_oreduce; lr
  | apply LR_map; lr | apply LRF_map; lr | apply LR_map2; lr | apply LRF_map2_l; lr | apply LRF_map2_r; lr
  | apply LR_map3; lr | apply OLRF_where_nan; lr ].

(** * np.any: an element read through broadcasting is one of the elements *)
Lemma in_range_clamp s : forall u I, Forall2 dimok s u -> in_range u I -> in_range s (clamp s I).
Proof. induction s as [|ds s IH]; intros u I H HI; inversion H as [|? du ? u' Hd Hs]; subst; destruct I as [|i I]; cbn in HI; try tauto.
  all: try exact Logic.I.
  cbn. destruct HI as [Hi HI]. split; [|now apply (IH u')]. destruct (ds =? 1) eqn:E; [lia|]. destruct Hd; lia. Qed.

Lemma np_any_rd sh Z I : bc sh (shape Z) -> in_range sh I -> qtrue (rd Z I) = true -> np_any Z = true.
Proof. intros B HI Hq. unfold np_any. apply existsb_exists. exists (rd Z I). split; [|exact Hq].
  unfold rd, ravel. apply in_map. apply all_idx_in_range. destruct B as [E|F].
  - rewrite E. exact Logic.I.
  - rewrite bidx_eqlen by (rewrite (in_range_length _ _ HI); symmetry; now apply Forall2_dimok_length).
    now apply (in_range_clamp _ sh). Qed.

Section Cores.
  Variables V W : view.
  Hypothesis HV : view_ok V.
  Hypothesis HW : view_ok W.
  Hypothesis Hn : v_n W = v_n V.
  Variables (np_sqrt : Qc -> Qc) (np_pi : Qc) (memo : nd -> nd).
  Hypothesis Hm : memo_ok memo.
  Notation LR := (LR V W).
  Notation LRF := (LRF V W).

  (** `if np.any(z): m = np.where(z, alt, m)`: read at a member of the family this is `alt if z else m` on both sides *)
  Lemma rd_anywhere (U : view) (Z ALT M : nd) j : view_ok U -> 0 <= j < v_n U ->
    bc (v_sh U) (shape Z) -> bc (v_sh U) (shape ALT) -> bc (v_sh U) (shape M) ->
    rd (if np_any Z then memo (np_where Z ALT M) else M) (v_fam U j)
    = if qtrue (rd Z (v_fam U j)) then rd ALT (v_fam U j) else rd M (v_fam U j).
  Proof. intros HU Hj BZ BA BM. pose proof (vo_fam U HU j Hj) as HI.
    destruct (np_any Z) eqn:E.
    - unfold rd at 1. rewrite (memo_shape memo Hm), (memo_get memo Hm). fold (rd (np_where Z ALT M) (v_fam U j)).
      unfold np_where. rewrite (rd_map3 (v_sh U)); try assumption; [reflexivity|now apply in_range_length].
    - destruct (qtrue (rd Z (v_fam U j))) eqn:Q; [|reflexivity].
      rewrite (np_any_rd (v_sh U) Z (v_fam U j) BZ HI Q) in E. discriminate. Qed.

  Lemma LR_anywhere Z Zy ALT ALTy M My : LR Z Zy -> LR ALT ALTy -> LR M My ->
    LR (if np_any Z then memo (np_where Z ALT M) else M) (if np_any Zy then memo (np_where Zy ALTy My) else My).
  Proof. intros [B1 B2 R] [B1' B2' R'] [B1'' B2'' R'']. constructor.
    - destruct (np_any Z); [|assumption]. rewrite (memo_shape memo Hm). now apply bc_map3.
    - destruct (np_any Zy); [|assumption]. rewrite (memo_shape memo Hm). now apply bc_map3.
    - intros j Hj. rewrite (rd_anywhere V), (rd_anywhere W) by (try assumption; lia). now rewrite R, R', R''. Qed.

  (** ** _scale_mad up to its last line *)
  Definition mad_core (A : nd) (axis : option Z) : nd :=
    let norm := qdec 6744897501960817 16 in
    let norm_aad := np_sqrt (qz 2 / np_pi)%Qc in
    let loc := memo (np_reduce median1 A axis true) in
    let mad := memo (np_div (np_reduce median1 (np_abs (np_sub A loc)) axis true) (scalar norm)) in
    let is_zero_mad := memo (np_isclose0 mad) in
    if np_any is_zero_mad then
      memo (np_where is_zero_mad (memo (np_div (np_reduce mean1 (np_abs (np_sub A loc)) axis true) (scalar norm_aad))) mad)
    else mad.

  Lemma mad_core_LR A B : LRF A B -> LR (mad_core A (v_axis V)) (mad_core B (v_axis W)).
  Proof. intro HA. unfold mad_core. cbv zeta. apply LR_anywhere; lr. Qed.

  (** ** _scale_doublemad up to its last line: the two one-sided MADs *)
  Lemma dm_side_LR C D X Y : LRF C D -> LRF X Y -> LR (dm_side np_sqrt np_pi memo (v_axis V) C X) (dm_side np_sqrt np_pi memo (v_axis W) D Y).
  Proof. intros HC HX. unfold dm_side. cbv zeta.
    assert (HO : OLRF V W (mk_ndo (memo (omask (np_where_nan C X))) (memo (oval (np_where_nan C X))))
                          (mk_ndo (memo (omask (np_where_nan D Y))) (memo (oval (np_where_nan D Y))))).
    { assert (H0 : OLRF V W (np_where_nan C X) (np_where_nan D Y)) by lr. destruct H0 as [O1 O2]. split; cbn [omask oval]; lr. }
    lr. Qed.
End Cores.

(** * from the view back to the result array: shape surgery *)
Lemma insert_remove_nth k : forall I, (k < length I)%nat -> insert_nth k 0 (remove_nth k I) = set_nth k 0 I.
Proof. induction k as [|k IH]; intros [|i I] H; cbn in *; try lia; [reflexivity|]. now rewrite IH by lia. Qed.
Lemma insert_remove_nth_val k v : forall I, (k < length I)%nat -> insert_nth k v (remove_nth k I) = set_nth k v I.
Proof. induction k as [|k IH]; intros [|i I] H; cbn in *; try lia; [reflexivity|]. now rewrite IH by lia. Qed.
Lemma remove_nth_length k : forall I, (k < length I)%nat -> length (remove_nth k I) = (length I - 1)%nat.
Proof. induction k as [|k IH]; intros [|i I] H; cbn in *; try lia. rewrite IH by lia. lia. Qed.
Lemma zipw_self s : zipw s s = s.
Proof. induction s as [|d s IH]; [reflexivity|]. cbn. rewrite IH. destruct (d =? 1); reflexivity. Qed.
Lemma bshape_self s : bshape s s = s.
Proof. rewrite bshape_eqlen by reflexivity. apply zipw_self. Qed.

Section Final.
  Variables (sh : list Z) (k0 : Z) (I0 : list Z).
  Hypothesis Hsh : sh <> nil.
  Hypothesis HI : in_range sh I0.
  Let k := Z.to_nat (k0 mod Z.of_nat (length sh)).
  Lemma k_lt : (k < length sh)%nat.
  Proof. unfold k. assert (0 < Z.of_nat (length sh)) by (destruct sh; [congruence|cbn; lia]).
    pose proof (Z.mod_pos_bound k0 _ H). lia. Qed.

  Lemma remove_set_nth : forall (s : list Z) (q : nat) x, remove_nth q (set_nth q x s) = remove_nth q s.
  Proof. induction s as [|d s IH]; intros [|q] x; cbn; try reflexivity. now rewrite IH. Qed.

  (** keepdims-shaped result, then np.squeeze(., axis=k0) *)
  Lemma squeeze_axis_lane M j : shape M = set_nth k 1 sh -> 0 <= j < nth k sh 0 ->
    shape (np_squeeze_axis M (Some k0)) = remove_nth k sh /\
    get (np_squeeze_axis M (Some k0)) (remove_nth k I0) = rd M (set_nth k j I0).
  Proof. intros HM Hj. pose proof k_lt as Hk. pose proof (in_range_length _ _ HI) as LI.
    assert (Ek : norm_axis M k0 = k) by (unfold norm_axis, ndim; now rewrite HM, set_nth_length).
    cbn [np_squeeze_axis]. rewrite Ek. cbn [shape get]. rewrite HM. split; [apply remove_set_nth|].
    unfold rd. rewrite HM. rewrite insert_remove_nth by lia.
    rewrite bidx_eqlen by now rewrite !set_nth_length.
    rewrite clamp_kd by (try assumption; now apply in_range_set_nth).
    now rewrite set_nth_set_nth. Qed.

  (** the same when the result was computed with keepdims=False *)
  Lemma reduce_nokd_lane f A : shape A = sh ->
    shape (np_reduce f A (Some k0) false) = remove_nth k sh /\
    get (np_reduce f A (Some k0) false) (remove_nth k I0) = f (lane A k I0).
  Proof. intro HA. pose proof k_lt as Hk. pose proof (in_range_length _ _ HI) as LI.
    assert (Ek : norm_axis A k0 = k) by (unfold norm_axis, ndim; now rewrite HA).
    unfold np_reduce, reduce_axis. rewrite Ek. cbn [shape get]. rewrite HA. split; [reflexivity|].
    rewrite insert_remove_nth by lia. unfold lane. f_equal. apply map_ext. intro. now rewrite set_nth_set_nth. Qed.
End Final.

(** a 1-D array with one reduced element: np.squeeze gives the 0-d array *)
Lemma squeeze_one M j : shape M = 1 :: nil -> shape (np_squeeze M) = nil /\ get (np_squeeze M) nil = rd M (j :: nil).
Proof. intro HM. unfold np_squeeze, rd. cbn [shape get]. rewrite HM. split; reflexivity. Qed.

(** an all-ones keepdims shape squeezes to the 0-d array *)
Lemma filter_ones (s : list Z) : filter (fun d => negb (d =? 1)) (map (fun _ => 1) s) = nil.
Proof. induction s; [reflexivity|]. cbn. exact IHs. Qed.
Lemma unsqueeze_ones (s : list Z) : unsqueeze_idx (map (fun _ => 1) s) nil = map (fun _ => 0) s.
Proof. induction s; [reflexivity|]. cbn. now rewrite IHs. Qed.
Lemma clamp_ones (s : list Z) : forall I, length I = length s -> clamp (map (fun _ => 1) s) I = map (fun _ => 0) s.
Proof. induction s as [|d s IH]; intros [|i I] H; cbn in *; try lia; [reflexivity|]. now rewrite IH by lia. Qed.
Lemma squeeze_ones (sh : list Z) M (I : list Z) : shape M = map (fun _ => 1) sh -> length I = length sh ->
  shape (np_squeeze M) = nil /\ get (np_squeeze M) nil = rd M I.
Proof. intros HM HI. unfold np_squeeze, rd. cbn [shape get]. rewrite HM, filter_ones, unsqueeze_ones. split; [reflexivity|].
  rewrite bidx_eqlen by now rewrite map_length. now rewrite clamp_ones. Qed.

(** * the data of a lane / of the flattened array, as a 1-D array *)
Lemma vlen_lane A k I : 0 <= nth k (shape A) 0 -> vlen (lane A k I) = nth k (shape A) 0.
Proof. intro H. unfold vlen, lane. rewrite map_length, zrange_length. lia. Qed.
Lemma nthq_lane A k I j : 0 <= j < nth k (shape A) 0 -> nthq (lane A k I) j = get A (set_nth k j I).
Proof. intro H. unfold nthq, lane. rewrite nth_indep with (d' := get A (set_nth k 0 I)) by (rewrite map_length, zrange_length; lia).
  rewrite (map_nth (fun j => get A (set_nth k j I))). f_equal. f_equal. now apply nth_zrange. Qed.

(** * keepdims reductions broadcast against their input *)
Lemma bc_reduce f A axis : shape A <> nil -> bc (shape A) (shape (np_reduce f A axis true)).
Proof. intro Hn. destruct axis as [k0|]; unfold np_reduce, reduce_axis, reduce_all; cbn [shape]; right;
  [apply dimok_set_nth|apply dimok_ones]. Qed.
Lemma bc_oreduce f O axis : bc (shape (oval O)) (shape (np_oreduce f O axis true)).
Proof. unfold np_oreduce. destruct axis as [k0|]; cbn [shape]; right; [apply dimok_set_nth|apply dimok_ones]. Qed.

Lemma rel_rd phi X X' I : rel_of phi X X' -> rd X' I = phi (rd X I).
Proof. intros [Hs Hg]. unfold rd. now rewrite Hs, Hg. Qed.

Lemma dm_side_bc np_sqrt np_pi memo axis C X sh : memo_ok memo -> shape C = sh -> shape X = sh ->
  bc sh (shape (dm_side np_sqrt np_pi memo axis C X)).
Proof. intros Hm HC HX. unfold dm_side. cbv zeta. rewrite (memo_shape memo Hm).
  set (d := mk_ndo _ _).
  assert (Hd : shape (oval d) = sh).
  { unfold d. cbn [oval]. rewrite (memo_shape memo Hm). cbn [oval np_where_nan shape nd_map2]. rewrite HC, HX. apply bshape_self. }
  assert (B : forall f, bc sh (shape (np_div (np_oreduce f d axis true) (scalar (qdec 6744897501960817 16))))).
  { intro f. apply bc_map2; [|now left]. rewrite <- Hd. apply bc_oreduce. }
  unfold np_where. apply bc_map3.
  - cbn [shape np_isclose0 nd_map]. rewrite (memo_shape memo Hm). apply B.
  - apply bc_map2; [|now left]. rewrite <- Hd. apply bc_oreduce.
  - rewrite (memo_shape memo Hm). apply B. Qed.

(** * the two canonical instances: a lane against its 1-D copy, the whole array against its flattened copy *)
Lemma reduce_shape_ext f g X Y axis kd : shape X = shape Y -> shape (np_reduce f X axis kd) = shape (np_reduce g Y axis kd).
Proof. intro E. destruct axis as [k0|]; unfold np_reduce, reduce_axis, reduce_all, norm_axis, ndim; destruct kd; cbn [shape]; rewrite ?E; reflexivity. Qed.

Lemma LRF_lane sh k0 I0 A : sh <> nil -> shape A = sh -> in_range sh I0 ->
  let k := Z.to_nat (k0 mod Z.of_nat (length sh)) in
  0 <= nth k sh 0 ->
  LRF (lane_view sh k0 I0) (vec_view (nth k sh 0)) A (of_vec (lane A k I0)).
Proof. intros Hsh HA HI k Hn. assert (HL : vlen (lane A k I0) = nth k sh 0) by (rewrite vlen_lane; rewrite HA; [reflexivity|exact Hn]).
  split; [|split; [exact HA|cbn [shape of_vec v_sh vec_view]; now rewrite HL]].
  constructor; cbn [v_sh v_n v_fam lane_view vec_view]; fold k.
  - rewrite HA. apply bc_full.
  - cbn [shape of_vec]. rewrite HL. apply bc_full.
  - intros j Hj. rewrite (rd_full sh) by (try assumption; now apply in_range_set_nth).
    rewrite (rd_full (nth k sh 0 :: nil)) by (cbn [shape of_vec in_range]; first [now rewrite HL | split; [lia|exact Logic.I]]).
    cbn [get of_vec hd]. rewrite nthq_lane by now rewrite HA. reflexivity. Qed.

Lemma all_idx_nonneg_len sh : Z.of_nat (length (all_idx sh)) >= 0.
Proof. lia. Qed.

Lemma LRF_flat sh A : sh <> nil -> shape A = sh ->
  LRF (flat_view sh) (vec_view (Z.of_nat (length (all_idx sh)))) A (of_vec (ravel A)).
Proof. intros Hsh HA. set (N := Z.of_nat (length (all_idx sh))).
  assert (HL : vlen (ravel A) = N) by (unfold vlen, ravel; now rewrite map_length, HA).
  split; [|split; [exact HA|cbn [shape of_vec v_sh vec_view]; now rewrite HL]].
  constructor; cbn [v_sh v_n v_fam flat_view vec_view]; fold N.
  - rewrite HA. apply bc_full.
  - cbn [shape of_vec]. rewrite HL. apply bc_full.
  - intros j Hj. assert (HIj : in_range sh (nth (Z.to_nat j) (all_idx sh) nil)) by (apply in_range_all_idx, nth_In; unfold N in Hj; lia).
    rewrite (rd_full sh) by assumption.
    rewrite (rd_full (N :: nil)) by (cbn [shape of_vec in_range]; first [now rewrite HL | split; [lia|exact Logic.I]]).
    cbn [get of_vec hd]. unfold nthq, ravel. rewrite HA.
    rewrite nth_indep with (d' := get A nil) by (rewrite map_length; unfold N in Hj; lia). now rewrite map_nth. Qed.

Section CoreShapes.
  Variables (np_sqrt : Qc -> Qc) (np_pi : Qc) (memo : nd -> nd).
  Hypothesis Hm : memo_ok memo.
  Lemma mad_core_shape A axis : shape A <> nil -> shape (mad_core np_sqrt np_pi memo A axis) = shape (np_reduce median1 A axis true).
  Proof. intro Hn. unfold mad_core. cbv zeta.
    assert (BL : bc (shape A) (shape (memo (np_reduce median1 A axis true)))) by (rewrite (memo_shape memo Hm); now apply bc_reduce).
    assert (SD : shape (np_abs (np_sub A (memo (np_reduce median1 A axis true)))) = shape A)
      by (cbn [shape np_abs nd_map np_sub nd_map2]; now apply bshape_full_l).
    assert (SR : forall f c, shape (np_div (np_reduce f (np_abs (np_sub A (memo (np_reduce median1 A axis true)))) axis true) (scalar c))
                 = shape (np_reduce median1 A axis true)).
    { intros f c. cbn [shape np_div nd_map2 scalar]. rewrite bshape_nil_r'. now apply reduce_shape_ext. }
    destruct (np_any _); rewrite (memo_shape memo Hm); [|apply SR].
    cbn [shape np_where nd_map3]. rewrite !(memo_shape memo Hm). cbn [shape np_isclose0 nd_map].
    rewrite !(memo_shape memo Hm), !SR. now rewrite !bshape_self. Qed.
End CoreShapes.
