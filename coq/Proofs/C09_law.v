(** C09 -- the dispersion law regenerated from params.compute_dmdelays, over Q: nearest sample, zero at the
    reference, odd in DM (round-half-even is odd), monotone in frequency.  Also the header frequencies the
    reference names select. *)
From Coq Require Import ZArith QArith Qround Qminmax Lqa Lia Bool.
Require Import SPP.Base.Rt SPP.Base.Iter SPP.Model.C09_Arr2 SPP.Model.C09_Spec SPP.Gen.C09.
Open Scope Q_scope.

(** ---- round half to even ---------------------------------------------------------------------- *)
Lemma inject_Z_pred m : inject_Z (m - 1) == inject_Z m - 1.
Proof. unfold Z.sub. rewrite inject_Z_plus. reflexivity. Qed.
Lemma inject_Z_succ m : inject_Z (m + 1) == inject_Z m + 1.
Proof. rewrite inject_Z_plus. reflexivity. Qed.

Lemma rhe_nearest q : nearest_even q (rhe q).
Proof.
  unfold rhe, nearest_even. set (m := Qfloor (q + (1 # 2))).
  pose proof (Qfloor_le (q + (1 # 2))) as Hlo. pose proof (Qlt_floor (q + (1 # 2))) as Hhi.
  fold m in Hlo, Hhi. rewrite inject_Z_succ in Hhi.
  destruct (Qeq_bool (q + (1 # 2)) (inject_Z m)) eqn:Et; cbn [andb].
  - apply Qeq_bool_eq in Et. destruct (Z.odd m) eqn:Eo.
    + rewrite inject_Z_pred. repeat split; try lra.
      intros _. replace m with (Z.succ (m - 1)) in Eo by lia. now rewrite Z.odd_succ in Eo.
    + repeat split; try lra. intros _. rewrite <- Z.negb_odd. now rewrite Eo.
  - apply Qeq_bool_neq in Et. repeat split; lra.
Qed.

Lemma nearest_even_unique q z1 z2 : nearest_even q z1 -> nearest_even q z2 -> z1 = z2.
Proof.
  intros [A1 [B1 C1]] [A2 [B2 C2]].
  assert (H12 : (z1 <= z2 + 1)%Z).
  { rewrite Zle_Qle, inject_Z_succ. lra. }
  assert (H21 : (z2 <= z1 + 1)%Z).
  { rewrite Zle_Qle, inject_Z_succ. lra. }
  destruct (Z.eq_dec z1 z2) as [E|NE]; [exact E|exfalso].
  assert (Hc : (z1 = z2 + 1 \/ z2 = z1 + 1)%Z) by lia.
  destruct Hc as [Hc|Hc]; subst.
  - rewrite inject_Z_succ in *. assert (E1 : Z.even (z2 + 1) = true) by (apply C1; right; lra).
    assert (E2 : Z.even z2 = true) by (apply C2; left; lra).
    replace (z2 + 1)%Z with (Z.succ z2) in E1 by lia. rewrite Z.even_succ, <- Z.negb_even, E2 in E1. discriminate.
  - rewrite inject_Z_succ in *. assert (E1 : Z.even (z1 + 1) = true) by (apply C2; right; lra).
    assert (E2 : Z.even z1 = true) by (apply C1; left; lra).
    replace (z1 + 1)%Z with (Z.succ z1) in E1 by lia. rewrite Z.even_succ, <- Z.negb_even, E2 in E1. discriminate.
Qed.

Lemma nearest_even_comp q q' z : q == q' -> nearest_even q z -> nearest_even q' z.
Proof. intros E [A [B C]]. unfold nearest_even. rewrite <- E. auto. Qed.

Lemma rhe_comp q q' : q == q' -> rhe q = rhe q'.
Proof.
  intro E. apply (nearest_even_unique q'); [|apply rhe_nearest].
  apply (nearest_even_comp q); [exact E|apply rhe_nearest].
Qed.

Lemma rhe_Z z : rhe (inject_Z z) = z.
Proof.
  apply (nearest_even_unique (inject_Z z)); [apply rhe_nearest|].
  unfold nearest_even. repeat split; lra.
Qed.

Lemma rhe_opp q : rhe (- q) = (- rhe q)%Z.
Proof.
  apply (nearest_even_unique (- q)); [apply rhe_nearest|].
  destruct (rhe_nearest q) as [A [B C]]. unfold nearest_even. rewrite inject_Z_opp.
  repeat split; try lra. intros H. rewrite Z.even_opp. apply C. destruct H; [right|left]; lra.
Qed.

Lemma rhe_mono q1 q2 : q1 <= q2 -> (rhe q1 <= rhe q2)%Z.
Proof.
  intro H. destruct (rhe_nearest q1) as [A1 [B1 C1]]. destruct (rhe_nearest q2) as [A2 [B2 C2]].
  assert (H12 : (rhe q1 <= rhe q2 + 1)%Z) by (rewrite Zle_Qle, inject_Z_succ; lra).
  destruct (Z.eq_dec (rhe q1) (rhe q2 + 1)) as [E|NE]; [exfalso|lia].
  rewrite E, inject_Z_succ in *.
  assert (E1 : Z.even (rhe q2 + 1) = true) by (apply C1; right; lra).
  assert (E2 : Z.even (rhe q2) = true) by (apply C2; left; lra).
  replace (rhe q2 + 1)%Z with (Z.succ (rhe q2)) in E1 by lia. rewrite Z.even_succ, <- Z.negb_even, E2 in E1. discriminate.
Qed.

(** ---- the law ------------------------------------------------------------------------------------ *)
Lemma dm_constant_value : dm_constant == 4148808 # 1000.
Proof. reflexivity. Qed.

(** the delay in samples is a nearest integer of K*DM*(f^-2 - fref^-2)/tsamp (even on ties) *)
Lemma law_nearest f dm ts fref :
  nearest_even (dm_constant * dm * (/ (f * f) - / (fref * fref)) / ts) (dmdelay_samples f dm ts fref).
Proof.
  unfold dmdelay_samples. eapply nearest_even_comp; [|apply rhe_nearest].
  unfold dmdelay_sec, Qdiv. ring.
Qed.

Lemma law_zero_at_ref fref dm ts : dmdelay_samples fref dm ts fref = 0%Z.
Proof.
  unfold dmdelay_samples. rewrite (rhe_comp _ (inject_Z 0)); [apply rhe_Z|].
  unfold dmdelay_sec, Qdiv. change (inject_Z 0) with 0. ring.
Qed.

Lemma law_odd f dm ts fref : dmdelay_samples f (- dm) ts fref = (- dmdelay_samples f dm ts fref)%Z.
Proof.
  unfold dmdelay_samples. rewrite <- rhe_opp. apply rhe_comp. unfold dmdelay_sec, Qdiv. ring.
Qed.

Lemma Qinv_antitone a b : 0 < a -> a <= b -> / b <= / a.
Proof.
  intros Ha Hab. apply Qle_shift_inv_r; [lra|].
  assert (E : / a * a == 1) by (field; lra).
  assert (Hw : 0 <= / a) by (apply Qinv_le_0_compat; lra).
  nra.
Qed.

Lemma sec_antitone f1 f2 dm fref : 0 < f1 -> f1 <= f2 -> 0 <= dm -> dmdelay_sec f2 dm fref <= dmdelay_sec f1 dm fref.
Proof.
  intros H1 H12 Hdm. unfold dmdelay_sec.
  assert (Hi : / (f2 * f2) <= / (f1 * f1)) by (apply Qinv_antitone; nra).
  assert (Hk : 0 <= dm * dm_constant) by (unfold dm_constant; nra).
  nra.
Qed.

(** monotone in frequency: for DM >= 0 a higher frequency never arrives later (and the reverse for DM <= 0) *)
Lemma law_monotone f1 f2 dm ts fref : 0 < f1 -> f1 <= f2 -> 0 <= dm -> 0 < ts ->
  (dmdelay_samples f2 dm ts fref <= dmdelay_samples f1 dm ts fref)%Z.
Proof.
  intros H1 H12 Hdm Hts. unfold dmdelay_samples. apply rhe_mono.
  pose proof (sec_antitone f1 f2 dm fref H1 H12 Hdm) as Hs.
  unfold Qdiv. assert (Hw : 0 <= / ts) by (apply Qinv_le_0_compat; lra). nra.
Qed.

Lemma law_monotone_neg f1 f2 dm ts fref : 0 < f1 -> f1 <= f2 -> dm <= 0 -> 0 < ts ->
  (dmdelay_samples f1 dm ts fref <= dmdelay_samples f2 dm ts fref)%Z.
Proof.
  intros H1 H12 Hdm Hts.
  pose proof (law_monotone f1 f2 (- dm) ts fref H1 H12 ltac:(lra) Hts) as H.
  rewrite !law_odd in H. lia.
Qed.

(** sign: with DM >= 0 channels above the reference are early (<= 0), channels below are late (>= 0) *)
Lemma law_sign_above f dm ts fref : 0 < fref -> fref <= f -> 0 <= dm -> 0 < ts -> (dmdelay_samples f dm ts fref <= 0)%Z.
Proof. intros. rewrite <- (law_zero_at_ref fref dm ts). now apply law_monotone. Qed.
Lemma law_sign_below f dm ts fref : 0 < f -> f <= fref -> 0 <= dm -> 0 < ts -> (0 <= dmdelay_samples f dm ts fref)%Z.
Proof. intros. rewrite <- (law_zero_at_ref fref dm ts). now apply law_monotone. Qed.

(** ---- reference selection (Header.get_dmdelays) -------------------------------------------------- *)
Lemma delay_comp_freq f f' dm ts fref fref' : f == f' -> fref == fref' ->
  dmdelay_samples f dm ts fref = dmdelay_samples f' dm ts fref'.
Proof. intros E1 E2. unfold dmdelay_samples. apply rhe_comp. unfold dmdelay_sec. now rewrite E1, E2. Qed.

(** "ch1": the first channel is the reference, its delay is zero *)
Lemma ref_ch1_zero fch1 foff ts dm : hdr_delay fch1 foff ts dm fch1 0 = 0%Z.
Proof.
  unfold hdr_delay. rewrite (delay_comp_freq (hdr_chan_freq fch1 foff 0) fch1 dm ts fch1 fch1).
  - apply law_zero_at_ref.
  - unfold hdr_chan_freq. change (inject_Z 0) with 0. ring.
  - reflexivity.
Qed.

(** "max" / "min": the reference is the frequency of one of the channels, whose delay is therefore zero *)
Lemma qmax_n_attained n f : (1 <= n)%Z -> exists i, (0 <= i < n)%Z /\ qmax_n n f == f i.
Proof.
  intro Hn. unfold qmax_n.
  assert (G : forall k, exists i, (0 <= i < Z.of_nat k + 1)%Z /\ iter k (fun i m => Qmax m (f (i + 1)%Z)) (f 0%Z) == f i).
  { induction k as [|k [j [Hj Ej]]]; cbn [iter].
    - exists 0%Z. split; [lia|reflexivity].
    - destruct (Q.max_spec (iter k (fun i m => Qmax m (f (i + 1)%Z)) (f 0%Z)) (f (Z.of_nat k + 1)%Z)) as [[_ E]|[_ E]].
      + exists (Z.of_nat k + 1)%Z. split; [lia|exact E].
      + exists j. split; [lia|]. now rewrite E. }
  destruct (G (Z.to_nat (n - 1))) as [i [Hi Ei]]. exists i. split; [lia|exact Ei].
Qed.

Lemma qmin_n_attained n f : (1 <= n)%Z -> exists i, (0 <= i < n)%Z /\ qmin_n n f == f i.
Proof.
  intro Hn. unfold qmin_n.
  assert (G : forall k, exists i, (0 <= i < Z.of_nat k + 1)%Z /\ iter k (fun i m => Qmin m (f (i + 1)%Z)) (f 0%Z) == f i).
  { induction k as [|k [j [Hj Ej]]]; cbn [iter].
    - exists 0%Z. split; [lia|reflexivity].
    - destruct (Q.min_spec (iter k (fun i m => Qmin m (f (i + 1)%Z)) (f 0%Z)) (f (Z.of_nat k + 1)%Z)) as [[_ E]|[_ E]].
      + exists j. split; [lia|]. now rewrite E.
      + exists (Z.of_nat k + 1)%Z. split; [lia|exact E]. }
  destruct (G (Z.to_nat (n - 1))) as [i [Hi Ei]]. exists i. split; [lia|exact Ei].
Qed.

Lemma ref_max_zero fch1 foff ts dm nchans : (1 <= nchans)%Z ->
  exists i, (0 <= i < nchans)%Z /\ hdr_delay fch1 foff ts dm (hdr_fmax fch1 foff nchans) i = 0%Z.
Proof.
  intro Hn. destruct (qmax_n_attained nchans (hdr_chan_freq fch1 foff) Hn) as [i [Hi Ei]].
  exists i. split; [exact Hi|]. unfold hdr_delay, hdr_fmax.
  rewrite (delay_comp_freq _ (hdr_chan_freq fch1 foff i) dm ts _ (hdr_chan_freq fch1 foff i)); [apply law_zero_at_ref|reflexivity|exact Ei].
Qed.

Lemma ref_min_zero fch1 foff ts dm nchans : (1 <= nchans)%Z ->
  exists i, (0 <= i < nchans)%Z /\ hdr_delay fch1 foff ts dm (hdr_fmin fch1 foff nchans) i = 0%Z.
Proof.
  intro Hn. destruct (qmin_n_attained nchans (hdr_chan_freq fch1 foff) Hn) as [i [Hi Ei]].
  exists i. split; [exact Hi|]. unfold hdr_delay, hdr_fmin.
  rewrite (delay_comp_freq _ (hdr_chan_freq fch1 foff i) dm ts _ (hdr_chan_freq fch1 foff i)); [apply law_zero_at_ref|reflexivity|exact Ei].
Qed.

(** "center": the middle of the band; the channels on either side of it have delays of opposite sign *)
Lemma fcenter_value fch1 foff nchans : hdr_fcenter fch1 foff nchans == fch1 + foff * (inject_Z nchans - 1) / 2.
Proof. unfold hdr_fcenter, hdr_ftop. field. Qed.
