(** C06: streaming reductions = read plan o generated kernels o generated call-site offsets. *)
From Coq Require Import ZArith List Bool Lia ZifyBool.
Require Import SPP.Base.Rt SPP.Base.Iter SPP.Gen.Kernels SPP.Gen.Plan SPP.Gen.BaseSites
               SPP.Model.Stream SPP.Model.Plan SPP.Model.C06_pipe SPP.Proofs.C02_stream SPP.Proofs.C01_plan.
Import ListNotations.
Open Scope Z_scope.
Ltac Zify.zify_post_hook ::= Z.to_euclidean_division_equations.

(** the samples as an array: X fs k = k-th data byte of the stream *)
Definition X (fs : list file) : arr := of_list (flat fs).

Lemma of_list_slice l a n j : 0 <= a -> 0 <= j < n -> a + n <= len l -> of_list (slice l a n) j = of_list l (a + j).
Proof. intros Ha Hj Hl. unfold of_list. replace (j <? 0) with false by lia. replace (a + j <? 0) with false by lia.
  apply slice_nth; lia. Qed.

(** * kernels (generated text) *)
Lemma extract_tim_spec inarr out nch n idx k : 0 <= n ->
  extract_tim_run inarr out nch n idx k =
  if (idx <=? k) && (k <? idx + n) then sum_range inarr (nch * (k - idx)) (nch * (k - idx + 1)) else out k.
Proof. intro Hn. unfold extract_tim_run. rewrite iter_assign_affine. rewrite Z2Nat.id by lia. reflexivity. Qed.

Lemma sum_range_ext a b lo hi : (forall i, lo <= i < hi -> a i = b i) -> sum_range a lo hi = sum_range b lo hi.
Proof. intro E. unfold sum_range. apply sum_n_ext. intros i Hi. apply E. lia. Qed.

(** per-sample channel sum of the stream *)
Definition chansum (fs : list file) (nch : Z) (t : Z) : Z := sum_n (Z.to_nat nch) (fun c => X fs (t * nch + c)).

Lemma sum_range_chansum fs nch a n j : 1 <= nch -> 0 <= a -> 0 <= j -> (j + 1) * nch <= n -> a + n <= len (flat fs) ->
  sum_range (of_list (slice (flat fs) a n)) (nch * j) (nch * (j + 1)) = sum_n (Z.to_nat nch) (fun c => X fs (a + j * nch + c)).
Proof. intros Hc Ha Hj Hn Hl. unfold sum_range. replace (nch * (j + 1) - nch * j) with nch by lia.
  apply sum_n_ext. intros c Hcx. rewrite of_list_slice by nia. unfold X. f_equal. lia. Qed.

Lemma blk_slice fs nch start g sb i :
  blk fs nch start g sb i = (g, i, slice (flat fs) ((start + i * (g - sb)) * nch) (g * nch)).
Proof. reflexivity. Qed.

(** * collapse *)
Section Collapse.
  Variables (fs : list file) (nch N gulp start nsamps : Z).
  Hypotheses (Hf : 1 <= nfiles fs) (Hc : 1 <= nch) (Ht : total fs = N * nch)
             (Hs0 : 0 <= start) (Hn : 1 <= nsamps) (Hr : start + nsamps <= N) (Hg : 1 <= gulp).

  Lemma collapse_step_blk g i out k : 0 <= i -> 1 <= g -> i * g + g <= nsamps ->
    collapse_step nch gulp out (blk fs nch start g 0 i) k =
    if (i * gulp <=? k) && (k <? i * gulp + g) then chansum fs nch (start + i * g + (k - i * gulp)) else out k.
  Proof. intros Hi Hg1 Hfit. unfold collapse_step, blk, collapse_block. rewrite extract_tim_spec by lia.
    destruct ((i * gulp <=? k) && (k <? i * gulp + g)) eqn:E; [|reflexivity].
    apply andb_prop in E as [E1 E2].
    unfold P. replace (g - 0) with g by lia.
    assert (H1 : 0 <= i * g) by nia.
    assert (Ha : 0 <= (start + i * g) * nch) by nia.
    assert (Hj : 0 <= k - i * gulp) by lia.
    assert (Hn' : (k - i * gulp + 1) * nch <= g * nch) by nia.
    assert (Hl : (start + i * g) * nch + g * nch <= len (flat fs)) by (rewrite len_flat; nia).
    rewrite (sum_range_chansum fs nch _ _ _ Hc Ha Hj Hn' Hl).
    unfold chansum. apply sum_n_ext. intros c Hcx. f_equal. nia. Qed.

  Lemma collapse_full g : g = gulp -> forall j out k, (j = 0%nat \/ Z.of_nat j * g <= nsamps) ->
    fold_left (collapse_step nch gulp) (map (blk fs nch start g 0) (map Z.of_nat (seq 0 j))) out k =
    if (0 <=? k) && (k <? Z.of_nat j * g) then chansum fs nch (start + k) else out k.
  Proof. intros Eg. induction j as [|j IH]; intros out k Hfit.
    - cbn. destruct (0 <=? k) eqn:?, (k <? 0) eqn:?; cbn; try reflexivity; lia.
    - destruct Hfit as [Hfit|Hfit]; [discriminate|].
      rewrite seq_S, !map_app, fold_left_app. cbn [map fold_left Nat.add].
      rewrite collapse_step_blk by nia. rewrite IH by (destruct j; [left; reflexivity|right; nia]). subst g.
      destruct (Z.of_nat j * gulp <=? k) eqn:E1, (k <? Z.of_nat j * gulp + gulp) eqn:E2; cbn [andb];
      destruct (0 <=? k) eqn:?, (k <? Z.of_nat j * gulp) eqn:?, (k <? Z.of_nat (S j) * gulp) eqn:?; cbn [andb];
        try reflexivity; try lia.
      f_equal; lia. Qed.

  Theorem collapse_spec :
    exists out, collapse_pipe fs nch gulp start nsamps = Some out /\
      forall t, 0 <= t < nsamps -> out t = chansum fs nch (start + t).
  Proof. unfold collapse_pipe, collapse_skipback.
    destruct (run_plan_explicit fs nch N gulp start nsamps 0 Hf Hc Ht Hs0 Hn Hr Hg ltac:(lia)) as [g [sb [nreads [lr [F ->]]]]].
    destruct F as [Fg Fsb Fsblt Fnr Ffit Flast Fcov]. change (Z.abs 0) with 0 in Fsb. subst sb.
    eexists. split; [reflexivity|]. intros t Hrange. unfold plan_blocks, zrange. rewrite fold_left_app.
    replace (g - 0) with g in * by lia.
    destruct (Z_le_gt_dec gulp nsamps) as [Hle|Hgt].
    - (* effective gulp = caller's gulp *)
      assert (Eg : g = gulp) by lia.
      destruct (Z.eqb_spec lr 0) as [E|NE]; cbn [fold_left].
      + rewrite collapse_full by (try assumption; right; nia).
        replace (Z.of_nat (Z.to_nat nreads)) with nreads by lia. try rewrite E in Fcov. try change (0 =? 0) with true in Fcov.
        replace ((0 <=? t) && (t <? nreads * g)) with true by nia. reflexivity.
      + destruct Flast as [?|Flast]; [contradiction|]. try replace (lr =? 0) with false in Fcov by lia.
        unfold collapse_step at 1. unfold collapse_block. rewrite extract_tim_spec by lia.
        rewrite collapse_full by (try assumption; right; nia).
        replace (Z.of_nat (Z.to_nat nreads)) with nreads by lia.
        destruct ((nreads * gulp <=? t) && (t <? nreads * gulp + lr)) eqn:E.
        * apply andb_prop in E as [E1 E2].
          unfold P. replace (g - 0) with g by lia.
          assert (H1 : 0 <= nreads * g) by nia.
          assert (Ha : 0 <= (start + nreads * g) * nch) by nia.
          assert (Hj : 0 <= t - nreads * gulp) by lia.
          assert (Hn' : (t - nreads * gulp + 1) * nch <= lr * nch) by nia.
          assert (Hl : (start + nreads * g) * nch + lr * nch <= len (flat fs)) by (rewrite len_flat; nia).
          rewrite (sum_range_chansum fs nch _ _ _ Hc Ha Hj Hn' Hl).
          unfold chansum. apply sum_n_ext. intros c Hcx. f_equal. nia.
        * replace ((0 <=? t) && (t <? nreads * g)) with true by nia. reflexivity.
    - (* gulp exceeds the selection: a single block at offset 0 *)
      assert (Eg : g = nsamps) by lia.
      assert (nreads = 1) by nia. subst nreads.
      assert (lr = 0) by (destruct (Z.eqb_spec lr 0); [assumption|destruct Flast; nia]). subst lr.
      change (Z.to_nat 1) with 1%nat. cbn [seq map fold_left Z.eqb]. change (Z.of_nat 0) with 0.
      rewrite collapse_step_blk by lia.
      replace ((0 * gulp <=? t) && (t <? 0 * gulp + g)) with true by lia. f_equal. lia. Qed.

  Lemma collapse_len_spec : collapse_len N start nsamps 0 = nsamps /\ collapse_len N start nsamps 1 = N - start.
  Proof. split; reflexivity. Qed.
End Collapse.

(** * loops that own one output position per iteration *)
Lemma iter_own (n : nat) (b : Z) (body : Z -> arr -> arr) (h : Z -> Z -> Z) (u : arr) :
  (forall i w, 0 <= i < Z.of_nat n -> forall j, body i w j = if j =? b + i then h i (w (b + i)) else w j) ->
  forall j, iter n body u j = if (b <=? j) && (j <? b + Z.of_nat n) then h (j - b) (u j) else u j.
Proof. induction n as [|m IH]; intros Hb j.
  - cbn [iter]. destruct (b <=? j) eqn:?, (j <? b + Z.of_nat 0) eqn:?; cbn; try reflexivity; lia.
  - cbn [iter]. rewrite Hb by lia. rewrite !IH by (intros; apply Hb; lia).
    destruct (Z.eqb_spec j (b + Z.of_nat m)) as [->|NE].
    + replace ((b <=? b + Z.of_nat m) && (b + Z.of_nat m <? b + Z.of_nat m)) with false by lia.
      replace ((b <=? b + Z.of_nat m) && (b + Z.of_nat m <? b + Z.of_nat (S m))) with true by lia.
      f_equal. lia.
    + destruct (b <=? j) eqn:?, (j <? b + Z.of_nat m) eqn:?, (j <? b + Z.of_nat (S m)) eqn:?; cbn; try reflexivity; lia. Qed.

Lemma iter_accum_const n p v a k :
  iter n (fun i s => upd s p (s p + v i)) a k = if k =? p then a k + sum_n n v else a k.
Proof. rewrite (iter_accum n (fun _ => p) v a k). destruct (Z.eqb_spec k p) as [->|NE].
  - f_equal. rewrite <- sumif_true. apply sumif_ext. intros i Hi. split; [first [reflexivity | apply Z.eqb_refl]|auto].
  - rewrite sumif_false; [lia|]. intros i Hi. destruct (Z.eqb_spec k p); congruence. Qed.

(** * the kernels of bandpass and dedisperse (generated text) *)
Lemma extract_bpass_spec inarr out nch n k : 0 <= nch -> 0 <= n ->
  extract_bpass_run inarr out nch n k =
  if (0 <=? k) && (k <? nch) then out k + sum_n (Z.to_nat n) (fun isamp => inarr (nch * isamp + k)) else out k.
Proof. intros Hc Hn. unfold extract_bpass_run.
  rewrite (iter_own (Z.to_nat nch) 0 _ (fun i old => old + sum_n (Z.to_nat n) (fun isamp => inarr (nch * isamp + i)))).
  - rewrite Z2Nat.id by lia. cbn [Z.add]. replace (k - 0) with k by lia. reflexivity.
  - intros i w Hi j. cbn [Z.add]. rewrite iter_accum_const. destruct (Z.eqb_spec j i) as [->|NE]; reflexivity. Qed.

Lemma dedisperse_kernel_spec inarr out delays md nch n idx k : 0 <= nch -> md <= n ->
  dedisperse_run inarr out delays md nch n idx k =
  if (idx <=? k) && (k <? idx + (n - md))
  then out k + sum_n (Z.to_nat nch) (fun c => inarr (nch * ((k - idx) + delays c) + c)) else out k.
Proof. intros Hc Hn. unfold dedisperse_run.
  rewrite (iter_own (Z.to_nat (n - md)) idx _ (fun i old => old + sum_n (Z.to_nat nch) (fun c => inarr (nch * (i + delays c) + c)))).
  - rewrite Z2Nat.id by lia. reflexivity.
  - intros i w Hi j. rewrite iter_accum_const. destruct (Z.eqb_spec j (idx + i)) as [->|NE]; reflexivity. Qed.

(** * bandpass *)
Definition chancol (fs : list file) (nch start c : Z) (n : nat) : Z := sum_n n (fun t => X fs ((start + t) * nch + c)).

Section Bandpass.
  Variables (fs : list file) (nch N gulp start nsamps : Z).
  Hypotheses (Hf : 1 <= nfiles fs) (Hc : 1 <= nch) (Ht : total fs = N * nch)
             (Hs0 : 0 <= start) (Hn : 1 <= nsamps) (Hr : start + nsamps <= N) (Hg : 1 <= gulp).

  (** a block of [len] samples starting at sample [s0] adds the column sums of those samples *)
  Lemma bandpass_step_block st s0 len_ ii : 0 <= s0 -> 1 <= len_ -> s0 + len_ <= nsamps ->
    let st' := bandpass_step nch st (len_, ii, slice (flat fs) ((start + s0) * nch) (len_ * nch)) in
    snd st' = snd st + len_ /\
    forall c, 0 <= c < nch -> fst st' c = fst st c + sum_n (Z.to_nat len_) (fun t => X fs ((start + s0 + t) * nch + c)).
  Proof. intros H0 H1 H2. unfold bandpass_step, bandpass_block. cbn [fst snd]. split; [reflexivity|]. intros c Hcx.
    rewrite extract_bpass_spec by lia. replace ((0 <=? c) && (c <? nch)) with true by lia. f_equal.
    apply sum_n_ext. intros t Htx. rewrite of_list_slice; try nia.
    - unfold X. f_equal. nia.
    - rewrite len_flat. nia. Qed.

  Lemma bandpass_full g : 1 <= g -> forall j st, (j = 0%nat \/ Z.of_nat j * g <= nsamps) ->
    let st' := fold_left (bandpass_step nch) (map (blk fs nch start g 0) (map Z.of_nat (seq 0 j))) st in
    snd st' = snd st + Z.of_nat j * g /\
    forall c, 0 <= c < nch -> fst st' c = fst st c + chancol fs nch start c (Z.to_nat (Z.of_nat j * g)).
  Proof. intros Hg1. induction j as [|j IH]; intros st Hfit.
    - cbn. split; [lia|]. intros; unfold chancol; cbn; lia.
    - destruct Hfit as [Hfit|Hfit]; [discriminate|].
      rewrite seq_S, !map_app, fold_left_app. cbn [map fold_left Nat.add].
      specialize (IH st ltac:(destruct j; [left; reflexivity|right; nia])). cbv zeta in IH. destruct IH as [IHn IHc].
      set (st1 := fold_left (bandpass_step nch) (map (blk fs nch start g 0) (map Z.of_nat (seq 0 j))) st) in *.
      unfold blk, P. replace (g - 0) with g by lia.
      pose proof (bandpass_step_block st1 (Z.of_nat j * g) g (Z.of_nat j) ltac:(nia) Hg1 ltac:(nia)) as [Bn Bc]. cbv zeta in *.
      split; [rewrite Bn, IHn; nia|]. intros c Hcx. rewrite Bc, IHc by assumption. unfold chancol.
      replace (Z.to_nat (Z.of_nat (S j) * g)) with (Z.to_nat (Z.of_nat j * g) + Z.to_nat g)%nat by nia.
      rewrite sum_n_app. rewrite Z2Nat.id by nia. rewrite <- Z.add_assoc. f_equal. f_equal.
      apply sum_n_ext. intros t Htx. f_equal. nia. Qed.

  Theorem bandpass_spec :
    exists out n, bandpass_pipe fs nch gulp start nsamps = Some (out, n) /\ n = nsamps /\
      forall c, 0 <= c < nch -> out c = chancol fs nch start c (Z.to_nat nsamps).
  Proof. unfold bandpass_pipe, bandpass_skipback.
    destruct (run_plan_explicit fs nch N gulp start nsamps 0 Hf Hc Ht Hs0 Hn Hr Hg ltac:(lia)) as [g [sb [nreads [lr [F ->]]]]].
    destruct F as [Fg Fsb Fsblt Fnr Ffit Flast Fcov]. change (Z.abs 0) with 0 in Fsb. subst sb.
    replace (g - 0) with g in * by lia.
    unfold plan_blocks, zrange. rewrite fold_left_app.
    pose proof (bandpass_full g ltac:(lia) (Z.to_nat nreads) (zeros, 0) ltac:(right; nia)) as [Fn Fc]. cbv zeta in *.
    set (st1 := fold_left (bandpass_step nch) (map (blk fs nch start g 0) (map Z.of_nat (seq 0 (Z.to_nat nreads)))) (zeros, 0)) in *.
    rewrite Z2Nat.id in * by lia. cbn [fst snd] in Fn, Fc.
    destruct (Z.eqb_spec lr 0) as [E|NE]; cbn [fold_left].
    - destruct st1 as [o n] eqn:Est. exists o, n. cbn [fst snd] in *. split; [reflexivity|]. split; [nia|].
      intros c Hcx. rewrite Fc by assumption. unfold zeros. cbn [Z.add]. f_equal. nia.
    - destruct Flast as [?|Flast]; [contradiction|].
      unfold P. replace (g - 0) with g by lia.
      pose proof (bandpass_step_block st1 (nreads * g) lr nreads ltac:(nia) ltac:(lia) ltac:(nia)) as [Bn Bc]. cbv zeta in *.
      destruct (bandpass_step nch st1 (lr, nreads, slice (flat fs) ((start + nreads * g) * nch) (lr * nch))) as [o n] eqn:Est.
      exists o, n. cbn [fst snd] in *. split; [reflexivity|]. split; [nia|].
      intros c Hcx. rewrite Bc, Fc by assumption. unfold zeros, chancol. cbn [Z.add].
      replace (Z.to_nat nsamps) with (Z.to_nat (nreads * g) + Z.to_nat lr)%nat by nia.
      rewrite sum_n_app. rewrite Z2Nat.id by nia. f_equal. apply sum_n_ext. intros t Htx. f_equal. nia. Qed.
End Bandpass.

(** * read_chan *)
Section ReadChan.
  Variables (fs : list file) (nch N gulp start nsamps ichan : Z) (junk : arr).
  Hypotheses (Hf : 1 <= nfiles fs) (Hc : 1 <= nch) (Ht : total fs = N * nch)
             (Hs0 : 0 <= start) (Hn : 1 <= nsamps) (Hr : start + nsamps <= N) (Hg : 1 <= gulp) (Hi : 0 <= ichan < nch).

  (** a block of [len_] samples starting at sample [s0], written at offset ii*gulp *)
  Lemma read_chan_step_block out s0 len_ ii k : 0 <= s0 -> 1 <= len_ -> s0 + len_ <= nsamps ->
    read_chan_step nch gulp ichan out (len_, ii, slice (flat fs) ((start + s0) * nch) (len_ * nch)) k =
    if (ii * gulp <=? k) && (k <? ii * gulp + len_) then X fs ((start + s0 + (k - ii * gulp)) * nch + ichan) else out k.
  Proof. intros H0 H1 H2. unfold read_chan_step, read_chan_block. cbv zeta.
    replace (ii * gulp + len_ - ii * gulp) with len_ by lia.
    rewrite iter_assign_affine. rewrite Z2Nat.id by lia.
    destruct ((ii * gulp <=? k) && (k <? ii * gulp + len_)) eqn:E; [|reflexivity]. apply andb_prop in E as [E1 E2].
    rewrite of_list_slice; try nia.
    - unfold X. f_equal. nia.
    - rewrite len_flat. nia. Qed.

  Lemma read_chan_full g : g = gulp -> forall j out k, (j = 0%nat \/ Z.of_nat j * g <= nsamps) ->
    fold_left (read_chan_step nch gulp ichan) (map (blk fs nch start g 0) (map Z.of_nat (seq 0 j))) out k =
    if (0 <=? k) && (k <? Z.of_nat j * g) then X fs ((start + k) * nch + ichan) else out k.
  Proof. intros Eg. induction j as [|j IH]; intros out k Hfit.
    - cbn. destruct (0 <=? k) eqn:?, (k <? 0) eqn:?; cbn; try reflexivity; lia.
    - destruct Hfit as [Hfit|Hfit]; [discriminate|].
      rewrite seq_S, !map_app, fold_left_app. cbn [map fold_left Nat.add].
      rewrite blk_slice. replace (g - 0) with g by lia.
      rewrite (read_chan_step_block _ (Z.of_nat j * g) g) by nia.
      rewrite IH by (destruct j; [left; reflexivity|right; nia]). subst g.
      destruct (Z.of_nat j * gulp <=? k) eqn:E1, (k <? Z.of_nat j * gulp + gulp) eqn:E2; cbn [andb];
      destruct (0 <=? k) eqn:?, (k <? Z.of_nat j * gulp) eqn:?, (k <? Z.of_nat (S j) * gulp) eqn:?; cbn [andb];
        try reflexivity; try lia.
      f_equal; lia. Qed.

  (** whatever the uninitialised output buffer held, every selected sample of the channel is delivered *)
  Theorem read_chan_spec :
    exists out, read_chan_pipe fs nch gulp start nsamps ichan junk = Some out /\
      forall t, 0 <= t < nsamps -> out t = X fs ((start + t) * nch + ichan).
  Proof. unfold read_chan_pipe.
    destruct (run_plan_explicit fs nch N gulp start nsamps 0 Hf Hc Ht Hs0 Hn Hr Hg ltac:(lia)) as [g [sb [nreads [lr [F ->]]]]].
    destruct F as [Fg Fsb Fsblt Fnr Ffit Flast Fcov]. change (Z.abs 0) with 0 in Fsb. subst sb.
    eexists. split; [reflexivity|]. intros t Hrange. unfold plan_blocks, zrange. rewrite fold_left_app.
    replace (g - 0) with g in * by lia.
    destruct (Z_le_gt_dec gulp nsamps) as [Hle|Hgt].
    - assert (Eg : g = gulp) by lia.
      destruct (Z.eqb_spec lr 0) as [E|NE]; cbn [fold_left].
      + rewrite read_chan_full by (try assumption; right; nia).
        replace (Z.of_nat (Z.to_nat nreads)) with nreads by lia.
        replace ((0 <=? t) && (t <? nreads * g)) with true by nia. reflexivity.
      + destruct Flast as [?|Flast]; [contradiction|].
        unfold P. replace (g - 0) with g by lia.
        rewrite (read_chan_step_block _ (nreads * g) lr) by nia.
        rewrite read_chan_full by (try assumption; right; nia).
        replace (Z.of_nat (Z.to_nat nreads)) with nreads by lia.
        destruct ((nreads * gulp <=? t) && (t <? nreads * gulp + lr)) eqn:E.
        * f_equal. nia.
        * replace ((0 <=? t) && (t <? nreads * g)) with true by nia. reflexivity.
    - assert (Eg : g = nsamps) by lia.
      assert (nreads = 1) by nia. subst nreads.
      assert (lr = 0) by (destruct (Z.eqb_spec lr 0); [assumption|destruct Flast; nia]). subst lr.
      change (Z.to_nat 1) with 1%nat. cbn [seq map fold_left Z.eqb]. change (Z.of_nat 0) with 0.
      rewrite blk_slice. replace (g - 0) with g by lia.
      replace ((start + 0 * g) * nch) with ((start + 0) * nch) by lia.
      rewrite (read_chan_step_block _ 0 g) by lia.
      replace ((0 * gulp <=? t) && (t <? 0 * gulp + g)) with true by lia. f_equal. lia. Qed.
End ReadChan.

(** * dedisperse *)
Definition dedisp (fs : list file) (nch start : Z) (delays : arr) (t : Z) : Z :=
  sum_n (Z.to_nat nch) (fun c => X fs ((start + t + delays c) * nch + c)).

Section Dedisperse.
  Variables (fs : list file) (nch N gulp start nsamps md : Z) (delays : arr).
  Hypotheses (Hf : 1 <= nfiles fs) (Hc : 1 <= nch) (Ht : total fs = N * nch)
             (Hs0 : 0 <= start) (Hn : 1 <= nsamps) (Hr : start + nsamps <= N) (Hg : 1 <= gulp)
             (Hmd : 0 <= md < nsamps) (Hd : forall c, 0 <= c < nch -> 0 <= delays c <= md).

  Let gulp' := dedisperse_gulp md gulp.

  (** a block of [len_] >= md samples starting at sample [s0] adds the dedispersed sums of its first len_ - md samples *)
  Lemma dedisperse_step_block out s0 len_ ii k : 0 <= s0 -> md <= len_ -> 1 <= len_ -> s0 + len_ <= nsamps ->
    dedisperse_step nch gulp' md delays out (len_, ii, slice (flat fs) ((start + s0) * nch) (len_ * nch)) k =
    if (ii * (gulp' - md) <=? k) && (k <? ii * (gulp' - md) + (len_ - md))
    then out k + dedisp fs nch start delays (s0 + (k - ii * (gulp' - md))) else out k.
  Proof. intros H0 H1 H1' H2. unfold dedisperse_step, dedisperse_block. rewrite dedisperse_kernel_spec by lia.
    destruct ((ii * (gulp' - md) <=? k) && (k <? ii * (gulp' - md) + (len_ - md))) eqn:E; [|reflexivity].
    apply andb_prop in E as [E1 E2]. f_equal. unfold dedisp. apply sum_n_ext. intros c Hcx.
    pose proof (Hd c ltac:(lia)) as Hdc.
    rewrite of_list_slice; try nia.
    - unfold X. f_equal. nia.
    - rewrite len_flat. nia. Qed.

  Lemma dedisperse_full g : g = gulp' -> md < g -> forall j out k,
    (j = 0%nat \/ (Z.of_nat j - 1) * (g - md) + g <= nsamps) ->
    fold_left (dedisperse_step nch gulp' md delays) (map (blk fs nch start g md) (map Z.of_nat (seq 0 j))) out k =
    if (0 <=? k) && (k <? Z.of_nat j * (g - md)) then out k + dedisp fs nch start delays k else out k.
  Proof. intros Eg Hlt. induction j as [|j IH]; intros out k Hfit.
    - cbn. destruct (0 <=? k) eqn:?, (k <? 0) eqn:?; cbn; try reflexivity; lia.
    - destruct Hfit as [Hfit|Hfit]; [discriminate|].
      rewrite seq_S, !map_app, fold_left_app. cbn [map fold_left Nat.add].
      rewrite blk_slice.
      rewrite (dedisperse_step_block _ (Z.of_nat j * (g - md)) g) by nia.
      rewrite !IH by (destruct j; [left; reflexivity|right; nia]). rewrite <- Eg.
      assert (0 <= Z.of_nat j * (g - md)) by nia.
      destruct (Z.of_nat j * (g - md) <=? k) eqn:E1, (k <? Z.of_nat j * (g - md) + (g - md)) eqn:E2; cbn [andb];
      destruct (0 <=? k) eqn:?, (k <? Z.of_nat j * (g - md)) eqn:?, (k <? Z.of_nat (S j) * (g - md)) eqn:?; cbn [andb];
        try reflexivity; try lia.
      f_equal. f_equal. lia. Qed.

  (** for every gulp (also gulp < 2*maxdelay and 2*maxdelay > nsamps) the first nsamps - maxdelay output samples are
      the sums over channels of the delayed samples, each accumulated exactly once *)
  Theorem dedisperse_spec :
    exists out, dedisperse_pipe fs nch gulp start nsamps md delays = Some out /\
      forall t, 0 <= t < nsamps - md -> out t = dedisp fs nch start delays t.
  Proof. unfold dedisperse_pipe, dedisperse_skipback. fold gulp'.
    assert (Hgp : 1 <= gulp' /\ md < gulp' /\ 2 * md <= gulp') by (unfold gulp', dedisperse_gulp; lia).
    destruct (run_plan_explicit fs nch N gulp' start nsamps md Hf Hc Ht Hs0 Hn Hr ltac:(lia) ltac:(lia)) as [g [sb [nreads [lr [F ->]]]]].
    destruct F as [Fg Fsb Fsblt Fnr Ffit Flast Fcov]. replace (Z.abs md) with md in Fsb by lia. subst sb.
    eexists. split; [reflexivity|]. intros t Hrange. unfold plan_blocks, zrange. rewrite fold_left_app.
    destruct (Z_le_gt_dec gulp' nsamps) as [Hle|Hgt].
    - assert (Eg : g = gulp') by lia.
      destruct (Z.eqb_spec lr 0) as [E|NE]; cbn [fold_left].
      + rewrite dedisperse_full by (try assumption; try lia; right; rewrite Z2Nat.id by lia; lia).
        replace (Z.of_nat (Z.to_nat nreads)) with nreads by lia.
        replace ((0 <=? t) && (t <? nreads * (g - md))) with true by nia. unfold zeros. lia.
      + destruct Flast as [?|Flast]; [contradiction|].
        unfold P.
        rewrite (dedisperse_step_block _ (nreads * (g - md)) lr) by nia.
        rewrite !dedisperse_full by (try assumption; try lia; right; rewrite Z2Nat.id by lia; lia).
        replace (Z.of_nat (Z.to_nat nreads)) with nreads by lia. rewrite <- Eg.
        destruct ((nreads * (g - md) <=? t) && (t <? nreads * (g - md) + (lr - md))) eqn:E.
        * apply andb_prop in E as [E1 E2].
          replace ((0 <=? t) && (t <? nreads * (g - md))) with false by lia. unfold zeros. cbn [Z.add]. f_equal. lia.
        * replace ((0 <=? t) && (t <? nreads * (g - md))) with true by nia. unfold zeros. lia.
    - assert (Eg : g = nsamps) by lia.
      assert (nreads = 1) by nia. subst nreads.
      assert (lr = 0) by (destruct (Z.eqb_spec lr 0); [assumption|destruct Flast; nia]). subst lr.
      change (Z.to_nat 1) with 1%nat. cbn [seq map fold_left Z.eqb]. change (Z.of_nat 0) with 0.
      rewrite blk_slice.
      replace ((start + 0 * (g - md)) * nch) with ((start + 0) * nch) by lia.
      rewrite (dedisperse_step_block _ 0 g) by lia.
      replace ((0 * (gulp' - md) <=? t) && (t <? 0 * (gulp' - md) + (g - md))) with true by lia.
      unfold zeros. cbn [Z.add]. f_equal. lia. Qed.

  Lemma dedisperse_len_spec : dedisperse_len N start nsamps 0 md = nsamps - md.
  Proof. reflexivity. Qed.
End Dedisperse.

(** * the packed depths: by Proofs.C01_packed.run_plan_packed_as_bytes every theorem above transfers to the byte-wide set that
      holds the unpacked samples *)
Require Import SPP.Model.Bits SPP.Model.PlanPacked SPP.Proofs.C01_packed.

Lemma nth_map_in {A B} (f : A -> B) l i d d' : (i < length l)%nat -> nth i (map f l) d = f (nth i l d').
Proof. intros. rewrite nth_indep with (d' := f d') by (rewrite map_length; lia). apply map_nth. Qed.

Lemma X_unpacked fs nbits big k : In nbits [1; 2; 4] -> 0 <= k < len (flat fs) * bf nbits ->
  X (unpacked_set fs nbits big) k = packed_sample fs nbits big k.
Proof. intros Hnb Hk. destruct (SPP.Proofs.C03_bits.bf_pos nbits Hnb) as [Hb _].
  unfold X, unpacked_set, flat at 1. cbn [map dat concat]. rewrite app_nil_r. unfold of_list. replace (k <? 0) with false by lia.
  rewrite unpackL_index by lia. unfold packed_sample.
  rewrite (nth_map_in _ _ _ 0 0) by (rewrite zrange_length; lia).
  unfold zrange. rewrite (nth_map_in Z.of_nat _ _ 0 0%nat) by (rewrite seq_length; lia).
  rewrite seq_nth by lia. cbn [Nat.add]. rewrite Z2Nat.id by lia. reflexivity. Qed.

Theorem collapse_spec_packed fs nch nbits big N gulp start nsamps junk :
  In nbits [1; 2; 4] -> (nch * nbits) mod 8 = 0 -> 1 <= nch ->
  1 <= nfiles fs -> total fs = N * samp_bytes nch nbits -> Forall is_byte (flat fs) ->
  0 <= start -> 1 <= nsamps -> start + nsamps <= N -> 1 <= gulp ->
  exists out, collapse_pipe_packed fs nch nbits big gulp start nsamps junk = Some out /\
    forall t, 0 <= t < nsamps -> out t = sum_n (Z.to_nat nch) (fun c => packed_sample fs nbits big ((start + t) * nch + c)).
Proof. intros Hnb Hdiv Hc Hf Ht Hbytes Hs0 Hn Hr Hg.
  destruct (run_plan_packed_as_bytes fs nch nbits big N gulp start nsamps 0 junk Hnb Hdiv Hc Hf Ht Hbytes Hs0 Hn Hr Hg ltac:(lia)) as [E [Hf' Ht']].
  unfold collapse_pipe_packed, collapse_skipback. rewrite E.
  destruct (collapse_spec (unpacked_set fs nbits big) nch N gulp start nsamps Hf' Hc Ht' Hs0 Hn Hr Hg) as [out [Eo So]].
  unfold collapse_pipe, collapse_skipback in Eo. exists out. split; [exact Eo|].
  intros t Htr. rewrite So by assumption. unfold chansum. apply sum_n_ext. intros c Hcx.
  destruct (SPP.Proofs.C03_bits.bf_pos nbits Hnb) as [Hb Hb8].
  assert (Hnch : nch * nbits = 8 * samp_bytes nch nbits) by (unfold samp_bytes; apply Z.div_exact; lia).
  assert (Hnb0 : 0 < nbits) by (cbn [In] in Hnb; lia).
  assert (Hn2 : nch = samp_bytes nch nbits * bf nbits) by nia.
  apply X_unpacked; [assumption|]. rewrite len_flat, Ht. set (sbs := samp_bytes nch nbits) in *. clearbody sbs. subst nch. nia. Qed.

Theorem dedisperse_spec_packed fs nch nbits big N gulp start nsamps md delays junk :
  In nbits [1; 2; 4] -> (nch * nbits) mod 8 = 0 -> 1 <= nch ->
  1 <= nfiles fs -> total fs = N * samp_bytes nch nbits -> Forall is_byte (flat fs) ->
  0 <= start -> 1 <= nsamps -> start + nsamps <= N -> 1 <= gulp ->
  0 <= md < nsamps -> (forall c, 0 <= c < nch -> 0 <= delays c <= md) ->
  exists out, dedisperse_pipe_packed fs nch nbits big gulp start nsamps md delays junk = Some out /\
    forall t, 0 <= t < nsamps - md -> out t = sum_n (Z.to_nat nch) (fun c => packed_sample fs nbits big ((start + t + delays c) * nch + c)).
Proof. intros Hnb Hdiv Hc Hf Ht Hbytes Hs0 Hn Hr Hg Hmd Hd.
  assert (Hgp : 1 <= dedisperse_gulp md gulp /\ md < dedisperse_gulp md gulp) by (unfold dedisperse_gulp; lia).
  destruct (run_plan_packed_as_bytes fs nch nbits big N (dedisperse_gulp md gulp) start nsamps md junk Hnb Hdiv Hc Hf Ht Hbytes Hs0 Hn Hr ltac:(lia) ltac:(lia)) as [E [Hf' Ht']].
  unfold dedisperse_pipe_packed, dedisperse_skipback. rewrite E.
  destruct (dedisperse_spec (unpacked_set fs nbits big) nch N gulp start nsamps md delays Hf' Hc Ht' Hs0 Hn Hr Hg Hmd Hd) as [out [Eo So]].
  unfold dedisperse_pipe, dedisperse_skipback in Eo. exists out. split; [exact Eo|].
  intros t Htr. rewrite So by assumption. unfold dedisp. apply sum_n_ext. intros c Hcx. pose proof (Hd c ltac:(lia)).
  destruct (SPP.Proofs.C03_bits.bf_pos nbits Hnb) as [Hb Hb8].
  assert (Hnch : nch * nbits = 8 * samp_bytes nch nbits) by (unfold samp_bytes; apply Z.div_exact; lia).
  assert (Hnb0 : 0 < nbits) by (cbn [In] in Hnb; lia).
  assert (Hn2 : nch = samp_bytes nch nbits * bf nbits) by nia.
  apply X_unpacked; [assumption|]. rewrite len_flat, Ht. set (sbs := samp_bytes nch nbits) in *. clearbody sbs. subst nch. nia. Qed.
