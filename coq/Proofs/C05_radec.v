(** C05: sexagesimal packing of RA/Dec, frame flags and id tables (Model/C05_RaDec.v over Gen/C05Header.v). *)
From Coq Require Import ZArith List Bool Lia ZifyBool.
Require Import SPP.Gen.C05Header SPP.Model.C05_HeaderCodec SPP.Model.C05_RaDec SPP.Proofs.C05_codec.
Import ListNotations.
Open Scope Z_scope.

(** * the two divmods recover the three sexagesimal fields *)
Lemma split_fields X d m s : 0 < X -> 0 <= d -> 0 <= m < 100 -> 0 <= s < X ->
  let a := (d * 100 + m) * X + s in
  a / (100 * X) = d /\ (a mod (100 * X)) / X = m /\ (a mod (100 * X)) mod X = s.
Proof.
  intros HX Hd Hm Hs a.
  assert (Hr : 0 <= m * X + s < 100 * X) by nia.
  assert (E1 : a / (100 * X) = d).
  { symmetry. apply Z.div_unique with (r := m * X + s); [left; exact Hr|unfold a; ring]. }
  assert (E2 : a mod (100 * X) = m * X + s).
  { symmetry. apply Z.mod_unique with (q := d); [left; exact Hr|unfold a; ring]. }
  rewrite E2. repeat split; [exact E1| |].
  - symmetry. apply Z.div_unique with (r := s); [left; exact Hs|ring].
  - symmetry. apply Z.mod_unique with (q := m); [left; exact Hs|ring].
Qed.

Lemma dec_constants : dec_div_hi = 100 * dec_div_lo /\ dec_div_lo = 100 /\ ra_div_hi = 100 * ra_div_lo /\ ra_div_lo = 100.
Proof. vm_compute. repeat split; reflexivity. Qed.

Definition mag (S : Z) (c : sexa) : Z := (sx_deg c * 100 + sx_min c) * (100 * S) + sx_sec c.

Lemma pack_mag S c : pack S c = if sx_neg c then - mag S c else mag S c.
Proof. reflexivity. Qed.

Lemma mag_nonneg S c : 1 <= S -> wf_sexa S c -> 0 <= mag S c.
Proof. intros HS (Hd & Hm & Hs). unfold mag. nia. Qed.

(** declination: for every sign, degree, minute, second *)
Theorem dec_roundtrip numeric sec_repr S c : 1 <= S -> wf_sexa S c ->
  numeric = false \/ sx_neg c = false \/ 0 < sx_deg c ->
  sec_repr = false \/ repr_rejected S (Z.abs (pack S c)) = false ->
  exists c', unpack_dec_with numeric sec_repr S (pack S c) = Some c' /\ angle S c' = angle S c.
Proof.
  intros HS Hwf Hsign Hrepr. pose proof (mag_nonneg S c HS Hwf) as Hm0.
  destruct Hwf as (Hd & Hm & Hs). destruct dec_constants as (Ehi & Elo & _ & _).
  assert (Habs : Z.abs (pack S c) = mag S c) by (rewrite pack_mag; destruct (sx_neg c); lia).
  unfold unpack_dec_with. rewrite Habs in *.
  assert (Hr : sec_repr && repr_rejected S (mag S c) = false) by (destruct Hrepr as [->| ->]; [reflexivity|apply andb_false_r]).
  rewrite Hr.
  destruct (split_fields (100 * S) (sx_deg c) (sx_min c) (sx_sec c)) as (E1 & E2 & E3); try lia.
  fold (mag S c) in E1, E2, E3.
  replace (dec_div_hi * S) with (100 * (100 * S)) by lia. replace (dec_div_lo * S) with (100 * S) by lia.
  rewrite E1, E2, E3. eexists. split; [reflexivity|].
  unfold angle. cbn [sx_neg sx_deg sx_min sx_sec]. rewrite pack_mag.
  assert (Hang : 0 <= (sx_deg c * 60 + sx_min c) * (60 * S) + sx_sec c) by nia.
  assert (Hz : mag S c = 0 -> (sx_deg c * 60 + sx_min c) * (60 * S) + sx_sec c = 0) by (unfold mag; nia).
  assert (Hp : 0 < sx_deg c -> 0 < mag S c) by (unfold mag; nia).
  destruct (sx_neg c) eqn:En, numeric.
  - (* negative, numeric sign *)
    destruct Hsign as [?|[?|Hd0]]; try discriminate. specialize (Hp Hd0).
    destruct (- mag S c <? 0) eqn:E; [|lia]. destruct (-1 * sx_deg c <? 0) eqn:E'; [reflexivity|lia].
  - (* negative, textual sign *)
    destruct (- mag S c <? 0) eqn:E; [reflexivity|]. assert (mag S c = 0) by lia. rewrite (Hz H). reflexivity.
  - destruct (mag S c <? 0) eqn:E; [lia|]. destruct (1 * sx_deg c <? 0) eqn:E'; [lia|reflexivity].
  - destruct (mag S c <? 0) eqn:E; [lia|reflexivity].
Qed.

(** right ascension *)
Theorem ra_roundtrip sec_repr S c : 1 <= S -> wf_sexa S c -> sx_neg c = false ->
  sec_repr = false \/ repr_rejected S (pack S c) = false ->
  unpack_ra_with sec_repr S (pack S c) = Some c.
Proof.
  intros HS Hwf Hneg Hrepr. destruct Hwf as (Hd & Hm & Hs). destruct dec_constants as (_ & _ & Ehi & Elo).
  unfold unpack_ra_with. rewrite pack_mag, Hneg in *.
  assert (Hr : sec_repr && repr_rejected S (mag S c) = false) by (destruct Hrepr as [->| ->]; [reflexivity|apply andb_false_r]).
  rewrite Hr.
  destruct (split_fields (100 * S) (sx_deg c) (sx_min c) (sx_sec c)) as (E1 & E2 & E3); try lia.
  fold (mag S c) in E1, E2, E3.
  replace (ra_div_hi * S) with (100 * (100 * S)) by lia. replace (ra_div_lo * S) with (100 * S) by lia.
  rewrite E1, E2, E3. destruct c; cbn in *. subst. reflexivity.
Qed.

(** * witnesses *)
Lemma numeric_sign_refuted sec_repr :
  wf_sexa S8 c_south /\
  exists c', unpack_dec_with true sec_repr S8 (pack S8 c_south) = Some c' /\ angle S8 c' = - angle S8 c_south /\ angle S8 c_south <> 0.
Proof.
  split; [unfold wf_sexa, S8; cbn; lia|].
  destruct sec_repr; eexists; (split; [vm_compute; reflexivity|split; [vm_compute; reflexivity|vm_compute; discriminate]]).
Qed.

Lemma sec_repr_refuted numeric :
  wf_sexa S8 c_tiny /\ unpack_dec_with numeric true S8 (pack S8 c_tiny) = None /\ unpack_ra_with true S8 (pack S8 c_tiny) = None.
Proof. split; [unfold wf_sexa, S8; cbn; lia|]. destruct numeric; split; vm_compute; reflexivity. Qed.

(** the rejected values are exactly 0 < x < 1e-4 with a one-digit mantissa: all others pass *)
Lemma repr_rejected_small S P : repr_rejected S P = true -> 0 < P /\ P * 10000 < S.
Proof. unfold repr_rejected. intros H. apply andb_true_iff in H as [H _]. apply andb_true_iff in H as [H1 H2]. lia. Qed.

(** * frames (three-element domain: by evaluation of the regenerated functions) *)
Lemma frame_status :
  if frames_ok
  then forall f, In f all_frames -> frame_roundtrip f = f
  else (forall f, In f [0; 1] -> frame_roundtrip f = f) /\ frame_roundtrip 2 <> 2.
Proof.
  remember frames_ok as b eqn:E. vm_compute in E. subst b. cbv iota.
  first [ intros f [<-|[<-|[<-|[]]]]; reflexivity
        | split; [intros f [<-|[<-|[]]]; reflexivity|vm_compute; discriminate] ].
Qed.

(** * identifier tables (finite: the regenerated literals) *)
Definition table_ok (tbl : list (bytes * Z)) (dn : bytes) (di : Z) : bool :=
  forallb (fun e => bytes_eqb (name_of_id tbl dn (id_of_name tbl di (fst e))) (fst e)
                    && (0 <=? snd e) && (snd e <? 4294967296)
                    && (id_of_name tbl di (name_of_id tbl dn (snd e)) =? snd e)) tbl
  && bytes_eqb (name_of_id tbl dn di) dn.

Lemma telescope_table_ok : table_ok telescope_ids telescope_default_name telescope_id_default = true.
Proof. vm_compute. reflexivity. Qed.
Lemma machine_table_ok : table_ok machine_ids backend_default_name machine_id_default = true.
Proof. vm_compute. reflexivity. Qed.
Lemma missing_ids_ok : telescope_missing_id = telescope_id_default /\ backend_missing_id = machine_id_default.
Proof. vm_compute. split; reflexivity. Qed.

Lemma table_ok_spec tbl dn di : table_ok tbl dn di = true ->
  (forall e, In e tbl -> name_of_id tbl dn (id_of_name tbl di (fst e)) = fst e /\ 0 <= snd e < 4294967296 /\
                         id_of_name tbl di (name_of_id tbl dn (snd e)) = snd e) /\
  (forall name, lookup name tbl = None -> name_of_id tbl dn (id_of_name tbl di name) = dn).
Proof.
  unfold table_ok. intros H. apply andb_true_iff in H as [H1 H2]. rewrite forallb_forall in H1. split.
  - intros e He. specialize (H1 e He). repeat (apply andb_true_iff in H1 as [H1 ?]).
    apply bytes_eqb_eq in H1. repeat split; try lia. assumption.
  - intros name Hn. unfold id_of_name. rewrite Hn. apply bytes_eqb_eq. assumption.
Qed.

Theorem telescope_ids_roundtrip :
  (forall e, In e telescope_ids -> telescope_of_id (telescope_to_id (fst e)) = fst e /\ 0 <= snd e < 4294967296 /\
                                   telescope_to_id (telescope_of_id (snd e)) = snd e) /\
  (forall name, lookup name telescope_ids = None -> telescope_of_id (telescope_to_id name) = telescope_default_name).
Proof. exact (table_ok_spec _ _ _ telescope_table_ok). Qed.

Theorem machine_ids_roundtrip :
  (forall e, In e machine_ids -> backend_of_id (backend_to_id (fst e)) = fst e /\ 0 <= snd e < 4294967296 /\
                                 backend_to_id (backend_of_id (snd e)) = snd e) /\
  (forall name, lookup name machine_ids = None -> backend_of_id (backend_to_id name) = backend_default_name).
Proof. exact (table_ok_spec _ _ _ machine_table_ok). Qed.

(** * pointing angles: every unit, every value (exact rationals; [r] = degrees per radian is arbitrary) *)
Require Import QArith.
Lemma pointing_status :
  if pointing_ok return Prop
  then forall r zen az, fst (pointing_roundtrip r zen az) == deg_of r zen /\ snd (pointing_roundtrip r zen az) == deg_of r az
  else (forall r zen az, snd zen = UDeg -> snd az = UDeg ->
          (za_start_attr =? 0)%Z && (az_start_attr =? 1)%Z && (zenith_read_key =? 0)%Z && (azimuth_read_key =? 1)%Z = true ->
          fst (pointing_roundtrip r zen az) == deg_of r zen /\ snd (pointing_roundtrip r zen az) == deg_of r az)
       /\ ~ (fst (pointing_roundtrip 57 zen_w az_w) == deg_of 57 zen_w /\ snd (pointing_roundtrip 57 zen_w az_w) == deg_of 57 az_w).
Proof.
  remember pointing_ok as b eqn:E. vm_compute in E. subst b. cbv iota.
  first [ intros r zen az; unfold pointing_roundtrip, za_start_written, az_start_written; cbn; split; reflexivity
        | split;
          [ intros r [x u] [y w] Hu Hw H; cbn in Hu, Hw; subst u w;
            unfold pointing_roundtrip, za_start_written, az_start_written, angle_written, deg_of in *; revert H;
            destruct (za_start_attr =? 0)%Z, (az_start_attr =? 1)%Z, (zenith_read_key =? 0)%Z, (azimuth_read_key =? 1)%Z;
            cbn; try discriminate; intros _; destruct za_start_in_deg, az_start_in_deg; cbn; split; ring
          | vm_compute; intros [H1 H2]; try discriminate H1; try discriminate H2 ] ].
Qed.
