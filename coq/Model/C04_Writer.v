(** Hand-written executable model for C04 (what is written is what is read back).  Definitions only.

    Follows, statement by statement, FileWriter.cwrite (io/fileio.py), bits.pack, numpy's tofile / fromfile on
    one-dimensional contiguous arrays, Header.prep_outfile, FilReader.read_block (through the C02 reader model
    Model/Stream.v) and the four series writers / readers.  What the code decides -- which array reaches `pack` and
    `tofile`, the depth -> sample type table, the bit order per depth, the packed length, the nsamples inference
    expression, which writers put a SIGPROC header in front of the samples and which readers skip one -- is NOT
    written here: it is taken from Gen/C04Io.v, regenerated from the source on every run.

    Sample values are integers (DESIGN.md section 3); the bytes of a sample are its little-endian machine
    representation: unsigned / two's-complement words for the integer types and the IEEE-754 binary32 / binary64
    word for the float types (exact for |v| < 2^24 resp. 2^53, the integer range of the format; outside that range
    the model is not meaningful and no theorem or correspondence case uses it). *)
From Coq Require Import ZArith List Bool.
Require Import SPP.Base.Rt SPP.Gen.Kernels SPP.Gen.Plan SPP.Gen.C04Io SPP.Model.Bits SPP.Model.Stream.
Import ListNotations.
Open Scope Z_scope.

Definition dtype_eqb (a b : dtype) : bool :=
  match a, b with U8, U8 | U16, U16 | I64, I64 | F32, F32 | F64, F64 => true | _, _ => false end.
Definition itemsize (dt : dtype) : Z := match dt with U8 => 1 | U16 => 2 | I64 => 8 | F32 => 4 | F64 => 8 end.

(** * machine representation of one sample *)
Fixpoint le_bytes (k : nat) (w : Z) : list Z :=
  match k with O => [] | S k' => (w mod 256) :: le_bytes k' (w / 256) end.
Fixpoint le_val (l : list Z) : Z := match l with [] => 0 | b :: r => b + 256 * le_val r end.

(** IEEE-754 word with [p] fraction bits, [eb] exponent bits and the given bias, of an integer |v| < 2^(p+1) *)
Definition fl_word (p eb bias v : Z) : Z :=
  if v =? 0 then 0 else
  let m := Z.abs v in
  let e := Z.log2 m in
  (if v <? 0 then 2 ^ (p + eb) else 0) + (e + bias) * 2 ^ p + (m * 2 ^ (p - e) - 2 ^ p).
(** value of such a word when it is an integer (zero, or a normal number with unbiased exponent in [0, p]) *)
Definition fl_val (p eb bias w : Z) : Z :=
  let s := w / 2 ^ (p + eb) in
  let E := (w / 2 ^ p) mod 2 ^ eb in
  let f := w mod 2 ^ p in
  if E =? 0 then 0 else
  let mag := (2 ^ p + f) / 2 ^ (p - (E - bias)) in
  if s =? 0 then mag else - mag.

Definition enc (dt : dtype) (v : Z) : list Z :=
  match dt with
  | U8 => le_bytes 1 (v mod 256)
  | U16 => le_bytes 2 (v mod 65536)
  | I64 => le_bytes 8 (v mod 2 ^ 64)
  | F32 => le_bytes 4 (fl_word 23 8 127 v)
  | F64 => le_bytes 8 (fl_word 52 11 1023 v)
  end.
Definition dec (dt : dtype) (b : list Z) : Z :=
  let w := le_val b in
  match dt with
  | U8 | U16 => w
  | I64 => if w <? 2 ^ 63 then w else w - 2 ^ 64
  | F32 => fl_val 23 8 127 w
  | F64 => fl_val 52 11 1023 w
  end.

(** values a dtype holds exactly (integers) *)
Definition in_dtype (dt : dtype) (v : Z) : Prop :=
  match dt with
  | U8 => 0 <= v < 256 | U16 => 0 <= v < 65536 | I64 => - 2 ^ 63 <= v < 2 ^ 63
  | F32 => Z.abs v < 2 ^ 24 | F64 => Z.abs v < 2 ^ 53
  end.
(** values representable at a file depth: 0 .. 2^nbits - 1 for the integer depths, float32 integers at 32 bits *)
Definition repr_at (nbits v : Z) : Prop := if nbits <=? 16 then 0 <= v < 2 ^ nbits else Z.abs v < 2 ^ 24.

(** ndarray.astype on integer-valued samples: integer targets wrap, float targets keep the value (exact within the
    integer range of the format, which is all the theorems use) *)
Definition cast (dst : dtype) (v : Z) : Z :=
  match dst with
  | U8 => v mod 256 | U16 => v mod 65536
  | I64 => let w := v mod 2 ^ 64 in if w <? 2 ^ 63 then w else w - 2 ^ 64
  | F32 | F64 => v
  end.

(** * arrays, tofile, fromfile *)
Record nd := mknd { nd_dt : dtype; nd_vals : list Z }.
Definition nd_size (a : nd) : Z := len (nd_vals a).
Definition tofile (a : nd) : list Z := flat_map (enc (nd_dt a)) (nd_vals a).
Definition astype (dt : dtype) (a : nd) : nd := mknd dt (map (cast dt) (nd_vals a)).

Fixpoint chunks (k n : nat) (l : list Z) : list (list Z) :=
  match n with O => [] | S n' => firstn k l :: chunks k n' (skipn k l) end.
(** np.fromfile(dtype): as many whole items as the bytes hold *)
Definition fromfile (dt : dtype) (b : list Z) : list Z :=
  map (dec dt) (chunks (Z.to_nat (itemsize dt)) (Z.to_nat (len b / itemsize dt)) b).

(** * FileWriter.cwrite (rescale = False, the default of prep_outfile) *)
Definition prepare (m : wmode) (fdt : dtype) (a : nd) : option nd :=
  match m with
  | AsIs => Some a
  | Convert => Some (astype fdt a)
  | Refuse => if dtype_eqb (nd_dt a) fdt then Some a else None
  end.

(** [None]: an exception (BitsInfo refuses the depth; pack's ValueError on a non-uint8 array; an explicit refusal) *)
Definition cwrite (cfg : wcfg) (nbits : Z) (a : nd) : option (list Z) :=
  match file_dtype nbits with
  | None => None
  | Some fdt =>
      if bit_unpack nbits then
        match prepare (cw_sub cfg) fdt a with
        | None => None
        | Some a' =>
            if pack_chk cfg && negb (dtype_eqb (nd_dt a') U8) then None
            else let m := pack_len (nd_size a') (bitfact nbits) in
                 Some (to_list m (pack_run nbits (bitorder_big nbits) m (of_list (nd_vals a')) zeros))
        end
      else match prepare (cw_wide cfg) fdt a with
           | None => None
           | Some a' => Some (tofile a')
           end
  end.

(** a configuration under which nothing is ever written at a width other than the declared one *)
Definition sound_cfg (cfg : wcfg) : bool := match cw_wide cfg with AsIs => false | _ => true end.

(** * prep_outfile + cwrite + close, and FilReader on the product *)
(** the file on disk: the encoded header [hdr] (whatever bytes) followed by what cwrite wrote *)
Definition write_fil (cfg : wcfg) (nbits : Z) (hdr : list Z) (a : nd) : option file :=
  match cwrite cfg nbits a with None => None | Some b => Some (mkfile hdr b) end.

(** FilReader(file): header.nsamples from the file length; read_block(0, nsamples) through the C02 reader;
    result: (inferred nsamples, the samples in file order).  Element (c, t) of the block is item
    [block_index nchans c t] of that list. *)
Definition decode (nbits : Z) (fdt : dtype) (b : list Z) : list Z :=
  if bit_unpack nbits
  then to_list (bitfact nbits * len b) (unpack_run nbits (bitorder_big nbits) (len b) (of_list b) zeros)
  else fromfile fdt b.
Definition read_fil (nbits nchans : Z) (f : file) : option (Z * list Z) :=
  match file_dtype nbits with
  | None => None
  | Some fdt =>
      let nsamples := infer_nsamples (datalen f) nbits nchans in
      let stride := samp_stride nchans (itemsize fdt) (bitfact nbits) in
      match read_block_bytes [f] stride nsamples 0 nsamples with
      | OBytes b => Some (nsamples, decode nbits fdt b)
      | _ => None
      end
  end.

(** * series formats (.tim, .dat, .spec, .fft): the bytes of the product, and the matching reader *)
Definition write_series (cfg : wcfg) (f : sfmt) (hdr : list Z) (vals : list Z) : option (list Z) :=
  let a := mknd (w_dt f) vals in
  match (if w_cwrite f then cwrite cfg 32 a else Some (tofile a)) with
  | None => None
  | Some b => Some ((if w_hdr f then hdr else []) ++ b)
  end.
(** [parsed]: what parsing a SIGPROC header at the start of the product yields ([Some] header length, or [None]:
    OSError); [nbits_hdr]: the depth that header declares *)
Definition read_series (f : sfmt) (parsed : option Z) (nbits_hdr : Z) (product : list Z) : option (list Z) :=
  match (match r_dt f with Some d => Some d | None => file_dtype nbits_hdr end) with
  | None => None
  | Some dt =>
      match (if r_skip f
             then match parsed with
                  | None => None
                  | Some h => Some (fromfile dt (skipn (Z.to_nat h) product))
                  end
             else Some (fromfile dt product)) with
      | None => None
      | Some l => if r_pairs f && Z.odd (len l) then None (* data.view(np.complex64): ValueError *) else Some l
      end
  end.
Definition sound_fmt (f : sfmt) : bool := Bool.eqb (w_hdr f) (r_skip f).
