(** Hand-written executable model of the multi-file reader of io/fileio.py (FileBase / FileReader):
    files are header bytes followed by data bytes; the state is (index of the open file, raw position in it).
    The seek arithmetic comes from Gen/Plan.v (regenerated from fileio.py); the loops of cread / creadinto are
    transcribed by hand with explicit fuel.  Definitions only. *)
From Coq Require Import ZArith List Bool.
Require Import SPP.Base.Rt SPP.Gen.Plan.
Import ListNotations.
Open Scope Z_scope.

Record file := mkfile { hdr : list Z; dat : list Z }.
Definition raw (f : file) : list Z := hdr f ++ dat f.
Definition hdrlen (f : file) : Z := Z.of_nat (length (hdr f)).
Definition datalen (f : file) : Z := Z.of_nat (length (dat f)).
Definition filelen (f : file) : Z := hdrlen f + datalen f.
Definition nofile : file := mkfile [] [].
Definition fileat (fs : list file) (i : Z) : file := nth (Z.to_nat i) fs nofile.
Definition nfiles (fs : list file) : Z := Z.of_nat (length fs).

Fixpoint cumsum_from (acc : Z) (l : list Z) : list Z :=
  match l with [] => [] | x :: r => (acc + x) :: cumsum_from (acc + x) r end.
(** StreamInfo.cumsum_datalens and get_combined("datalen") *)
Definition cumsum (fs : list file) : list Z := cumsum_from 0 (map datalen fs).
Definition total (fs : list file) : Z := fold_right Z.add 0 (map datalen fs).

Inductive err := ValueError | OutOfFuel.
Inductive out := OUnit | OBytes (l : list Z) | OErr (e : err).

Record st := mkst { ifile : Z; pos : Z }.

Definition slice (l : list Z) (a n : Z) : list Z := firstn (Z.to_nat n) (skipn (Z.to_nat a) l).
Definition len (l : list Z) : Z := Z.of_nat (length l).

(** FileReader._seek2hdr: open file [i] (ValueError from _open when out of range), go to its header end *)
Definition seek2hdr (fs : list file) (i : Z) : option st :=
  if (0 <=? i) && (i <? nfiles fs) then Some (mkst i (hdrlen (fileat fs i))) else None.

(** FileReader._seek_set *)
Definition seek_set_op (fs : list file) (s : st) (off : Z) : st * out :=
  match seek_set off (total fs) (cumsum fs) with
  | None => (s, OErr ValueError)
  | Some (fid, fo) =>
      match seek2hdr fs fid with
      | Some s' => (mkst fid (pos s' + fo), OUnit)
      | None => (s, OErr ValueError)
      end
  end.

(** FileReader.cur_data_pos_stream *)
Definition stream_pos (fs : list file) (s : st) : Z :=
  cur_data_pos_stream (ifile s) (pos s) (hdrlen (fileat fs (ifile s))) (cumsum fs).

Definition seek_cur_op (fs : list file) (s : st) (off : Z) : st * out :=
  seek_set_op fs s (off + stream_pos fs s).

(** FileReader.cread(nunits) on a reader whose items are [isz] bytes wide ([count] in items):
      while count >= 0: count_read = min(datalen(cur), count); data_read = fromfile(count_read);
                        count -= len(data_read); if count == 0: break; _seek2hdr(cur + 1) *)
Fixpoint cread_loop (fuel : nat) (fs : list file) (isz : Z) (s : st) (count : Z) (acc : list Z) : st * out :=
  match fuel with
  | O => (s, OErr OutOfFuel)
  | S fuel' =>
      let f := fileat fs (ifile s) in
      let count_read := Z.min (datalen f) count in
      let avail := (filelen f - pos s) / isz in
      let k := Z.min count_read (Z.max 0 avail) in
      let data := slice (raw f) (pos s) (k * isz) in
      let s' := mkst (ifile s) (pos s + k * isz) in
      let count' := count - k in
      if count' =? 0 then (s', OBytes (acc ++ data))
      else match seek2hdr fs (ifile s + 1) with
           | Some s'' => cread_loop fuel' fs isz s'' count' (acc ++ data)
           | None => (s', OErr ValueError)
           end
  end.
Definition cread (fs : list file) (isz : Z) (s : st) (nitems : Z) : st * out :=
  cread_loop (S (length fs)) fs isz s nitems [].

(** FileReader.creadinto(buffer of n bytes):
      while True: nbytes += readinto(view[nbytes:]); if nbytes == n or eos(): break; _seek2hdr(cur + 1) *)
Fixpoint creadinto_loop (fuel : nat) (fs : list file) (s : st) (n : Z) (acc : list Z) : st * out :=
  match fuel with
  | O => (s, OErr OutOfFuel)
  | S fuel' =>
      let f := fileat fs (ifile s) in
      let k := Z.min (n - len acc) (Z.max 0 (filelen f - pos s)) in
      let data := slice (raw f) (pos s) k in
      let s' := mkst (ifile s) (pos s + k) in
      let acc' := acc ++ data in
      if (len acc' =? n) || ((pos s' =? filelen f) && (ifile s =? nfiles fs - 1)) then (s', OBytes acc')
      else match seek2hdr fs (ifile s + 1) with
           | Some s'' => creadinto_loop fuel' fs s'' n acc'
           | None => (s', OErr ValueError)
           end
  end.
Definition creadinto (fs : list file) (s : st) (n : Z) : st * out :=
  creadinto_loop (S (length fs)) fs s n [].

Inductive op := SeekSet (o : Z) | SeekCur (o : Z) | Cread (n : Z) | Creadinto (n : Z).

Definition step (fs : list file) (isz : Z) (s : st) (o : op) : st * out :=
  match o with
  | SeekSet off => seek_set_op fs s off
  | SeekCur off => seek_cur_op fs s off
  | Cread n => cread fs isz s n
  | Creadinto n => creadinto fs s n
  end.

(** FileBase.__init__ opens file 0 at raw position 0; FilReader always seeks before reading.  The model's
    initial state is the state after [_seek2hdr(0)]. *)
Definition init (fs : list file) : st := mkst 0 (hdrlen (fileat fs 0)).

Fixpoint run (fs : list file) (isz : Z) (s : st) (ops : list op) : list (out * Z) :=
  match ops with
  | [] => []
  | o :: r => let '(s', res) := step fs isz s o in (res, stream_pos fs s') :: run fs isz s' r
  end.

(** * Specification: one flat byte array and a position *)
Definition flat (fs : list file) : list Z := concat (map dat fs).

Definition spec_step (fl : list Z) (isz : Z) (p : Z) (o : op) : Z * out :=
  match o with
  | SeekSet off => if (0 <=? off) && (off <? len fl) then (off, OUnit) else (p, OErr ValueError)
  | SeekCur off => if (0 <=? off + p) && (off + p <? len fl) then (off + p, OUnit) else (p, OErr ValueError)
  | Cread n => if p + n * isz <=? len fl then (p + n * isz, OBytes (slice fl p (n * isz))) else (len fl, OErr ValueError)
  | Creadinto n => let k := Z.min n (len fl - p) in (p + k, OBytes (slice fl p k))
  end.

Fixpoint spec_run (fl : list Z) (isz : Z) (p : Z) (ops : list op) : list (out * Z) :=
  match ops with
  | [] => []
  | o :: r => let '(p', res) := spec_step fl isz p o in (res, p') :: spec_run fl isz p' r
  end.

(** FilReader.read_block for byte-wide samples: range check, absolute seek to start*nchans, counted read of
    nchans*nsamps items (the reshape(nsamps, nchans).transpose() of the result is an index map:
    element (c, t) of the block is item t*nchans + c of the returned bytes). *)
Definition read_block_bytes (fs : list file) (nchans nsamples start nsamps : Z) : out :=
  if (start <? 0) || (start + nsamps >? nsamples) then OErr ValueError else
  let '(s1, r1) := seek_set_op fs (init fs) (start * nchans) in
  match r1 with OErr e => OErr e | _ => snd (cread fs 1 s1 (nchans * nsamps)) end.
