(** C20 -- hand-written executable model of what reaches the disk while a streaming writer runs, and of what the
    library's reader makes of a file of any length.

    Writer side.  The bytes of ONE output path are a list; a writer holds a position and, if the opener is a buffered
    one, bytes it has accepted but not yet put on disk.  What a writer call does to the file object is NOT written here:
    it is the list of primitive operations regenerated from io/fileio.py, header.py and the call sites of base.py /
    block.py / timeseries.py (Gen/C20Sites.v).  The model only gives those primitives their meaning (POSIX semantics of
    open-with-mode, write-at-position, seek, truncate, close; a buffered opener delays every write until a flush).

    Reader side.  FilReader on a file of [L] bytes: the sample count is the arithmetic regenerated from parse_header,
    read_block is range check + absolute seek + counted read (Model/Stream.v) with the item size / bit factor / stride
    regenerated from io/bits.py and readers.py.  Definitions only. *)
From Coq Require Import ZArith List Bool.
Require Import SPP.Base.Rt SPP.Gen.Plan SPP.Gen.C20Sites SPP.Model.Stream.
Import ListNotations.
Open Scope Z_scope.

(** * the output path *)
Record ofile := mkof { disk : list Z;      (* what a crash would leave / what another process sees *)
                       pend : list Z;      (* accepted by a buffered writer, not on disk yet *)
                       fpos : Z;           (* position of the file object *)
                       isopen : bool }.

Inductive prim := POpen (m : omode) | PPut (b : list Z) | PSeek0 | PSeekEnd | PTrunc0 | PClose.

(** write [b] at position [p] of [l]: bytes there are overwritten, a gap is zero-filled, the file grows as needed *)
Definition put_at (l : list Z) (p : Z) (b : list Z) : list Z :=
  firstn (Z.to_nat p) l ++ repeat 0 (Z.to_nat p - length l) ++ b ++ skipn (Z.to_nat p + length b) l.

Definition flush (s : ofile) : ofile :=
  match pend s with
  | [] => s
  | _ => mkof (put_at (disk s) (fpos s) (pend s)) [] (fpos s + len (pend s)) (isopen s)
  end.

(** [unbuf]: the opener is a raw unbuffered file (io.FileIO), every write is a write(2) *)
Definition pstep (unbuf : bool) (s : ofile) (p : prim) : ofile :=
  match p with
  | POpen MTrunc => mkof [] [] 0 true
  | POpen MAppend => mkof (disk s) [] (len (disk s)) true
  | POpen MKeep => mkof (disk s) [] 0 true
  | PPut b => let s' := mkof (disk s) (pend s ++ b) (fpos s) (isopen s) in if unbuf then flush s' else s'
  | PSeek0 => let s' := flush s in mkof (disk s') [] 0 (isopen s')
  | PSeekEnd => let s' := flush s in mkof (disk s') [] (len (disk s')) (isopen s')
  | PTrunc0 => let s' := flush s in mkof [] [] (fpos s') (isopen s')
  | PClose => let s' := flush s in mkof (disk s') [] (fpos s') false
  end.

(** before the call: whatever was at the path ([old]), nobody has it open *)
Definition start_of (old : list Z) : ofile := mkof old [] 0 false.
Definition run_prims (unbuf : bool) (old : list Z) (ps : list prim) : ofile := fold_left (pstep unbuf) ps (start_of old).

(** * from the regenerated call lists to primitives *)
Definition prims_of_fop (payload : list Z) (f : fop) : list prim :=
  match f with
  | FOpen => [POpen prep_mode]
  | FPut => [PPut payload]
  | FSeek0 => [PSeek0]
  | FSeekEnd => [PSeekEnd]
  | FTrunc0 => [PTrunc0]
  | FClose => [PClose]
  | FReopen => [PClose; POpen prep_mode]
  end.
Definition prims_of_fops (payload : list Z) (l : list fop) : list prim := flat_map (prims_of_fop payload) l.

(** [h]: the encoded header (the only raw write a site makes is prep_outfile's); [b]: the bytes of the current block *)
Definition prims_of_call0 (h b : list Z) (c : wcall) : list prim :=
  match c with
  | KInit => prims_of_fops [] fops_init
  | KWrite => prims_of_fops h fops_write
  | KCwrite => prims_of_fops b fops_cwrite
  | KClose => prims_of_fops [] fops_close
  | KExit => prims_of_fops [] fops_exit
  | KPrep => []
  | KBad => [PSeek0; PTrunc0]          (* an operation the translator could not classify: worst case *)
  end.
Definition prims_of_call (h b : list Z) (c : wcall) : list prim :=
  match c with
  | KPrep => flat_map (prims_of_call0 h b) calls_prep
  | _ => prims_of_call0 h b c
  end.

(** the writer trace of a site: what precedes the data, then the loop body once per block in loop order, then what follows *)
Definition trace (s : site) (h : list Z) (bs : list (list Z)) : list prim :=
  flat_map (prims_of_call h []) (s_pre s) ++
  flat_map (fun b => flat_map (prims_of_call h b) (s_loop s)) bs ++
  flat_map (prims_of_call h []) (s_post s).

(** the state of the output path at a crash point: after the first [k] primitive operations of the call *)
Definition at_crash (s : site) (old h : list Z) (bs : list (list Z)) (k : nat) : ofile :=
  run_prims opener_unbuffered old (firstn k (trace s h bs)).
Definition on_return (s : site) (old h : list Z) (bs : list (list Z)) : ofile :=
  run_prims opener_unbuffered old (trace s h bs).

(** the shape every site of the library is expected to have (what Proofs/C20_trace.v needs of a descriptor) *)
Definition site_ok (s : site) : Prop :=
  s_pre s = [KPrep] /\ s_loop s = [KCwrite] /\ (s_post s = [] \/ s_post s = [KClose] \/ s_post s = [KExit]).

(** the normal form of such a trace *)
Definition closes (s : site) : bool := match s_post s with [] => false | _ => true end.
Definition norm_trace (h : list Z) (bs : list (list Z)) (c : bool) : list prim :=
  [POpen MTrunc; PPut h] ++ map PPut bs ++ (if c then [PClose] else []).

(** * the reader on a file of [L] bytes whose first [len h] bytes are the header *)
Definition cut (h d : list Z) (L : Z) : file := mkfile h (firstn (Z.to_nat (L - len h)) d).

(** header.nsamples as FilReader sees it (parse_header) *)
Definition open_nsamples (f : file) (nbits nchans : Z) : Z :=
  infer_nsamples (infer_datalen (filelen f) (hdrlen f)) nbits nchans.

(** FilReader.read_block(start, nsamps) on a single file, any depth: the raw items read (before the per-byte unpack) *)
Definition read_block_file (f : file) (nbits nchans nsamples start nsamps : Z) : out :=
  if (start <? 0) || (start + nsamps >? nsamples) then OErr ValueError else
  let isz := itemsize nbits in
  let bf := bitfact nbits in
  let stride := samp_stride nchans isz bf in
  let '(s1, r1) := seek_set_op [f] (init [f]) (rb_seek start stride) in
  match r1 with
  | OErr e => OErr e
  | _ => snd (cread [f] isz s1 (cread_count (rb_units nchans nsamps) bf))
  end.

(** bytes per sample when a sample is a whole number of bytes *)
Definition sbytes (nbits nchans : Z) : Z := nchans * nbits / 8.
