(** C09 -- fixed record of two forms found in the pinned tree (fc376ec), kept only so that the refutation
    witnesses in Proofs/C09_refuted.v stay checkable after the source has been repaired (Gen/C09.v always
    follows the current source).  Definitions only.

    kernels.dmt_block_valid as pinned: every row is cut to the window valid for THAT row
    (roll_block_valid(arr, dm_delays[idm])), then stored into a result sized for the whole table. *)
From Coq Require Import ZArith List Bool.
Require Import SPP.Base.Rt SPP.Model.C09_Arr2 SPP.Gen.C09.
Import ListNotations.
Open Scope Z_scope.

Definition dmt_block_valid_pinned (junk_res : arr2) (junk_call : Z -> arr2) (arr_ : arr2) (arr__nrows arr__ncols : Z)
    (dm_delays : arr2) (dm_delays_nrows dm_delays_ncols : Z) : option arr2 :=
  if (negb (arr__nrows =? dm_delays_ncols)) then None else
  let nsamps := arr__ncols in
  let ndms := dm_delays_nrows in
  let max_pos_shift := (Z.max 0 (amax2 dm_delays_nrows dm_delays_ncols dm_delays)) in
  let min_neg_shift := (Z.min 0 (amin2 dm_delays_nrows dm_delays_ncols dm_delays)) in
  let valid_samples := ((nsamps + min_neg_shift) - max_pos_shift) in
  if (valid_samples <=? 0) then None else
  let res := junk_res in
  do res <- iter_opt (Z.to_nat ndms) (fun idm res =>
      do tmp0 <- roll_block_valid_run (junk_call idm) arr_ arr__nrows arr__ncols (dm_delays idm) dm_delays_ncols;
      do res <- set_row res valid_samples idm (sum_axis0 (roll_block_valid_shape arr_ arr__nrows arr__ncols (dm_delays idm) dm_delays_ncols) tmp0);
      Some res) res;
  Some res.
