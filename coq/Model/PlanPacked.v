(** read_plan at the packed depths (1, 2, 4 bits): the byte-level plan runs with samp_stride = nchans*nbits/8 bytes per
    sample (expected_nbytes = int(block * chan_stride), seeks in bytes), and every block read is unpacked into the (reused,
    hence arbitrary) unpack buffer by the generated kernels of Gen/Kernels.v (dispatch of io/bits.py).  Definitions only. *)
From Coq Require Import ZArith List Bool.
Require Import SPP.Base.Rt SPP.Gen.Kernels SPP.Model.Bits SPP.Model.Stream SPP.Model.Plan.
Import ListNotations.
Open Scope Z_scope.

Definition samp_bytes (nch nbits : Z) : Z := nch * nbits / 8.

Definition unpack_block (nbits : Z) (big : bool) (junk : arr) (b : Z * Z * list Z) : Z * Z * list Z :=
  let '(n_r, ii, d) := b in
  (n_r, ii, to_list (len d * bf nbits) (unpack_run nbits big (len d) (of_list d) junk)).

Definition run_plan_packed (fs : list file) (nch nbits : Z) (big : bool) (gulp start nsamps skipback : Z) (junk : arr) : ptrace :=
  match run_plan fs (samp_bytes nch nbits) gulp start nsamps skipback with
  | POk bl => POk (map (unpack_block nbits big junk) bl)
  | PErr bl e => PErr (map (unpack_block nbits big junk) bl) e
  end.

(** the unpacked samples of the set: sample k is field (k mod (8/nbits)) of data byte k / (8/nbits) *)
Definition packed_sample (fs : list file) (nbits : Z) (big : bool) (k : Z) : Z :=
  field nbits big (nth (Z.to_nat (k / bf nbits)) (flat fs) 0) (k mod bf nbits).
