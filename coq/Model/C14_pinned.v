(** FROZEN COPY (not regenerated) of what tools/py2coq/gen_c14.py emits for kernels.detrend_1d of the PINNED tree
    (commit fc376ec), kept to record, inside Coq, the two defects of that version that the check found:
      - the closed form  m * (m - 1) * (2 * m - 1)  is evaluated in int64 and wraps for m > 1664511;
      - for integer input the trend and the difference are converted to the input dtype ([cast_in]).
    The live definition is [SPP.Gen.C14_stats.detrend_1d_run]; see findings.d/C14.md.  DEFINITIONS ONLY. *)
From Coq Require Import ZArith QArith List Bool.
Require Import SPP.Base.Rt SPP.Gen.C14_stats.
Open Scope Q_scope.

Definition detrend_1d_pinned (cast_in : Q -> Q) (arr_size : Z) (arr_ : Z -> Q) : Z -> Q :=
  let m := arr_size in
  if (m =? 1)%Z then (fun k => 0) else
  let x_sum := (inject_Z ((wrap64 (m * (wrap64 (m - 1)))))%Z / 2) in
  let y_sum := 0 in
  let x_sq_sum := (inject_Z ((wrap64 ((wrap64 (m * (wrap64 (m - 1)))) * (wrap64 ((wrap64 (2 * m)) - 1)))))%Z / 6) in
  let x_y_sum := 0 in
  let '(y_sum, x_y_sum) := iter (Z.to_nat m) (fun i '(y_sum, x_y_sum) => (y_sum + (arr_ (i)%Z), x_y_sum + (inject_Z i * (arr_ (i)%Z)))) (y_sum, x_y_sum) in
  let slope := (((inject_Z m * x_y_sum) - (x_sum * y_sum)) / ((inject_Z m * x_sq_sum) - (x_sum * x_sum))) in
  let intercept := ((y_sum - (slope * x_sum)) / inject_Z m) in
  let trend : Z -> Q := fun k => ((slope * cast_in (inject_Z k)) + intercept) in
  (fun k => cast_in ((arr_ k - cast_in (trend k)))).

(** conversion of a float64 value to uint8 as the compiled code does it for in-range and wrapped values:
    truncate towards zero, keep the low 8 bits *)
Definition cast_u8 (q : Q) : Q := inject_Z ((Qnum q ÷ Zpos (Qden q)) mod 256)%Z.
