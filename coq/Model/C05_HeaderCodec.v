(** Hand-written executable model for C05: the SIGPROC header codec of sigpyproc/io/sigproc.py over byte lists
    ([_read_string], [encode_key], [encode_header], [parse_header], [edit_header]).  The tables and the way
    [encode_key] computes its length prefixes come from Gen/C05Header.v (regenerated from the source on every run);
    the text of the modelled functions is pinned by the generator.  Definitions only.

    Conventions: a byte is a [Z] in 0..255; a Python [str] is the list of its UTF-8 bytes ([str.encode] /
    [bytes.decode] are inverse on valid UTF-8 -- trusted); a double is the opaque list of its 8 bytes
    ([struct.pack('d')] / [struct.unpack('d')] are inverse on finite doubles -- trusted); [None] stands for
    "the Python function raises". *)
From Coq Require Import ZArith List Bool.
Require Import SPP.Gen.C05Header.
Import ListNotations.
Open Scope Z_scope.

Definition bytes := list Z.

Fixpoint bytes_eqb (a b : bytes) : bool :=
  match a, b with
  | [], [] => true
  | x :: a', y :: b' => (x =? y) && bytes_eqb a' b'
  | _, _ => false
  end.

Definition blen (s : bytes) : Z := Z.of_nat (length s).

(** [len(str)]: the number of characters of a valid UTF-8 string is the number of its bytes that are not
    continuation bytes (0x80..0xBF) *)
Definition is_cont (b : Z) : bool := (128 <=? b) && (b <? 192).
Definition py_len (s : bytes) : Z := Z.of_nat (length (filter (fun b => negb (is_cont b)) s)).
Definition no_cont (s : bytes) : bool := forallb (fun b => negb (is_cont b)) s.

(** [bytes.decode()] (UTF-8, errors="strict") succeeds exactly on the well-formed UTF-8 of the Unicode standard (table 3-7):
    no overlong forms (lead bytes C0, C1; E0 followed by 80..9F; F0 followed by 80..8F), no surrogates (ED followed by
    A0..BF), nothing beyond U+10FFFF (F4 followed by 90..BF; lead bytes F5..FF), no truncated or stray continuation *)
Fixpoint valid_utf8 (s : bytes) : bool :=
  match s with
  | [] => true
  | b0 :: r0 =>
    if (0 <=? b0) && (b0 <? 128) then valid_utf8 r0
    else if (194 <=? b0) && (b0 <? 224) then
      match r0 with
      | b1 :: r1 => is_cont b1 && valid_utf8 r1
      | _ => false
      end
    else if (224 <=? b0) && (b0 <? 240) then
      match r0 with
      | b1 :: b2 :: r2 =>
          is_cont b1 && is_cont b2 && (if b0 =? 224 then 160 <=? b1 else if b0 =? 237 then b1 <? 160 else true) && valid_utf8 r2
      | _ => false
      end
    else if (240 <=? b0) && (b0 <? 245) then
      match r0 with
      | b1 :: b2 :: b3 :: r3 =>
          is_cont b1 && is_cont b2 && is_cont b3 && (if b0 =? 240 then 144 <=? b1 else if b0 =? 244 then b1 <? 144 else true)
          && valid_utf8 r3
      | _ => false
      end
    else false
  end.

(** struct.pack("I", n) on a little-endian machine; struct.error outside [0, 2^32) *)
Definition le32 (n : Z) : bytes := [n mod 256; (n / 256) mod 256; (n / 256 / 256) mod 256; (n / 256 / 256 / 256) mod 256].
Definition pack_u32 (n : Z) : option bytes := if (0 <=? n) && (n <? 4294967296) then Some (le32 n) else None.

(** the length-prefixed string as [encode_key] writes it; [chars] = the prefix is [len(str)] *)
Definition enc_string (chars : bool) (s : bytes) : option bytes :=
  match pack_u32 (if chars then py_len s else blen s) with
  | Some p => Some (p ++ s)
  | None => None
  end.

(** header values as Python sees them: int, float (8 opaque bytes), str, None *)
Inductive value : Set := VInt (n : Z) | VDbl (w : bytes) | VStr (s : bytes) | VNone.

Definition header := list (bytes * value).

Fixpoint lookup {A : Type} (k : bytes) (tbl : list (bytes * A)) : option A :=
  match tbl with
  | [] => None
  | (k', a) :: r => if bytes_eqb k k' then Some a else lookup k r
  end.

(** [d[k] = v] on an insertion-ordered dict *)
Fixpoint dict_set (d : header) (k : bytes) (v : value) : header :=
  match d with
  | [] => [(k, v)]
  | (k', v') :: r => if bytes_eqb k k' then (k', v) :: r else (k', v') :: dict_set r k v
  end.

(** the value part of [encode_key(key, value, value_type)].  The two booleans [kc], [vc] of this and the following
    definitions say whether the length prefix of the key / of a string value counts characters; the instances
    for the current source are [encode_header] and [edit_header] below ([keylen_chars], [vallen_chars] are
    read off [encode_key] by the generator). *)
Definition enc_value (vc : bool) (t : hty) (v : value) : option bytes :=
  match v with
  | VNone => Some []                                    (* value is None: the key alone *)
  | VStr s => match t with Tstr => enc_string vc s | _ => None end
  | VInt n => match t with
              | Tb => if (-128 <=? n) && (n <=? 127) then Some [n mod 256] else None
              | TI => pack_u32 n
              | Td => None      (* struct converts the int to a double: conversion not modelled *)
              | Tstr => None    (* struct.pack("str", n): bad char in struct format *)
              end
  | VDbl w => match t with Td => Some w | _ => None end
  end.

(** the loop of [encode_header]: keys outside the table are skipped *)
Fixpoint encode_entries (kc vc : bool) (h : header) : option bytes :=
  match h with
  | [] => Some []
  | (k, v) :: r =>
      match lookup k header_keys with
      | None => encode_entries kc vc r
      | Some t =>
          match enc_string kc k, enc_value vc t v, encode_entries kc vc r with
          | Some a, Some b, Some c => Some (a ++ b ++ c)
          | _, _, _ => None
          end
      end
  end.

Definition encode_header_with (kc vc : bool) (h : header) : option bytes :=
  match enc_string kc kw_header_start, encode_entries kc vc h, enc_string kc kw_header_end with
  | Some a, Some b, Some c => Some (a ++ b ++ c)
  | _, _, _ => None
  end.
Definition encode_header : header -> option bytes := encode_header_with keylen_chars vallen_chars.

(** * Reading *)
Definition read_u32 (l : bytes) : option (Z * bytes) :=
  match l with
  | a :: b :: c :: d :: r => Some (a + 256 * b + 65536 * c + 16777216 * d, r)
  | _ => None                                           (* struct.error: short read *)
  end.

(** [_read_string]: a short [fp.read(strlen)] is not an error in Python; the model follows.  ([Z.min] only keeps
    the unary count small when a corrupt prefix announces gigabytes: [firstn n r = firstn (min n |r|) r].)
    [.decode()] raises UnicodeDecodeError on bytes that are not well-formed UTF-8. *)
Definition read_string (l : bytes) : option (bytes * bytes) :=
  match read_u32 l with
  | Some (n, r) => let m := Z.to_nat (Z.min n (blen r)) in
                   if valid_utf8 (firstn m r) then Some (firstn m r, skipn m r) else None
  | None => None
  end.

Definition read_value (t : hty) (l : bytes) : option (value * bytes) :=
  match t with
  | Tstr => match read_string l with Some (s, r) => Some (VStr s, r) | None => None end
  | TI => match read_u32 l with Some (n, r) => Some (VInt n, r) | None => None end
  | Tb => match l with x :: r => Some (VInt (if x <? 128 then x else x - 256), r) | [] => None end
  | Td => if (8 <=? blen l) then Some (VDbl (firstn 8 l), skipn 8 l) else None
  end.

(** the [while True] loop of [parse_header]; every iteration consumes at least four bytes, so
    [length l + 1] iterations always suffice (shown in Proofs/C05_codec.v for well-formed headers) *)
Fixpoint parse_loop (fuel : nat) (l : bytes) (acc : header) : option (header * bytes) :=
  match fuel with
  | O => None
  | S f =>
      match read_string l with
      | None => None
      | Some (k, r) =>
          if bytes_eqb k kw_header_end then Some (acc, r)
          else match lookup k header_keys with
               | None => None                           (* KeyError *)
               | Some t => match read_value t r with
                           | None => None
                           | Some (v, r') => parse_loop f r' (dict_set acc k v)
                           end
               end
      end
  end.

(** after the loop [parse_header] evaluates [8 * datalen // int(header["nbits"]) // int(header["nchans"])]:
    KeyError when one of the two keys is absent, ZeroDivisionError when one is zero *)
Definition int_field (h : header) (k : bytes) : option Z :=
  match lookup k h with Some (VInt n) => Some n | _ => None end.
Definition has_layout (h : header) : bool :=
  match int_field h key_nbits, int_field h key_nchans with
  | Some b, Some c => negb (b =? 0) && negb (c =? 0)
  | _, _ => false
  end.

(** [parse_header]: the dictionary of recognised keys and [hdrlen] *)
Definition parse_header (file : bytes) : option (header * Z) :=
  match read_string file with
  | None => None
  | Some (k, r) =>
      if bytes_eqb k kw_header_start
      then match parse_loop (S (length file)) r [] with
           | Some (h, rest) => if has_layout h then Some (h, blen file - blen rest) else None
           | None => None
           end
      else None
  end.

(** * edit_header *)
(** [value[:oldlen] + " " * (oldlen - len(value))] ON CHARACTERS, as Python does it: [oldlen = len(header["source_name"])]
    and [len(value)] count characters (bytes that are not continuation bytes), the slice keeps the first [oldlen]
    characters with all their continuation bytes, the padding is [oldlen - len(value)] blanks (none when negative).
    For names without multi-byte characters this is [firstn]/[length] on bytes (Proofs/C05_chars.v: [pad_name_ascii]). *)
Definition nchars (s : bytes) : nat := length (filter (fun b => negb (is_cont b)) s).
Fixpoint take_chars (n : nat) (s : bytes) : bytes :=
  match s with
  | [] => []
  | b :: r => if is_cont b then b :: take_chars n r          (* belongs to the character taken last *)
              else match n with O => [] | S m => b :: take_chars m r end
  end.
Definition pad_name (old new : bytes) : bytes :=
  take_chars (nchars old) new ++ repeat 32 (nchars old - nchars new).

Definition edit_value (h : header) (k : bytes) (v : value) : option value :=
  if bytes_eqb k key_source_name then
    match v with
    | VStr s => match lookup key_source_name h with
                | Some (VStr old) => Some (VStr (pad_name old s))
                | _ => None                             (* KeyError: no source_name in the file *)
                end
    | _ => Some v
    end
  else Some v.

(** [Some file'] : the call returns and the file now holds [file']; [None] : the call raises.  In the source
    the only write ([fp.write(new_hdr)] at offset 0) sits after every statement that can raise. *)
Definition edit_header_with (kc vc : bool) (file : bytes) (k : bytes) (v : value) : option bytes :=
  match lookup k header_keys with
  | None => None                                        (* not a valid sigproc key *)
  | Some _ =>
      match parse_header file with
      | None => None
      | Some (h, hdrlen) =>
          match edit_value h k v with
          | None => None
          | Some v' =>
              match encode_header_with kc vc (dict_set h k v') with
              | None => None
              | Some nb => if blen nb =? hdrlen then Some (nb ++ skipn (length nb) file) else None
              end
          end
      end
  end.

Definition edit_header : bytes -> bytes -> value -> option bytes := edit_header_with keylen_chars vallen_chars.

(** content of the file after the call, whether it returned or raised *)
Definition file_after_edit (file : bytes) (k : bytes) (v : value) : bytes :=
  match edit_header file k v with Some f => f | None => file end.

(** * The SIGPROC layout itself (independent of how encode_key computes lengths) *)
Definition fmt_string (s : bytes) : bytes := le32 (blen s) ++ s.

Definition fmt_value (t : hty) (v : value) : bytes :=
  match t, v with
  | Tb, VInt n => [n mod 256]
  | TI, VInt n => le32 n
  | Td, VDbl w => w
  | Tstr, VStr s => fmt_string s
  | _, _ => []
  end.

Definition type_of (k : bytes) : hty := match lookup k header_keys with Some t => t | None => Tstr end.

Definition fmt_entry (e : bytes * value) : bytes := fmt_string (fst e) ++ fmt_value (type_of (fst e)) (snd e).

Definition fmt_entries (h : header) : bytes := flat_map fmt_entry h.

Definition fmt_header (h : header) : bytes :=
  fmt_string kw_header_start ++ fmt_entries h ++ fmt_string kw_header_end.

(** a value that the layout can carry in a field of type [t] *)
Definition wf_value (t : hty) (v : value) : Prop :=
  match t, v with
  | Tb, VInt n => -128 <= n <= 127
  | TI, VInt n => 0 <= n < 4294967296
  | Td, VDbl w => length w = 8%nat
  | Tstr, VStr s => blen s < 4294967296 /\ valid_utf8 s = true     (* a Python str: the UTF-8 of a code-point list *)
  | _, _ => False
  end.

Definition wf_entry (e : bytes * value) : Prop :=
  exists t, lookup (fst e) header_keys = Some t /\ wf_value t (snd e).

(** well-formed header: recognised keys, each at most once, values of the key's type *)
Definition wf_header (h : header) : Prop := NoDup (map fst h) /\ Forall wf_entry h.

(** string values that are the UTF-8 of some Python str *)
Definition value_utf8 (v : value) : bool := match v with VStr s => valid_utf8 s | _ => true end.

(** string values free of multi-byte characters *)
Definition value_no_cont (v : value) : bool := match v with VStr s => no_cont s | _ => true end.
Definition header_no_cont (h : header) : bool := forallb (fun e => value_no_cont (snd e)) h.

(** executable twin of [wf_header], used by the correspondence to classify cases *)
Definition wf_value_b (t : hty) (v : value) : bool :=
  match t, v with
  | Tb, VInt n => (-128 <=? n) && (n <=? 127)
  | TI, VInt n => (0 <=? n) && (n <? 4294967296)
  | Td, VDbl w => (blen w =? 8)
  | Tstr, VStr s => (blen s <? 4294967296) && valid_utf8 s
  | _, _ => false
  end.

(** * Statement abbreviation and witnesses used by Proofs/ and Props/ *)
(** what a returning call has done, as bytes: only the bytes of the value of [k] differ *)
Definition edit_rewrites_value (h : header) (data : bytes) (k : bytes) (v : value) (file' : bytes) : Prop :=
  exists h1 old h2 v' t,
    h = h1 ++ (k, old) :: h2 /\ lookup k header_keys = Some t /\ edit_value h k v = Some v' /\
    wf_value t old /\ wf_value t v' /\ wf_header (h1 ++ (k, v') :: h2) /\
    length (fmt_value t v') = length (fmt_value t old) /\
    file' = fmt_header (h1 ++ (k, v') :: h2) ++ data /\
    let pre := fmt_string kw_header_start ++ fmt_entries h1 ++ fmt_string k in
    let post := fmt_entries h2 ++ fmt_string kw_header_end ++ data in
    fmt_header h ++ data = pre ++ fmt_value t old ++ post /\ file' = pre ++ fmt_value t v' ++ post.


Definition k_nbits := key_nbits.
Definition k_nchans := key_nchans.
Definition k_rawdatafile : bytes := [114; 97; 119; 100; 97; 116; 97; 102; 105; 108; 101].

(** a header whose source name contains one two-byte character (U+00E9) *)
Definition h_nonascii : header :=
  [(key_source_name, VStr [195; 169]); (key_nbits, VInt 8); (key_nchans, VInt 4)].
Definition h_ascii : header :=
  [(k_rawdatafile, VStr [97; 98; 99; 100]); (key_nbits, VInt 8); (key_nchans, VInt 4)].

