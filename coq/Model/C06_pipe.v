(** Hand glue for the streaming reductions of base.py: "for each block yielded by read_plan call the
    generated per-block function with these arguments".  The per-block functions, output lengths and plan
    arguments are Gen.BaseSites (regenerated from base.py); the plan is Model.Plan.run_plan.  Definitions only. *)
From Coq Require Import ZArith List Bool.
Require Import SPP.Base.Rt SPP.Gen.Kernels SPP.Gen.Plan SPP.Gen.BaseSites SPP.Model.Stream SPP.Model.Plan.
Import ListNotations.
Open Scope Z_scope.

Definition collapse_step (nch gulp : Z) (out : arr) (b : Z * Z * list Z) : arr :=
  let '(n_r, ii, d) := b in collapse_block (of_list d) out nch n_r ii gulp.
Definition collapse_pipe (fs : list file) (nch gulp start nsamps : Z) : option arr :=
  match run_plan fs nch gulp start nsamps collapse_skipback with
  | POk bl => Some (fold_left (collapse_step nch gulp) bl zeros)
  | PErr _ _ => None
  end.

Definition bandpass_step (nch : Z) (st : arr * Z) (b : Z * Z * list Z) : arr * Z :=
  let '(n_r, ii, d) := b in bandpass_block (of_list d) (fst st) (snd st) nch n_r.
(** returns the accumulated sums and the number of samples seen (the final division is float) *)
Definition bandpass_pipe (fs : list file) (nch gulp start nsamps : Z) : option (arr * Z) :=
  match run_plan fs nch gulp start nsamps bandpass_skipback with
  | POk bl => Some (fold_left (bandpass_step nch) bl (zeros, 0))
  | PErr _ _ => None
  end.

Definition read_chan_step (nch gulp ichan : Z) (out : arr) (b : Z * Z * list Z) : arr :=
  let '(n_r, ii, d) := b in read_chan_block (of_list d) out nch n_r ii gulp ichan.
Definition read_chan_pipe (fs : list file) (nch gulp start nsamps ichan : Z) (junk : arr) : option arr :=
  match run_plan fs nch gulp start nsamps 0 with
  | POk bl => Some (fold_left (read_chan_step nch gulp ichan) bl junk)
  | PErr _ _ => None
  end.

(** gulp is rebound to max(2*max_delay, gulp) before the plan is made and before the offsets are computed *)
Definition dedisperse_step (nch gulp' md : Z) (delays : arr) (out : arr) (b : Z * Z * list Z) : arr :=
  let '(n_r, ii, d) := b in dedisperse_block (of_list d) out delays md nch n_r ii gulp'.
Definition dedisperse_pipe (fs : list file) (nch gulp start nsamps md : Z) (delays : arr) : option arr :=
  let gulp' := dedisperse_gulp md gulp in
  match run_plan fs nch gulp' start nsamps (dedisperse_skipback md) with
  | POk bl => Some (fold_left (dedisperse_step nch gulp' md delays) bl zeros)
  | PErr _ _ => None
  end.

(** the same reductions at the packed depths: the blocks are those of Model.PlanPacked.run_plan_packed *)
Require Import SPP.Model.PlanPacked.
Definition collapse_pipe_packed (fs : list file) (nch nbits : Z) (big : bool) (gulp start nsamps : Z) (junk : arr) : option arr :=
  match run_plan_packed fs nch nbits big gulp start nsamps collapse_skipback junk with
  | POk bl => Some (fold_left (collapse_step nch gulp) bl zeros)
  | PErr _ _ => None
  end.
Definition dedisperse_pipe_packed (fs : list file) (nch nbits : Z) (big : bool) (gulp start nsamps md : Z) (delays junk : arr) : option arr :=
  let gulp' := dedisperse_gulp md gulp in
  match run_plan_packed fs nch nbits big gulp' start nsamps (dedisperse_skipback md) junk with
  | POk bl => Some (fold_left (dedisperse_step nch gulp' md delays) bl zeros)
  | PErr _ _ => None
  end.

(** compute_stats / compute_stats_basic: `bag.push_data(data, ii, mode)` for every block; per channel [c] the accumulator of
    Model/C10_moments.v (its recurrences are Gen/Moments.v, regenerated from kernels.py) is fed the block's column with flag ii *)
Require Import QArith Qround.
Require Import SPP.Model.C10_rt SPP.Gen.Moments SPP.Model.C10_moments.
Local Open Scope Z_scope.
Definition stats_chunk (nch c : Z) (b : Z * Z * list Z) : Z * list Q :=
  let '(n_r, ii, d) := b in (ii, map (fun t => inject_Z (of_list d (t * nch + c)%Z)) (zrange n_r)).
Definition stats_pipe (fs : list file) (nch gulp start nsamps : Z) (full : bool) (c : Z) : option mst :=
  match run_plan fs nch gulp start nsamps 0 with
  | POk bl => Some (push_chunks full (map (stats_chunk nch c) bl) zero_st)
  | PErr _ _ => None
  end.

(** evaluation entry point of the correspondence run (single 8-bit file holding the samples [xs]); api 3: count, min, max and sum of channel [md] from the statistics pipeline *)
Definition pipe_eval (api : Z) (xs : list Z) (nch N gulp start nsamps md : Z) (dl : arr) : list Z :=
  let fs := [mkfile [224] xs] in
  if api =? 0 then match collapse_pipe fs nch gulp start nsamps with Some o => to_list (collapse_len N start nsamps 0) o | None => [-1] end
  else if api =? 1 then match bandpass_pipe fs nch gulp start nsamps with Some (o, n) => to_list nch o | None => [-1] end
  else if api =? 2 then match dedisperse_pipe fs nch gulp start nsamps md dl with Some o => to_list (dedisperse_len N start nsamps 0 md) o | None => [-1] end
  else if api =? 3 then match stats_pipe fs nch gulp start nsamps true md with Some s => [s_cnt s; Qfloor (s_min s); Qfloor (s_max s); Qfloor (s_m1 s * inject_Z nsamps)] | None => [-1] end
  else [-2].

