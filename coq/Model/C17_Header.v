(** C17, frame condition on the observational metadata: the machine of Model/C17_FoldedCube.v with the header as part of the
    state.  Every update reads tobs and the frequencies from the CURRENT header and then applies the modifications the
    generator found in the source of update_dm / update_period / _get_dmdelays / _get_pdelays ([header_writes], Gen/FoldRefs.v):
    a written field becomes unknown (a poison value), anything else (rebinding, a method call on the header, the header
    escaping) makes every field unknown.  Definitions only. *)
From Coq Require Import ZArith QArith Qround List Bool String.
Require Import SPP.Base.Rt SPP.Gen.FoldRefs SPP.Model.C17_FoldedCube.
Import ListNotations.
Open Scope Z_scope.

(** the header fields the four methods read (generator: any other field read is an error) *)
Record hdrv := { h_fch1 : Q; h_foff : Q; h_nchans : Q; h_tobs : Q }.
Definition poisonQ : Q := 7777777 # 1.
Definition clobber1 (w : string) (h : hdrv) : hdrv :=
  if String.eqb w "fch1" then {| h_fch1 := poisonQ; h_foff := h_foff h; h_nchans := h_nchans h; h_tobs := h_tobs h |}
  else if String.eqb w "foff" then {| h_fch1 := h_fch1 h; h_foff := poisonQ; h_nchans := h_nchans h; h_tobs := h_tobs h |}
  else if String.eqb w "nchans" then {| h_fch1 := h_fch1 h; h_foff := h_foff h; h_nchans := poisonQ; h_tobs := h_tobs h |}
  else if String.eqb w "tobs" then {| h_fch1 := h_fch1 h; h_foff := h_foff h; h_nchans := h_nchans h; h_tobs := poisonQ |}
  else if String.eqb w "nsamples" || String.eqb w "tsamp" then
    {| h_fch1 := h_fch1 h; h_foff := h_foff h; h_nchans := h_nchans h; h_tobs := poisonQ |}   (* tobs = nsamples * tsamp *)
  else {| h_fch1 := poisonQ; h_foff := poisonQ; h_nchans := poisonQ; h_tobs := poisonQ |}.
Definition clobber (ws : list string) (h : hdrv) : hdrv := fold_right clobber1 h ws.

Section MachineH.
  Variable W : list string.         (* instantiated with the regenerated [header_writes] *)
  Variable R : refs.
  Variables nsubints nsubbands nbins : Z.
  (** params.compute_dmdelays on the sub-band frequencies of the header *)
  Variable FH : hdrv -> Q -> Q -> arr.
  Variable T : Q -> arr.

  Definition stepH (st : fstate * hdrv) (o : op) : option (fstate * hdrv) :=
    let (s, h) := st in
    match step R nsubints nsubbands nbins (h_tobs h) (FH h) T s o with
    | None => None
    | Some s' => Some (s', clobber W h)
    end.

  Fixpoint runH (ops : list op) (st : fstate * hdrv) : option (fstate * hdrv) :=
    match ops with
    | [] => Some st
    | o :: r => match stepH st o with None => None | Some st' => runH r st' end
    end.
End MachineH.

(** what a modified header would do (a source that stored to header.tobs in update_period): the cube depends on the history *)
Definition wH_h : hdrv := {| h_fch1 := 400; h_foff := -4; h_nchans := 32; h_tobs := 100 |}.
Definition wH_T : Q -> arr := fun dbins i => i * Qfloor dbins.
Definition wH_run (W : list string) (ops : list op) : option (fstate * hdrv) :=
  runH W {| r_dm_delta := true; r_dm_tsamp := true; r_p_ratio := true; r_p_scale := true; r_dm_1d := true |}
       2 2 8 (fun _ _ _ _ => 0) wH_T ops (init (cube_art 2) 10%Q 1%Q, wH_h).
