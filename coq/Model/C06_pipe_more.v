(** More hand glue for the streaming reductions (C06): the reductions as functions of the block trace, so that the same
    fold runs over the byte-wide plan, the packed plan (1/2/4 bits, unpack after read) and the item-wide plan (w bytes per
    sample decoded by [dec], e.g. the 4 bytes of a float32).  Definitions only. *)
From Coq Require Import ZArith List Bool QArith Qround.
Require Import SPP.Base.Rt SPP.Gen.Kernels SPP.Gen.Plan SPP.Gen.BaseSites SPP.Model.Stream SPP.Model.Plan SPP.Model.Bits
               SPP.Model.PlanPacked SPP.Model.C06_pipe SPP.Model.C10_rt SPP.Gen.Moments SPP.Model.C10_moments.
Import ListNotations.
Local Open Scope Z_scope.

Definition collapse_of (nch gulp : Z) (t : ptrace) : option arr :=
  match t with POk bl => Some (fold_left (collapse_step nch gulp) bl zeros) | PErr _ _ => None end.
Definition bandpass_of (nch : Z) (t : ptrace) : option (arr * Z) :=
  match t with POk bl => Some (fold_left (bandpass_step nch) bl (zeros, 0)) | PErr _ _ => None end.
Definition read_chan_of (nch gulp ichan : Z) (out0 : arr) (t : ptrace) : option arr :=
  match t with POk bl => Some (fold_left (read_chan_step nch gulp ichan) bl out0) | PErr _ _ => None end.
Definition dedisperse_of (nch gulp' md : Z) (delays : arr) (t : ptrace) : option arr :=
  match t with POk bl => Some (fold_left (dedisperse_step nch gulp' md delays) bl zeros) | PErr _ _ => None end.
Definition stats_of (nch : Z) (full : bool) (c : Z) (t : ptrace) : option mst :=
  match t with POk bl => Some (push_chunks full (map (stats_chunk nch c) bl) zero_st) | PErr _ _ => None end.

(** * packed depths: the reductions C06_pipe does not define yet ([junk] = the reused unpack buffer, [out0] = np.empty output) *)
Definition bandpass_pipe_packed (fs : list file) (nch nbits : Z) (big : bool) (gulp start nsamps : Z) (junk : arr) : option (arr * Z) :=
  bandpass_of nch (run_plan_packed fs nch nbits big gulp start nsamps bandpass_skipback junk).
Definition read_chan_pipe_packed (fs : list file) (nch nbits : Z) (big : bool) (gulp start nsamps ichan : Z) (junk out0 : arr) : option arr :=
  read_chan_of nch gulp ichan out0 (run_plan_packed fs nch nbits big gulp start nsamps 0 junk).
Definition stats_pipe_packed (fs : list file) (nch nbits : Z) (big : bool) (gulp start nsamps : Z) (full : bool) (c : Z) (junk : arr) : option mst :=
  stats_of nch full c (run_plan_packed fs nch nbits big gulp start nsamps 0 junk).

(** * item-wide samples: every sample is [w] bytes; [dec] gives the (integer) value of one item.  The byte-level plan runs with
      nch*w bytes per sample and each block read is reinterpreted item by item (np.frombuffer). *)
Definition itemsL (w : Z) (dec : list Z -> Z) (l : list Z) : list Z :=
  map (fun k => dec (slice l (k * w) w)) (zrange (len l / w)).
Definition decode_block (w : Z) (dec : list Z -> Z) (b : Z * Z * list Z) : Z * Z * list Z :=
  let '(n_r, ii, d) := b in (n_r, ii, itemsL w dec d).
Definition run_plan_items (fs : list file) (nch w : Z) (dec : list Z -> Z) (gulp start nsamps skipback : Z) : ptrace :=
  match run_plan fs (nch * w) gulp start nsamps skipback with
  | POk bl => POk (map (decode_block w dec) bl)
  | PErr bl e => PErr (map (decode_block w dec) bl) e
  end.
(** sample k of the set *)
Definition item_sample (fs : list file) (w : Z) (dec : list Z -> Z) (k : Z) : Z := dec (slice (flat fs) (k * w) w).
(** the byte-wide set that holds the decoded samples *)
Definition items_set (fs : list file) (w : Z) (dec : list Z -> Z) : list file := [mkfile [] (itemsL w dec (flat fs))].

Definition collapse_pipe_items (fs : list file) (nch w : Z) (dec : list Z -> Z) (gulp start nsamps : Z) : option arr :=
  collapse_of nch gulp (run_plan_items fs nch w dec gulp start nsamps collapse_skipback).
Definition bandpass_pipe_items (fs : list file) (nch w : Z) (dec : list Z -> Z) (gulp start nsamps : Z) : option (arr * Z) :=
  bandpass_of nch (run_plan_items fs nch w dec gulp start nsamps bandpass_skipback).
Definition read_chan_pipe_items (fs : list file) (nch w : Z) (dec : list Z -> Z) (gulp start nsamps ichan : Z) (out0 : arr) : option arr :=
  read_chan_of nch gulp ichan out0 (run_plan_items fs nch w dec gulp start nsamps 0).
Definition dedisperse_pipe_items (fs : list file) (nch w : Z) (dec : list Z -> Z) (gulp start nsamps md : Z) (delays : arr) : option arr :=
  let gulp' := dedisperse_gulp md gulp in
  dedisperse_of nch gulp' md delays (run_plan_items fs nch w dec gulp' start nsamps (dedisperse_skipback md)).
Definition stats_pipe_items (fs : list file) (nch w : Z) (dec : list Z -> Z) (gulp start nsamps : Z) (full : bool) (c : Z) : option mst :=
  stats_of nch full c (run_plan_items fs nch w dec gulp start nsamps 0).

(** evaluation entry points of the correspondence run.
    api 4: read_chan of channel [md] of an 8-bit file whose data bytes are [xs]; the np.empty output is modelled by -7 everywhere.
    api 5/6/7/8: collapse / dedisperse / read_chan (channel [md]) / bandpass (sums ++ [samples seen]) on a PACKED file whose data
    bytes are [xs] (depth nbits, bit order [big] as io/bits.py unpacks), through run_plan_packed and the generated unpack kernels;
    the reused unpack buffer is modelled by -9 everywhere. *)
Definition pipe_eval_more (api : Z) (xs : list Z) (nch N nbits : Z) (big : bool) (gulp start nsamps md : Z) (dl : arr) : list Z :=
  let fs := [mkfile [224] xs] in
  let junk := fun _ : Z => -9 in
  if api =? 4 then match read_chan_pipe fs nch gulp start nsamps md (fun _ => -7) with Some o => to_list (read_chan_len N start nsamps 0) o | None => [-1] end
  else if api =? 5 then match collapse_pipe_packed fs nch nbits big gulp start nsamps junk with Some o => to_list (collapse_len N start nsamps 0) o | None => [-1] end
  else if api =? 6 then match dedisperse_pipe_packed fs nch nbits big gulp start nsamps md dl junk with Some o => to_list (dedisperse_len N start nsamps 0 md) o | None => [-1] end
  else if api =? 7 then match read_chan_pipe_packed fs nch nbits big gulp start nsamps md junk (fun _ => -7) with Some o => to_list (read_chan_len N start nsamps 0) o | None => [-1] end
  else if api =? 8 then match bandpass_pipe_packed fs nch nbits big gulp start nsamps junk with Some (o, n) => to_list nch o ++ [n] | None => [-1] end
  else [-2].
