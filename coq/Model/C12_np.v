(** NumPy list semantics used by the generated FFT bookkeeping (Gen/FftOps.v, Gen/MatchedFilter.v).
    1-D real arrays are lists of Z; [of_list]/[to_list] (Base/Rt.v) give the index view, and [of_list l]
    is 0 outside [0, len l).  Definitions only (trusted reading of NumPy; exercised by the correspondence). *)
From Coq Require Import ZArith List Bool.
Require Import SPP.Base.Rt.
Import ListNotations.
Open Scope Z_scope.

Definition len {A : Type} (l : list A) : Z := Z.of_nat (length l).

(** a[lo:hi] for 0 <= lo <= hi (the upper bound is clamped to the array length, as in Python) *)
Definition np_slice (l : list Z) (lo hi : Z) : list Z := firstn (Z.to_nat (hi - lo)) (skipn (Z.to_nat lo) l).

(** a[::-1] *)
Definition np_rev (l : list Z) : list Z := rev l.

(** np.zeros(n) *)
Definition np_zeros (n : Z) : list Z := repeat 0 (Z.to_nat n).

(** np.roll(a, s): out[i] = a[(i - s) mod len a] *)
Definition np_roll (l : list Z) (s : Z) : list Z := to_list (len l) (fun i => of_list l ((i - s) mod len l)).

(** a[:len v] = v   (NumPy raises unless len v <= len a) *)
Definition np_assign_prefix (l v : list Z) : list Z := v ++ skipn (length v) l.

(** output length of np.fft.irfft(s) when no length is given: 2 * (m - 1) for a spectrum of m bins *)
Definition np_irfft_default_len (m : Z) : Z := 2 * (m - 1).

(** what a length-N transform sees of its input: the input cropped / zero-padded to N samples *)
Definition pad (l : list Z) (N : Z) : list Z := to_list N (of_list l).

(** the external transform (pocketfft through rocket-fft) as an interface *)
Record fft_ops : Type := {
  fft_spec : Type;                          (* spectra *)
  fft_good_size : Z -> Z;                   (* rocket_fft.good_size(n, real=True) *)
  fft_rfft : list Z -> Z -> fft_spec;       (* np.fft.rfft(a, n) *)
  fft_irfft : fft_spec -> Z -> list Z;      (* np.fft.irfft(s, n) *)
  fft_smul : fft_spec -> fft_spec -> fft_spec;   (* product of spectra *)
  fft_slen : fft_spec -> Z }.               (* number of bins *)
