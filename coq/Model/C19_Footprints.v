(** C19 -- the write/read footprint claimed for iteration [i] of the [prange] loop of every parallel kernel,
    and the value invariant of the memory a kernel may rely on.  DEFINITIONS ONLY.
    The array ids are the ones the translator assigned (Gen/C19Threads.v). *)
From Coq Require Import ZArith List Bool.
Require Import SPP.Model.C19_Prog SPP.Gen.C19Threads.
Open Scope Z_scope.

Definition noinv : loc -> Z -> Prop := fun _ _ => True.
Definition in_array (id : Z) : loc -> Prop := fun l => fst l = id.
(** row [i] of a flat 2-D array with rows of [w] elements *)
Definition in_row (id w i : Z) : loc -> Prop := fun l => fst l = id /\ w * i <= snd l < w * (i + 1).
Definition at_elem (id k : Z) : loc -> Prop := fun l => l = (id, k).
(** column [i] of a flat 2-D array with rows of [w] elements *)
Definition in_col (id w i : Z) : loc -> Prop := fun l => fst l = id /\ snd l mod w = i.

(** extract_tim: iteration isamp owns outarray[index + isamp] *)
Definition extract_tim_W (index i : Z) := at_elem extract_tim_ID_outarray (index + i).
Definition extract_tim_R (i : Z) := in_array extract_tim_ID_inarray.
(** extract_bpass: iteration ichan owns outarray[ichan] *)
Definition extract_bpass_W (i : Z) := at_elem extract_bpass_ID_outarray i.
Definition extract_bpass_R (i : Z) := in_array extract_bpass_ID_inarray.
(** mask_channels: iteration ichan owns column ichan of the block, reads mask[ichan] *)
Definition mask_channels_W (nchans i : Z) := in_col mask_channels_ID_array nchans i.
Definition mask_channels_R (i : Z) := at_elem mask_channels_ID_mask i.
(** dedisperse: iteration isamp owns outarray[index + isamp] *)
Definition dedisperse_W (index i : Z) := at_elem dedisperse_ID_outarray (index + i).
Definition dedisperse_R (i : Z) : loc -> Prop := fun l => fst l = dedisperse_ID_inarray \/ fst l = dedisperse_ID_delays.
(** invert_freq: iteration isamp owns row isamp of the new array *)
Definition invert_freq_W (nchans i : Z) := in_row invert_freq_ID_outarray nchans i.
Definition invert_freq_R (i : Z) := in_array invert_freq_ID_array.
(** subband: iteration isamp owns row isamp (nsubs elements) of outarray -- provided chan_to_sub maps into [0, nsubs) *)
Definition subband_W (nsubs i : Z) := in_row subband_ID_outarray nsubs i.
Definition subband_R (i : Z) : loc -> Prop :=
  fun l => fst l = subband_ID_inarray \/ fst l = subband_ID_delays \/ fst l = subband_ID_chan_to_sub.
(** the caller-side obligation of subband: every entry of chan_to_sub is a sub-band number *)
Definition subband_inv (nchans nsubs : Z) : loc -> Z -> Prop :=
  fun l v => fst l = subband_ID_chan_to_sub -> 0 <= snd l < nchans -> 0 <= v < nsubs.
(** remove_zerodm: iteration isamp owns row isamp of outarray *)
Definition remove_zerodm_W (nchans i : Z) := in_row remove_zerodm_ID_outarray nchans i.
Definition remove_zerodm_R (i : Z) : loc -> Prop :=
  fun l => fst l = remove_zerodm_ID_inarray \/ fst l = remove_zerodm_ID_bpass \/ fst l = remove_zerodm_ID_chanwts.
(** online moments: iteration ichan owns record ichan (7 fields) of the moments array *)
Definition moments_W (i : Z) := in_row compute_online_moments_ID_moments 7 i.
Definition moments_R (i : Z) := in_array compute_online_moments_ID_array.
Definition moments_basic_W (i : Z) := in_row compute_online_moments_basic_ID_moments 7 i.
Definition moments_basic_R (i : Z) := in_array compute_online_moments_basic_ID_array.
(** decimation: iteration isamp owns result[isamp]; iteration i owns row i (dim2 / factor2 elements) of the result *)
Definition downsample_1d_W (i : Z) := at_elem downsample_1d_mean_parallel_ID_result i.
Definition downsample_1d_R (i : Z) := in_array downsample_1d_mean_parallel_ID_array.
Definition downsample_2d_W (factor2 dim2 i : Z) := in_row downsample_2d_mean_parallel_ID_result (dim2 / factor2) i.
Definition downsample_2d_R (i : Z) := in_array downsample_2d_mean_parallel_ID_array.

(** what "the result does not depend on the schedule" means for a kernel: every complete run of the scheduler
    from the threads of the parallel loop ends in the memory of the index-order sequential run *)
Definition schedule_independent_from (threads : list prog) (m : mem) : Prop :=
  forall ps' m', steps (threads, m) (ps', m') -> all_done ps' -> ext_eq m' (seq_run threads m).
