(** C19 -- the memory/thread model in which the bodies of the [prange] loops of kernels.py are expressed.
    DEFINITIONS ONLY (the generated file Gen/C19Threads.v is written in terms of these; lemmas are in
    Proofs/C19_sched.v).

    A location is a pair (array id, flat index); distinct array ids are distinct, non-overlapping buffers
    (no aliasing between the arrays passed to a kernel: a caller-side assumption).  A thread is a deterministic
    program over single loads and stores whose control and addresses may depend on every value it has
    loaded ([Rd l k]: the continuation [k] receives the value found at [l]).  [cmd A] is the same thing with a
    result, so that loop bodies compose with [bind]; a thread is a [cmd unit]. *)
From Coq Require Import ZArith List Bool.
Import ListNotations.
Open Scope Z_scope.

Definition loc := (Z * Z)%type.
Definition mem := loc -> Z.
Definition loc_eqb (a b : loc) : bool := (fst a =? fst b) && (snd a =? snd b).
Definition mupd (m : mem) (l : loc) (v : Z) : mem := fun j => if loc_eqb j l then v else m j.

Inductive cmd (A : Type) : Type :=
| Ret (a : A)
| Rd (l : loc) (k : Z -> cmd A)
| Wr (l : loc) (v : Z) (k : cmd A).
Arguments Ret {A} a.
Arguments Rd {A} l k.
Arguments Wr {A} l v k.

Fixpoint bind {A B : Type} (c : cmd A) (f : A -> cmd B) : cmd B :=
  match c with
  | Ret a => f a
  | Rd l k => Rd l (fun v => bind (k v) f)
  | Wr l v k => Wr l v (bind k f)
  end.

Definition rd (l : loc) : cmd Z := Rd l (fun v => Ret v).
Definition wr (l : loc) (v : Z) : cmd unit := Wr l v (Ret tt).

(** [for v in range(n): st = body v st], iterations in increasing order starting at [i0] *)
Fixpoint for_from {St : Type} (i0 : Z) (n : nat) (body : Z -> St -> cmd St) (s : St) : cmd St :=
  match n with
  | O => Ret s
  | S m => bind (body i0 s) (fun s' => for_from (i0 + 1) m body s')
  end.
Definition for_ {St : Type} (n : nat) (body : Z -> St -> cmd St) (s : St) : cmd St := for_from 0 n body s.

Definition prog := cmd unit.
Definition Done : prog := Ret tt.
(** a loop body whose result is discarded *)
Definition thread_of {A : Type} (c : cmd A) : prog := bind c (fun _ => Done).

(** sequential execution of one program *)
Fixpoint exec {A : Type} (c : cmd A) (m : mem) : A * mem :=
  match c with
  | Ret a => (a, m)
  | Rd l k => exec (k (m l)) m
  | Wr l v k => exec k (mupd m l v)
  end.
Definition run1 (p : prog) (m : mem) : mem := snd (exec p m).

(** the threads one after the other, in index order *)
Definition seq_run (ps : list prog) (m : mem) : mem := fold_left (fun m p => run1 p m) ps m.

(** one thread per value 0..n-1 of the parallel loop variable *)
Definition threads_of (f : Z -> prog) (n : nat) : list prog := map (fun i => f (Z.of_nat i)) (seq 0 n).

(** a scheduler step: ANY thread (the one at position |A|) performs its head load or store *)
Inductive step : list prog * mem -> list prog * mem -> Prop :=
| s_read A B l k m : step (A ++ Rd l k :: B, m) (A ++ k (m l) :: B, m)
| s_write A B l v k m : step (A ++ Wr l v k :: B, m) (A ++ k :: B, mupd m l v).
Inductive steps : list prog * mem -> list prog * mem -> Prop :=
| st_refl c : steps c c
| st_step c c' c'' : step c c' -> steps c' c'' -> steps c c''.
Definition all_done (ps : list prog) : Prop := Forall (fun p => p = Done) ps.

(** footprint of a program, relative to a value invariant [P] of the memory it runs in ([P l v]: location [l]
    can only hold a value [v] with this property -- used for index arrays such as chan_to_sub):
    the program may store only into [W] and load only from [R] or [W] *)
Inductive fp {A : Type} (P : loc -> Z -> Prop) (W R : loc -> Prop) : cmd A -> Prop :=
| fp_ret a : fp P W R (Ret a)
| fp_rd l k : (R l \/ W l) -> (forall v, P l v -> fp P W R (k v)) -> fp P W R (Rd l k)
| fp_wr l v k : W l -> fp P W R k -> fp P W R (Wr l v k).

Definition okm (P : loc -> Z -> Prop) (m : mem) : Prop := forall l, P l (m l).
Definition ext_eq (m m' : mem) : Prop := forall l, m l = m' l.

(** view of one array of the memory as a functional array, and back *)
Definition arr_of (m : mem) (id : Z) : Z -> Z := fun k => m (id, k).
(** memory built from a list of (id, contents as list); everything else is 0 *)
Fixpoint mem_of (arrs : list (Z * list Z)) : mem :=
  match arrs with
  | [] => fun _ => 0
  | (id, xs) :: r => fun l => if (fst l =? id) && (0 <=? snd l) && (snd l <? Z.of_nat (length xs))
                              then nth (Z.to_nat (snd l)) xs 0 else mem_of r l
  end.
Definition dump (m : mem) (id n : Z) : list Z := map (fun i => m (id, Z.of_nat i)) (seq 0 (Z.to_nat n)).

(** an explicit schedule: the list of thread numbers that take the successive steps (a finished or missing
    thread does nothing).  Used to exhibit concrete interleavings. *)
Definition step_thread (i : nat) (c : list prog * mem) : list prog * mem :=
  match nth_error (fst c) i with
  | Some (Rd l k) => (firstn i (fst c) ++ k (snd c l) :: skipn (S i) (fst c), snd c)
  | Some (Wr l v k) => (firstn i (fst c) ++ k :: skipn (S i) (fst c), mupd (snd c) l v)
  | _ => c
  end.
Definition sched_run (s : list nat) (c : list prog * mem) : list prog * mem := fold_left (fun c i => step_thread i c) s c.
Definition is_done (p : prog) : bool := match p with Ret _ => true | _ => false end.
