(** Hand-written model for C17: sigpyproc/foldedcube.py, FoldedData.update_dm / update_period with the
    bookkeeping of _get_dmdelays / _get_pdelays, statement by statement (the statements are recorded in
    Gen/FoldRefs.v and checked by the generator tools/py2coq/gen_c17.py on every run).
    Which stored value each delay computation uses as its reference is NOT written here: it is read from the
    source by the generator ([gen_refs]).  Definitions only (no proofs). *)
From Coq Require Import ZArith QArith Qround List Bool.
Require Import SPP.Base.Rt SPP.Gen.FoldRefs.
Import ListNotations.
Open Scope Z_scope.

(** * Profiles and cubes *)

(** [np.roll(l, -d)]: element [k] of the result is element [(k + d) mod |l|] of [l] *)
Definition rot (d : Z) (l : list Z) : list Z :=
  let k := Z.to_nat (d mod Z.of_nat (length l)) in skipn k l ++ firstn k l.

Fixpoint mapi_from {A B : Type} (k : Z) (f : Z -> A -> B) (l : list A) : list B :=
  match l with [] => [] | x :: r => f k x :: mapi_from (k + 1) f r end.
Definition mapi {A B : Type} (f : Z -> A -> B) (l : list A) : list B := mapi_from 0 f l.

(** cube[subint][subband] = profile (list of bins) *)
Definition cube := list (list (list Z)).
Definition prof (c : cube) (i b : nat) : list Z := nth b (nth i c []) [].
(** every profile (i, b) rotated by [s i b] *)
Definition rot_cube (s : Z -> Z -> Z) (c : cube) : cube :=
  mapi (fun i row => mapi (fun b p => rot (s i b) p) row) c.

(** * References read from the source *)
Record refs := { r_dm_delta : bool; r_dm_tsamp : bool; r_p_ratio : bool; r_p_scale : bool; r_dm_1d : bool }.
Definition gen_refs : refs :=
  {| r_dm_delta := dm_delta_ref_is_fold; r_dm_tsamp := dm_tsamp_ref_is_fold;
     r_p_ratio := p_ratio_ref_is_fold; r_p_scale := p_scale_ref_is_fold; r_dm_1d := dm_drifts_made_1d |}.
(** the pinned tree (fc376ec): every reference is the current value, the squeezed result is stored as is *)
Definition pinned_refs : refs :=
  {| r_dm_delta := false; r_dm_tsamp := false; r_p_ratio := false; r_p_scale := false; r_dm_1d := false |}.
Definition all_fold (R : refs) : bool := r_dm_delta R && r_dm_tsamp R && r_p_ratio R && r_p_scale R.
Definition sound_refs (R : refs) : bool := all_fold R && r_dm_1d R.

(** * State of a FoldedData object *)
Record fstate := {
  data : cube;            (* _data *)
  dm : Q; period : Q;     (* the values reported by .dm / .period (overwritten by each update) *)
  fold_dm : Q; fold_period : Q;  (* the constructor arguments *)
  fph : arr; tph : arr;   (* _fph_shifts (per sub-band), _tph_shifts (per sub-integration) *)
  fph_0d : bool }.        (* _fph_shifts has become a 0-d array (squeezed one-sub-band result) *)

Definition init (c : cube) (dm0 p0 : Q) : fstate :=
  {| data := c; dm := dm0; period := p0; fold_dm := dm0; fold_period := p0;
     fph := fun _ => 0; tph := fun _ => 0; fph_0d := false |}.

Definition set_fph (s : fstate) (f : arr) (z : bool) : fstate :=
  {| data := data s; dm := dm s; period := period s; fold_dm := fold_dm s; fold_period := fold_period s;
     fph := f; tph := tph s; fph_0d := z |}.
Definition set_tph (s : fstate) (t : arr) : fstate :=
  {| data := data s; dm := dm s; period := period s; fold_dm := fold_dm s; fold_period := fold_period s;
     fph := fph s; tph := t; fph_0d := fph_0d s |}.
Definition set_data_dm (s : fstate) (c : cube) (d : Q) : fstate :=
  {| data := c; dm := d; period := period s; fold_dm := fold_dm s; fold_period := fold_period s;
     fph := fph s; tph := tph s; fph_0d := fph_0d s |}.
Definition set_data_period (s : fstate) (c : cube) (p : Q) : fstate :=
  {| data := c; dm := dm s; period := p; fold_dm := fold_dm s; fold_period := fold_period s;
     fph := fph s; tph := tph s; fph_0d := fph_0d s |}.

Inductive op := UDm (d : Q) | UPeriod (p : Q).

(** the DM / period reported after a history: the last target, or the folding value *)
Fixpoint final_dm (ops : list op) (d0 : Q) : Q :=
  match ops with [] => d0 | UDm d :: r => final_dm r d | UPeriod _ :: r => final_dm r d0 end.
Fixpoint final_period (ops : list op) (p0 : Q) : Q :=
  match ops with [] => p0 | UPeriod p :: r => final_period r p | UDm _ :: r => final_period r p0 end.

Section Machine.
  Variable R : refs.
  (** data.shape; rolling never changes it *)
  Variables nsubints nsubbands nbins : Z.
  Variable tobs : Q.                (* header.tobs *)
  (** [F delta_dm tsamp b]: element [b] of params.compute_dmdelays(freqs, delta_dm, tsamp, header.fch1, in_samples=True)
      (freqs and fch1 depend only on the header and the shape) *)
  Variable F : Q -> Q -> arr.
  (** [T dbins i]: element [i] of np.round(np.arange(nsubints) / (nsubints / dbins)).astype(int32) *)
  Variable T : Q -> arr.

  (** _get_dmdelays: (bin_drifts, state with the new _fph_shifts); None = ZeroDivisionError *)
  Definition get_dmdelays (s : fstate) (newdm : Q) : option (arr * fstate) :=
    let delta := (newdm - (if r_dm_delta R then fold_dm s else dm s))%Q in
    if Qeq_bool delta 0 then
      Some (fun b => - fph s b, set_fph s (fun _ => 0) (fph_0d s))
    else if (nsubbands =? 0) || (nbins =? 0) then None
    else
      let tsamp := ((if r_dm_tsamp R then fold_period s else period s) / inject_Z nbins)%Q in
      let drifts := F delta tsamp in
      Some (fun b => drifts b - fph s b, set_fph s drifts ((nsubbands =? 1) && negb (r_dm_1d R))).

  (** update_dm; None = an exception (ZeroDivisionError, or IndexError when the delays are a 0-d array) *)
  Definition update_dm (s : fstate) (newdm : Q) : option fstate :=
    match get_dmdelays s newdm with
    | None => None
    | Some (del, s') =>
      if fph_0d s && (0 <? nsubints) then None
      else Some (set_data_dm s' (mapi (fun _ row => mapi (fun b p => rot (del b) p) row) (data s')) newdm)
    end.

  (** _get_pdelays *)
  Definition get_pdelays (s : fstate) (newp : Q) : option (arr * fstate) :=
    let r1 := if r_p_ratio R then fold_period s else period s in
    let r2 := if r_p_scale R then fold_period s else period s in
    if Qeq_bool r1 0 || Qeq_bool r2 0 then None
    else
      let dbins := ((newp / r1 - 1) * tobs * inject_Z nbins / r2)%Q in
      if Qeq_bool dbins 0 then Some (fun i => - tph s i, set_tph s (fun _ => 0))
      else
        let drifts := T dbins in
        Some (fun i => drifts i - tph s i, set_tph s drifts).

  Definition update_period (s : fstate) (newp : Q) : option fstate :=
    match get_pdelays s newp with
    | None => None
    | Some (del, s') =>
      Some (set_data_period s' (mapi (fun i row => mapi (fun _ p => rot (del i) p) row) (data s')) newp)
    end.

  Definition step (s : fstate) (o : op) : option fstate :=
    match o with UDm d => update_dm s d | UPeriod p => update_period s p end.

  Fixpoint run (ops : list op) (s : fstate) : option fstate :=
    match ops with
    | [] => Some s
    | o :: r => match step s o with None => None | Some s' => run r s' end
    end.

  (** * Specification: the shift implied by a target relative to the folding values *)
  Definition dm_shift (dm0 p0 d : Q) (b : Z) : Z :=
    let delta := (d - dm0)%Q in
    if Qeq_bool delta 0 then 0 else F delta (p0 / inject_Z nbins)%Q b.
  Definition p_dbins (p0 p : Q) : Q := ((p / p0 - 1) * tobs * inject_Z nbins / p0)%Q.
  Definition p_shift (p0 p : Q) (i : Z) : Z :=
    if Qeq_bool (p_dbins p0 p) 0 then 0 else T (p_dbins p0 p) i.
  Definition expected (c0 : cube) (dm0 p0 d p : Q) : cube :=
    rot_cube (fun i b => dm_shift dm0 p0 d b + p_shift p0 p i) c0.
End Machine.

(** the property, for one choice of references: every history ends in the cube as folded with every profile
    rotated by the shift implied by the final targets, and reports the final targets *)
Definition HistoryIndependent (R : refs) : Prop :=
  forall nsubints nsubbands nbins tobs F T c0 dm0 p0 ops,
    nsubbands <> 0 -> nbins <> 0 -> ~ (p0 == 0)%Q ->
    exists s, run R nsubints nsubbands nbins tobs F T ops (init c0 dm0 p0) = Some s /\
      data s = expected nbins tobs F T c0 dm0 p0 (final_dm ops dm0) (final_period ops p0) /\
      dm s = final_dm ops dm0 /\ period s = final_period ops p0.

Definition Refuted (R : refs) : Prop :=
  exists nsubints nsubbands nbins tobs F T c0 dm0 p0 ops,
    nsubbands <> 0 /\ nbins <> 0 /\ ~ (p0 == 0)%Q /\
    ~ exists s, run R nsubints nsubbands nbins tobs F T ops (init c0 dm0 p0) = Some s /\
      data s = expected nbins tobs F T c0 dm0 p0 (final_dm ops dm0) (final_period ops p0).

(** * Executable helpers (correspondence runs and witnesses) *)
Definition cube_eq_dec : forall a b : cube, {a = b} + {a <> b} :=
  list_eq_dec (list_eq_dec (list_eq_dec Z.eq_dec)).
Definition cube_eqb (a b : cube) : bool := if cube_eq_dec a b then true else false.

(** delay functions given by tables.  Keys are rationals in lowest terms; the lookup is done once, when the
    function is applied to its rational arguments (not once per sub-band), an unknown key gives a poison value *)
Definition poison : Z := 7777777.
Definition Qkey_eqb (a b : Q) : bool := Z.eqb (Qnum a) (Qnum b) && Pos.eqb (Qden a) (Qden b).
Definition vec_of (l : list Z) : arr :=
  let n := Z.of_nat (length l) in fun b => if (0 <=? b) && (b <? n) then of_list l b else poison.
Definition F_of_table (tab : list (Q * Q * list Z)) : Q -> Q -> arr := fun delta tsamp =>
  let kd := Qred delta in
  let kt := Qred tsamp in
  match find (fun e => Qkey_eqb (fst (fst e)) kd && Qkey_eqb (snd (fst e)) kt) tab with
  | Some e => vec_of (snd e)
  | None => fun _ => poison
  end.
Definition T_of_table (tab : list (Q * list Z)) : Q -> arr := fun dbins =>
  let k := Qred dbins in
  match find (fun e => Qkey_eqb (fst e) k) tab with
  | Some e => vec_of (snd e)
  | None => fun _ => poison
  end.

(** artificial delay functions and candidate histories used to refute every unsound choice of references *)
Definition F_art : Q -> Q -> arr := fun delta tsamp b => b * (Qfloor delta + Qfloor (tsamp * 100)%Q).
Definition T_art : Q -> arr := fun dbins i => i * Qfloor dbins.
Definition cube_art (nb : Z) : cube :=
  if nb =? 1 then [[[0; 1; 2; 3; 4; 5; 6; 7]]; [[20; 21; 22; 23; 24; 25; 26; 27]]]
  else [[[0; 1; 2; 3; 4; 5; 6; 7]; [10; 11; 12; 13; 14; 15; 16; 17]];
        [[20; 21; 22; 23; 24; 25; 26; 27]; [30; 31; 32; 33; 34; 35; 36; 37]]].
Definition candidates : list (Z * list op) :=
  [ (2, [UDm 2%Q; UDm 2%Q]); (2, [UPeriod 2%Q; UDm 2%Q]); (2, [UPeriod 2%Q; UPeriod 3%Q]);
    (2, [UPeriod 2%Q; UPeriod 4%Q]); (1, [UDm 2%Q; UDm 2%Q]) ].
Definition refutes (R : refs) (c : Z * list op) : bool :=
  let '(nb, ops) := c in
  match run R 2 nb 8 1%Q F_art T_art ops (init (cube_art nb) 1%Q 1%Q) with
  | None => true
  | Some s => negb (cube_eqb (data s) (expected 8 1%Q F_art T_art (cube_art nb) 1%Q 1%Q (final_dm ops 1%Q) (final_period ops 1%Q)))
  end.
Definition has_witness (R : refs) : bool := existsb (refutes R) candidates.

(** * A real case of the pinned tree (witnesses)
    Header nchans=32, foff=-4 MHz, fch1=400 MHz, tobs=100 s; cube of 2 sub-integrations x 2 sub-bands x 8 bins folded
    with DM 10 and period 0.5 s.  The tables hold what params.compute_dmdelays(freqs, delta_dm, tsamp, fch1) and
    round(arange(2) / (2 / dbins)) return for the listed arguments; the harness re-derives them from the
    implementation on every run (props/c17.py, "witness tables"). *)
Definition w_F_tab : list (Q * Q * list Z) := [ (10%Q, (1#16)%Q, [0; 2]); ((-10)%Q, (1#16)%Q, [0; -2]) ].
Definition w_T_tab : list (Q * list Z) := [ ((25#2)%Q, [0; 6]) ].
Definition w_dm0 : Q := 10%Q.
Definition w_p0 : Q := (1#2)%Q.
Definition w_p1 : Q := (129#256)%Q.   (* 0.50390625 *)
Definition w_run (R : refs) (nb : Z) (ops : list op) : option fstate :=
  run R 2 nb 8 100%Q (F_of_table w_F_tab) (T_of_table w_T_tab) ops (init (cube_art nb) w_dm0 w_p0).
Definition w_expected (nb : Z) (d p : Q) : cube :=
  expected 8 100%Q (F_of_table w_F_tab) (T_of_table w_T_tab) (cube_art nb) w_dm0 w_p0 d p.

(** * correspondence check of one case (used by the generated Corr/c17_*.v files)
    case = (history, what the implementation ended with: None = an exception, or
    (cube flattened, reported dm, reported period, _fph_shifts, _tph_shifts), index into [specs] of the oracle's
    expected cube flattened).
    Result: (model agrees with the implementation, Gallina [expected] agrees with the Python oracle). *)
Definition flat (c : cube) : list Z := concat (concat c).
Definition corr_case := (list op * option (list Z * Q * Q * list Z * list Z) * Z)%type.
Definition corr_ok (R : refs) (ni nb nbins : Z) (tobs : Q) (Ftab : list (Q * Q * list Z)) (Ttab : list (Q * list Z))
    (c0 : cube) (dm0 p0 : Q) (specs : list (list Z)) (c : corr_case) : bool * bool :=
  let '(ops, out, ispec) := c in
  let spec := nth (Z.to_nat ispec) specs [poison] in
  let Fm := F_of_table Ftab in
  let Tm := T_of_table Ttab in
  (match run R ni nb nbins tobs Fm Tm ops (init c0 dm0 p0), out with
   | None, None => true
   | Some s, Some (d, dmv, pv, f, t) =>
       list_eqb (flat (data s)) d && Qeq_bool (dm s) dmv && Qeq_bool (period s) pv &&
       list_eqb (to_list nb (fph s)) f && list_eqb (to_list ni (tph s)) t
   | _, _ => false
   end,
   list_eqb (flat (expected nbins tobs Fm Tm c0 dm0 p0 (final_dm ops dm0) (final_period ops p0))) spec).
Definition corr_bad (R : refs) ni nb nbins tobs Ftab Ttab c0 dm0 p0 specs (cases : list corr_case) : list Z * list Z :=
  let r := map (corr_ok R ni nb nbins tobs Ftab Ttab c0 dm0 p0 specs) cases in
  let idx := map Z.of_nat (seq 0 (length cases)) in
  (map fst (filter (fun p => negb (fst (snd p))) (combine idx r)),
   map fst (filter (fun p => negb (snd (snd p))) (combine idx r))).
(** the witness tables above against tables computed from the implementation *)
Definition w_tables_ok (Ftab : list (Q * Q * list Z)) (Ttab : list (Q * list Z)) : bool :=
  forallb (fun e => list_eqb (to_list 2 (F_of_table Ftab (fst (fst e)) (snd (fst e)))) (snd e)) w_F_tab &&
  forallb (fun e => list_eqb (to_list 2 (T_of_table Ttab (fst e))) (snd e)) w_T_tab.
