(** NumPy's OWN algorithm for np.pad(x, (pl, pr), mode='symmetric') on a 1-D array, as an executable model.  DEFINITIONS ONLY.

    numpy/lib/_arraypad_impl.py (pad -> _set_reflect_both with include_edge=True, reflect_type='even'): the output buffer of
    length T = pl + n + pr holds the input at [pl, pl + n) and is otherwise uninitialised ([junk]); while a pad area is left,
    ONE step reflects, on each side, a chunk of at most [old_length] = (filled length // n) * n samples of the part filled so
    far about its edge (edge sample repeated) and moves the edge outwards.  A pad longer than the data therefore takes
    several steps, each reflecting an already reflected array.  Model/C14_filters.v states the result in closed form as the
    index map [sym] ([pad_sym]); Proofs/C14_nppad.v proves that the two agree for EVERY pl, pr >= 0. *)
From Coq Require Import ZArith List Bool.
Require Import SPP.Base.Rt SPP.Model.C14_filters.
Open Scope Z_scope.

(** state: (buffer, left pad still to fill, right pad still to fill) *)
Definition np_reflect_step (n T : Z) (st : arr * Z * Z) : arr * Z * Z :=
  let '(P, lp, rp) := st in
  let old := (T - rp - lp) / n * n in
  (* left: padded[lp - c : lp] = padded[lp - 1 + c : lp - 1 : -1] *)
  let cl := if 0 <? lp then Z.min old lp else 0 in
  let P1 : arr := fun q => if (lp - cl <=? q) && (q <? lp) then P (2 * lp - 1 - q) else P q in
  (* right (reads the buffer after the left insert, same old_length): padded[T - rp : T - rp + c] = padded[T - rp - 1 : T - rp - 1 - c : -1] *)
  let cr := if 0 <? rp then Z.min old rp else 0 in
  let P2 : arr := fun q => if (T - rp <=? q) && (q <? T - rp + cr) then P1 (2 * (T - rp) - 1 - q) else P1 q in
  (P2, lp - cl, rp - cr).

(** `while left_index > 0 or right_index > 0` (a step with both pads 0 changes nothing; pl + pr steps always suffice) *)
Fixpoint np_reflect_run (fuel : nat) (n T : Z) (st : arr * Z * Z) : arr * Z * Z :=
  match fuel with O => st | S k => np_reflect_run k n T (np_reflect_step n T st) end.

Definition np_pad_init (junk x : arr) (n pl : Z) : arr := fun q => if (pl <=? q) && (q <? pl + n) then x (q - pl) else junk q.

Definition np_pad_symmetric (junk x : arr) (n pl pr : Z) : arr * Z * Z :=
  np_reflect_run (Z.to_nat (pl + pr)) n (pl + n + pr) (np_pad_init junk x n pl, pl, pr).
Definition np_pad_symmetric_array (junk x : arr) (n pl pr : Z) : arr := fst (fst (np_pad_symmetric junk x n pl pr)).
