(** Hand-written executable model for C04, continued: SEVERAL cwrite calls on one prepared output file (the normal,
    gulp-by-gulp use of Header.prep_outfile), and the memory layout of the array handed to cwrite.  Definitions only.

    FileWriter.cwrite appends to the file object at its cursor (tofile on the open io.FileIO); the file after the
    calls cwrite(a1); ...; cwrite(ak) therefore holds the bytes of the calls one after the other.  [None]: one of the
    calls raised (what the earlier calls wrote is then an incomplete product; crash points are C20's subject). *)
From Coq Require Import ZArith List Bool.
Require Import SPP.Base.Rt SPP.Gen.C04Io SPP.Model.Bits SPP.Model.Stream SPP.Model.C04_Writer.
Import ListNotations.
Open Scope Z_scope.

Definition oapp (x y : option (list Z)) : option (list Z) :=
  match x, y with Some a, Some b => Some (a ++ b) | _, _ => None end.

Fixpoint cwrite_all (cfg : wcfg) (nbits : Z) (l : list nd) : option (list Z) :=
  match l with
  | [] => Some []
  | a :: r => oapp (cwrite cfg nbits a) (cwrite_all cfg nbits r)
  end.

(** prep_outfile + cwrite(a1) ... cwrite(ak) + close *)
Definition write_fil_many (cfg : wcfg) (nbits : Z) (hdr : list Z) (l : list nd) : option file :=
  match cwrite_all cfg nbits l with None => None | Some b => Some (mkfile hdr b) end.

(** the one array that holds the samples of all the calls, in the order written *)
Definition nd_concat (dt : dtype) (l : list nd) : nd := mknd dt (concat (map nd_vals l)).

(** * memory layout of the array handed to cwrite *)
(** a one-dimensional numpy view: [vw_n] items of the buffer [vw_buf], item i at position vw_off + i * vw_step; the
    WRITEABLE flag.  C-contiguous: unit step (or at most one item). *)
Record view := mkview { vw_dt : dtype; vw_buf : list Z; vw_off : Z; vw_step : Z; vw_n : Z; vw_writeable : bool }.
Definition view_vals (v : view) : list Z :=
  map (fun i => nth (Z.to_nat (vw_off v + i * vw_step v)) (vw_buf v) 0) (zrange (vw_n v)).
Definition view_contig (v : view) : bool := (vw_step v =? 1) || (vw_n v <=? 1).
(** arr.copy() / np.ascontiguousarray(arr): a writable C-contiguous array of the same values in the same order *)
Definition view_nd (v : view) : nd := mknd (vw_dt v) (view_vals v).

(** cwrite on a view.  8/16/32 bits: astype / tofile walk the array in logical order whatever its strides and flags.
    1/2/4 bits: the packing kernels are compiled for writable C-contiguous uint8 arrays only; any other layout has no
    matching definition (TypeError, [None]) unless cwrite copies the array first ([copies], regenerated from the
    source as gen_cw_copies_noncontig). *)
Definition cwrite_view (copies : bool) (cfg : wcfg) (nbits : Z) (v : view) : option (list Z) :=
  if bit_unpack nbits then
    if (view_contig v && vw_writeable v) || copies then cwrite cfg nbits (view_nd v) else None
  else cwrite cfg nbits (view_nd v).

(** * a concrete header codec of the SIGPROC kind (length-prefixed), for the non-vacuity of C04_meta_carried *)
Definition lp_encode (h : list Z) : list Z := len h :: h.
Definition lp_parse (l : list Z) : option (list Z * Z) :=
  match l with [] => None | n :: r => Some (firstn (Z.to_nat n) r, n + 1) end.
