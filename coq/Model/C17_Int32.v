(** C17, the int32 width of the shift bookkeeping: _fph_shifts / _tph_shifts, the delays returned by
    _get_dmdelays / _get_pdelays (`drifts - self._xph_shifts`, `-1 * self._xph_shifts`) and the `-delays[k]` handed to
    np.roll are numpy int32 and wrap modulo 2**32.  [run32] is the machine of Model/C17_FoldedCube.v with exactly these three
    places wrapped; the values returned by F / T are what `.astype(np.int32)` produced, i.e. they are taken as given.
    Definitions only (no proofs). *)
From Coq Require Import ZArith QArith Qround List Bool.
Require Import SPP.Base.Rt SPP.Gen.FoldRefs SPP.Model.C17_FoldedCube.
Import ListNotations.
Open Scope Z_scope.

Definition wrap32 (z : Z) : Z := (z + 2147483648) mod 4294967296 - 2147483648.
(** what np.roll receives for a delay [z] computed in int32: the int32 difference, negated in int32; [rot d] is np.roll(-d) *)
Definition amt32 (z : Z) : Z := - wrap32 (- wrap32 z).

Section Machine32.
  Variable R : refs.
  Variables nsubints nsubbands nbins : Z.
  Variable tobs : Q.
  Variable F : Q -> Q -> arr.
  Variable T : Q -> arr.

  Definition update_dm32 (s : fstate) (newdm : Q) : option fstate :=
    match get_dmdelays R nsubbands nbins F s newdm with
    | None => None
    | Some (del, s') =>
      if fph_0d s && (0 <? nsubints) then None
      else Some (set_data_dm s' (mapi (fun _ row => mapi (fun b p => rot (amt32 (del b)) p) row) (data s')) newdm)
    end.

  Definition update_period32 (s : fstate) (newp : Q) : option fstate :=
    match get_pdelays R nbins tobs T s newp with
    | None => None
    | Some (del, s') =>
      Some (set_data_period s' (mapi (fun i row => mapi (fun _ p => rot (amt32 (del i)) p) row) (data s')) newp)
    end.

  Definition step32 (s : fstate) (o : op) : option fstate :=
    match o with UDm d => update_dm32 s d | UPeriod p => update_period32 s p end.

  Fixpoint run32 (ops : list op) (s : fstate) : option fstate :=
    match ops with
    | [] => Some s
    | o :: r => match step32 s o with None => None | Some s' => run32 r s' end
    end.
End Machine32.

(** the regime in which the library is used: no shift ever asked for reaches 2**30 bins *)
Definition shifts_bounded (F : Q -> Q -> arr) (T : Q -> arr) : Prop :=
  (forall d t b, Z.abs (F d t b) < 1073741824) /\ (forall x i, Z.abs (T x i) < 1073741824).

(** a history whose shifts stay inside int32 one by one but whose difference does not: 2 sub-integrations, 1 sub-band,
    3 bins (2**32 mod 3 = 1), folded at period 1, tobs = 1: dbins = 3 * (p - 1), T = i * dbins *)
Definition w32_T : Q -> arr := fun dbins i => i * Qfloor dbins.
Definition w32_F : Q -> Q -> arr := fun _ _ _ => 0.
Definition w32_cube : cube := [[[0; 1; 2]]; [[10; 11; 12]]].
Definition w32_up : Q := inject_Z (1 + 536870912).     (* shift of sub-integration 1: +3 * 2**29 *)
Definition w32_down : Q := inject_Z (1 - 536870912).   (* shift of sub-integration 1: -3 * 2**29 *)
Definition w32_run (ops : list op) : option fstate :=
  run32 gen_refs 2 1 3 1%Q w32_F w32_T ops (init w32_cube 0%Q 1%Q).
Definition w32_run_fold (ops : list op) : option fstate :=
  run32 {| r_dm_delta := true; r_dm_tsamp := true; r_p_ratio := true; r_p_scale := true; r_dm_1d := true |}
        2 1 3 1%Q w32_F w32_T ops (init w32_cube 0%Q 1%Q).

(** correspondence of [run32] with the implementation (same case format as [corr_ok]) *)
Definition corr_ok32 (R : refs) (ni nb nbins : Z) (tobs : Q) (Ftab : list (Q * Q * list Z)) (Ttab : list (Q * list Z))
    (c0 : cube) (dm0 p0 : Q) (c : corr_case) : bool :=
  let '(ops, out, _) := c in
  match run32 R ni nb nbins tobs (F_of_table Ftab) (T_of_table Ttab) ops (init c0 dm0 p0), out with
  | None, None => true
  | Some s, Some (d, dmv, pv, f, t) =>
      list_eqb (flat (data s)) d && Qeq_bool (dm s) dmv && Qeq_bool (period s) pv &&
      list_eqb (to_list nb (fph s)) f && list_eqb (to_list ni (tph s)) t
  | _, _ => false
  end.
Definition corr_bad32 (R : refs) ni nb nbins tobs Ftab Ttab c0 dm0 p0 (cases : list corr_case) : list Z :=
  let r := map (corr_ok32 R ni nb nbins tobs Ftab Ttab c0 dm0 p0) cases in
  map fst (filter (fun p => negb (snd p)) (combine (map Z.of_nat (seq 0 (length cases))) r)).
