(** Hand-written model of the API layer of FileReader (io/fileio.py) on top of Model/Stream.v: where a freshly opened
    reader stands (FileBase.__init__ opens file 0 at raw offset 0, FileReader.__init__ may then go to a header end),
    buffer reads into a caller's buffer of [nitems] items of [itemsize] bytes, counted reads of [nunits] units on a reader
    that unpacks 1/2/4-bit samples.  The three source-dependent quantities come from Gen/Plan.v (regenerated from
    fileio.py on every run).  Definitions only. *)
From Coq Require Import ZArith List Bool.
Require Import SPP.Base.Rt SPP.Gen.Plan SPP.Model.Stream.
Import ListNotations.
Open Scope Z_scope.

(** FileBase.__init__: [_open(ifile=0)], a newly opened file is at raw offset 0 (the first header byte) *)
Definition raw_open : st := mkst 0 0.
(** FileReader.__init__ *)
Definition open_reader (fs : list file) : option st :=
  match reader_init_seek2hdr with Some k => seek2hdr fs k | None => Some raw_open end.

(** bit fields of a byte (the specification of io/bits.py unpack, as Model/Bits.v [field]): sample k of byte b *)
Definition ufield (nbits : Z) (big : bool) (b k : Z) : Z :=
  (b / 2 ^ (if big then 8 - nbits * (k + 1) else nbits * k)) mod 2 ^ nbits.
Definition unpack_bytes (nbits : Z) (big : bool) (l : list Z) : list Z :=
  flat_map (fun b => map (ufield nbits big b) (zrange (8 / nbits))) l.

(** depth of the reader: whole bytes/items ([DBytes], nothing is unpacked, bitfact = 1) or nbits in 1/2/4 with a bit order *)
Inductive depth := DBytes | DBits (nbits : Z) (big : bool).
Definition bitfact (d : depth) : Z := match d with DBytes => 1 | DBits nbits _ => 8 / nbits end.
Definition unpack_out (d : depth) (l : list Z) : list Z := match d with DBytes => l | DBits nbits big => unpack_bytes nbits big l end.

(** API operations: seek(o,0), seek(o,1), cread(nunits), creadinto(buffer of nitems items of itemsize bytes) *)
Inductive aop := ASeekSet (o : Z) | ASeekCur (o : Z) | ACread (nunits : Z) | ACreadinto (itemsize nitems : Z).

(** the stream operation an API call performs (byte-wide file items: isz = 1) *)
Definition lower (d : depth) (o : aop) : op :=
  match o with
  | ASeekSet off => SeekSet off
  | ASeekCur off => SeekCur off
  | ACread nunits => Cread (cread_count nunits (bitfact d))
  | ACreadinto b k => Creadinto (creadinto_view_len b k)
  end.
(** what the caller gets: a counted read returns the unpacked samples; a buffer read returns the byte count and the bytes
    stay packed in the caller's read buffer (represented by the bytes themselves) *)
Definition lift (d : depth) (o : aop) (r : out) : out :=
  match o, r with ACread _, OBytes l => OBytes (unpack_out d l) | _, _ => r end.

Definition api_step (d : depth) (fs : list file) (s : st) (o : aop) : st * out :=
  let '(s', r) := step fs 1 s (lower d o) in (s', lift d o r).
Fixpoint api_run (d : depth) (fs : list file) (s : st) (ops : list aop) : list (out * Z) :=
  match ops with
  | [] => []
  | o :: r => let '(s', res) := api_step d fs s o in (res, stream_pos fs s') :: api_run d fs s' r
  end.
(** a history on a freshly opened reader; [] when the reader cannot be opened *)
Definition api_fresh_run (d : depth) (fs : list file) (ops : list aop) : list (out * Z) :=
  match open_reader fs with Some s => api_run d fs s ops | None => [] end.

(** * Specification: a flat array of packed bytes and a position; stated directly, not through [lower] *)
Definition api_spec_step (d : depth) (fl : list Z) (p : Z) (o : aop) : Z * out :=
  match o with
  | ASeekSet off => if (0 <=? off) && (off <? len fl) then (off, OUnit) else (p, OErr ValueError)
  | ASeekCur off => if (0 <=? off + p) && (off + p <? len fl) then (off + p, OUnit) else (p, OErr ValueError)
  | ACread nunits => let n := nunits / bitfact d in
      if p + n <=? len fl then (p + n, OBytes (unpack_out d (slice fl p n))) else (len fl, OErr ValueError)
  | ACreadinto b k => let n := Z.min (b * k) (len fl - p) in (p + n, OBytes (slice fl p n))
  end.
Fixpoint api_spec_run (d : depth) (fl : list Z) (p : Z) (ops : list aop) : list (out * Z) :=
  match ops with
  | [] => []
  | o :: r => let '(p', res) := api_spec_step d fl p o in (res, p') :: api_spec_run d fl p' r
  end.

(** FilReader.read_block on files whose headers are the real header bytes: as [read_block_bytes], from the state
    [open_reader] leaves *)
Definition api_read_block (fs : list file) (nchans nsamples start nsamps : Z) : out :=
  if (start <? 0) || (start + nsamps >? nsamples) then OErr ValueError else
  match open_reader fs with
  | None => OErr OutOfFuel
  | Some s0 =>
    let '(s1, r1) := seek_set_op fs s0 (start * nchans) in
    match r1 with OErr e => OErr e | _ => snd (cread fs 1 s1 (nchans * nsamps)) end
  end.
