(** C08 runtime prelude (definitions only): the header as a record over Q / Z, the value type of an `updates`
    dictionary, [Header.new_header] (known keys override, UNKNOWN KEYS ARE DROPPED), [Header.prep_outfile],
    Python's int() / round() / slicing on exact numbers, and the exact value of a binary64 float.
    Gen/C08.v (regenerated from the source on every run) is written in terms of these. *)
From Coq Require Import ZArith QArith Qround Qabs Qminmax String List Bool PrimFloat Uint63.
Import ListNotations.
Open Scope Z_scope.

(** the numeric fields of sigpyproc.header.Header that C08 speaks about; [h_dtype]: 1 = "filterbank", 2 = "time series" *)
Record Hdr := mkHdr {
  h_nchans : Z; h_nbits : Z; h_nsamples : Z;
  h_fch1 : Q; h_foff : Q; h_tsamp : Q; h_tstart : Q; h_dm : Q;
  h_dtype : Z }.

(** a value stored under a key of an update dictionary *)
Inductive val := VZ (z : Z) | VQ (q : Q) | VS (s : string).

Definition val_Q (v : val) : option Q := match v with VZ z => Some (inject_Z z) | VQ q => Some q | VS _ => None end.
Definition val_Z (v : val) : option Z := match v with VZ z => Some z | _ => None end.
Definition dtype_code (s : string) : Z :=
  if String.eqb s "filterbank" then 1 else if String.eqb s "time series" then 2 else 0.

(** assignment of one known key.  A key that is an attrs field but is not modelled here (filename, source, ...)
    leaves the record unchanged; an integer field only accepts an integer value (anything else leaves it
    unchanged, and the translator refuses to emit such an update in the first place). *)
Definition set_field (k : string) (v : val) (h : Hdr) : Hdr :=
  let zf (f : Z -> Hdr) := match val_Z v with Some z => f z | None => h end in
  let qf (f : Q -> Hdr) := match val_Q v with Some q => f q | None => h end in
  if String.eqb k "nchans" then zf (fun z => mkHdr z (h_nbits h) (h_nsamples h) (h_fch1 h) (h_foff h) (h_tsamp h) (h_tstart h) (h_dm h) (h_dtype h))
  else if String.eqb k "nbits" then zf (fun z => mkHdr (h_nchans h) z (h_nsamples h) (h_fch1 h) (h_foff h) (h_tsamp h) (h_tstart h) (h_dm h) (h_dtype h))
  else if String.eqb k "nsamples" then zf (fun z => mkHdr (h_nchans h) (h_nbits h) z (h_fch1 h) (h_foff h) (h_tsamp h) (h_tstart h) (h_dm h) (h_dtype h))
  else if String.eqb k "fch1" then qf (fun q => mkHdr (h_nchans h) (h_nbits h) (h_nsamples h) q (h_foff h) (h_tsamp h) (h_tstart h) (h_dm h) (h_dtype h))
  else if String.eqb k "foff" then qf (fun q => mkHdr (h_nchans h) (h_nbits h) (h_nsamples h) (h_fch1 h) q (h_tsamp h) (h_tstart h) (h_dm h) (h_dtype h))
  else if String.eqb k "tsamp" then qf (fun q => mkHdr (h_nchans h) (h_nbits h) (h_nsamples h) (h_fch1 h) (h_foff h) q (h_tstart h) (h_dm h) (h_dtype h))
  else if String.eqb k "tstart" then qf (fun q => mkHdr (h_nchans h) (h_nbits h) (h_nsamples h) (h_fch1 h) (h_foff h) (h_tsamp h) q (h_dm h) (h_dtype h))
  else if String.eqb k "dm" then qf (fun q => mkHdr (h_nchans h) (h_nbits h) (h_nsamples h) (h_fch1 h) (h_foff h) (h_tsamp h) (h_tstart h) q (h_dtype h))
  else if String.eqb k "data_type" then
    match v with VS s => mkHdr (h_nchans h) (h_nbits h) (h_nsamples h) (h_fch1 h) (h_foff h) (h_tsamp h) (h_tstart h) (h_dm h) (dtype_code s) | _ => h end
  else h.

Definition known (fields : list string) (k : string) : bool := existsb (String.eqb k) fields.

(** Header.new_header: `new = asdict(self); new.update(update_dict); keep only the keys of asdict(self)` *)
Definition new_header (fields : list string) (h : Hdr) (upd : list (string * val)) : Hdr :=
  fold_left (fun acc kv => if known fields (fst kv) then set_field (fst kv) (snd kv) acc else acc) upd h.

(** Header.prep_outfile(filename, updates=..., nbits=...): `if nbits is None: nbits = self.nbits`,
    `if nbits != self.nbits: updates["nbits"] = nbits`; header written = new_header(updates); the writer packs at [nbits].
    Result: (header written to the file, depth the FileWriter is opened with). *)
Definition prep_outfile (fields : list string) (h : Hdr) (upd : list (string * val)) (nbits : option Z) : Hdr * Z :=
  let nb := match nbits with Some b => b | None => h_nbits h end in
  let upd' := if Z.eqb nb (h_nbits h) then upd else upd ++ [("nbits"%string, VZ nb)] in
  (new_header fields h upd', nb).

(** centre frequency labelled on channel k *)
Definition label (h : Hdr) (k : Z) : Q := h_fch1 h + inject_Z k * h_foff h.

(** Python int(x) on a float: truncation towards zero *)
Definition Qtrunc (q : Q) : Z := if Qle_bool 0 q then Qfloor q else Qceiling q.
(** Python round(x): nearest integer, ties to even *)
Definition Qround_he (q : Q) : Z :=
  let f := Qfloor q in
  let r := (q - inject_Z f)%Q in
  match (r ?= 1 # 2)%Q with Lt => f | Gt => f + 1 | Eq => if Z.even f then f else f + 1 end.
(** Python float floor division a // b (as an exact number) *)
Definition Qfloordiv (a b : Q) : Q := inject_Z (Qfloor (a / b)).

(** len(a[lo:hi]) for a sequence of length n (negative indices count from the end, then everything is clamped) *)
Definition py_slice_len (n lo hi : Z) : Z :=
  let norm i := if i <? 0 then Z.max 0 (i + n) else Z.min i n in
  Z.max 0 (norm hi - norm lo).

Definition Qbetween (a b x : Q) : Prop := (Qmin a b <= x /\ x <= Qmax a b)%Q.
Definition Qbetween_b (a b x : Q) : bool := Qle_bool (Qmin a b) x && Qle_bool x (Qmax a b).

(** exact rational value of a finite binary64 number *)
Definition float_to_Q (x : float) : Q :=
  if PrimFloat.eqb x 0%float then 0%Q else
  let a := PrimFloat.abs x in
  let '(m, e) := PrimFloat.frshiftexp a in
  let mz := Uint63.to_Z (PrimFloat.normfr_mantissa m) in
  let ez := Uint63.to_Z e - 2101 - 53 in
  let q := if 0 <=? ez then inject_Z (mz * 2 ^ ez) else (mz # (Z.to_pos (2 ^ (- ez)))) in
  if PrimFloat.ltb x 0%float then Qopp q else q.

(** relative comparison used by the correspondence files: |a - b| <= tol * max(|a|,|b|) *)
Definition Qclose (tol a b : Q) : bool := Qle_bool (Qabs (a - b)) (tol * Qmax (Qabs a) (Qabs b)).
