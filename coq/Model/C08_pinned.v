(** C08: the header updates of the PINNED tree (snapshot fc376ec; unchanged up to the C08 repairs), copied from what
    tools/py2coq/gen_c08.py emits for that tree.  Definitions only.  They are the subjects of the [..._refuted] witnesses and
    [..._partial] theorems of Proofs/C08_pinned.v, which record what was wrong; the property theorems of Props/C08.v are about
    the definitions regenerated from the CURRENT source (Gen/C08.v), never about this file. *)
From Coq Require Import ZArith QArith Qround Qabs Qminmax String List Bool PrimFloat.
Require Import SPP.Model.C08_rt.
Import ListNotations.
Open Scope Z_scope.

Definition pinned_fields : list string :=
  ["filename"%string; "data_type"%string; "nchans"%string; "foff"%string; "fch1"%string; "nbits"%string; "tsamp"%string; "tstart"%string; "nsamples"%string; "nifs"%string; "coord"%string; "azimuth"%string; "zenith"%string; "telescope"%string; "backend"%string; "source"%string; "frame"%string; "ibeam"%string; "nbeams"%string; "dm"%string; "period"%string; "accel"%string; "signed"%string; "rawdatafile"%string; "stream_info"%string].

Definition pinned_mjd_after_nsamps (h : Hdr) (nsamps : Z) : Q := (h_tstart h + ((inject_Z nsamps) * (h_tsamp h))%Q / 86400)%Q.

(** FilReader.read_block: `chan_start = int((fch1 - self.header.fch1) / self.header.foff)` after the guard
    `if fch1 > self.header.fch1 or nchans > self.header.nchans: raise`; header fch1 = the requested value *)
Definition pinned_to_index (x : Q) : Z := Qtrunc x.
Definition pinned_ratio_f (fch1 hfch1 hfoff : float) : float := ((fch1 - hfch1)%float / hfoff)%float.
Definition pinned_chan_start_f (fch1 hfch1 hfoff : float) : Z := pinned_to_index (float_to_Q (pinned_ratio_f fch1 hfch1 hfoff)).
Definition pinned_read_block_model (h : Hdr) (start : Z) (nsamps : Z) (fch1 : Q) (nchans : Z) (nsamps_read : Z) : option (Z * Z * Hdr) :=
  if ((negb (Qle_bool fch1 (h_fch1 h))) || (nchans >? (h_nchans h))%Z) then None else
  if ((start <? 0)%Z || ((start + nsamps)%Z >? (h_nsamples h))%Z) then None else
  let chan_start := pinned_to_index ((fch1 - (h_fch1 h))%Q / (h_foff h))%Q in
  let start_mjd := (pinned_mjd_after_nsamps h start) in
  Some (chan_start, py_slice_len (h_nchans h) chan_start (chan_start + nchans)%Z,
    new_header pinned_fields h
    [("tstart"%string, VQ start_mjd);
     ("nsamples"%string, VZ nsamps_read);
     ("fch1"%string, VQ fch1);
     ("nchans"%string, VZ nchans)]).

(** Filterbank.subband: `new_foff = foff * nchans // nsub` (float floor division), `new_fch1 = ftop - new_foff / 2`,
    the DM stored under the key "refdm" (not a field of Header), tstart not set *)
Definition pinned_upd_subband (h : Hdr) (dm : Q) (nsub : Z) (start : Z) : list (string * val) :=
  let new_foff := (Qfloordiv ((h_foff h) * (inject_Z (h_nchans h)))%Q (inject_Z nsub)) in
  let new_fch1 := (((h_fch1 h) - ((1 # 2)%Q * (h_foff h))%Q)%Q - (new_foff / (inject_Z 2))%Q)%Q in
  [("fch1"%string, VQ new_fch1);
     ("foff"%string, VQ new_foff);
     ("refdm"%string, VQ dm);
     ("nchans"%string, VZ nsub);
     ("nbits"%string, VZ 32)].
Definition pinned_hdr_subband (h : Hdr) (dm : Q) (nsub : Z) (start : Z) : Hdr :=
  fst (prep_outfile pinned_fields h (pinned_upd_subband h dm nsub start) (Some 32)).

(** sub-range reductions / transforms: no "tstart" key (shown for collapse and the file written by downsample) *)
Definition pinned_upd_collapse (h : Hdr) (start : Z) (nsamps : Z) (nsamps_none : bool) : list (string * val) :=
  let tim_len := (if nsamps_none then ((h_nsamples h) - start)%Z else nsamps) in
  [("nchans"%string, VZ 1);
     ("dm"%string, VQ (inject_Z 0));
     ("nsamples"%string, VZ tim_len)].
Definition pinned_hdr_collapse (h : Hdr) (start : Z) (nsamps : Z) (nsamps_none : bool) : Hdr :=
  new_header pinned_fields h (pinned_upd_collapse h start nsamps nsamps_none).
Definition pinned_upd_downsample (h : Hdr) (tfactor : Z) (ffactor : Z) (start : Z) : list (string * val) :=
  [("tsamp"%string, VQ ((h_tsamp h) * (inject_Z tfactor))%Q);
     ("nchans"%string, VZ ((h_nchans h) / ffactor)%Z);
     ("foff"%string, VQ ((h_foff h) * (inject_Z ffactor))%Q)].
Definition pinned_hdr_downsample (h : Hdr) (tfactor : Z) (ffactor : Z) (start : Z) : Hdr :=
  fst (prep_outfile pinned_fields h (pinned_upd_downsample h tfactor ffactor start) None).

(** single-channel products: fch1 (and tstart) left at the input's *)
Definition pinned_upd_read_chan (h : Hdr) (ichan : Z) (start : Z) (nsamps : Z) (nsamps_none : bool) : list (string * val) :=
  let tim_len := (if nsamps_none then ((h_nsamples h) - start)%Z else nsamps) in
  [("dm"%string, VQ (inject_Z 0));
     ("nchans"%string, VZ 1);
     ("nsamples"%string, VZ tim_len)].
Definition pinned_hdr_read_chan (h : Hdr) (ichan : Z) (start : Z) (nsamps : Z) (nsamps_none : bool) : Hdr :=
  new_header pinned_fields h (pinned_upd_read_chan h ichan start nsamps nsamps_none).
Definition pinned_upd_extract_chans (h : Hdr) (chan : Z) (start : Z) : list (string * val) :=
  [("nchans"%string, VZ 1);
     ("nbits"%string, VZ 32);
     ("data_type"%string, VS "time series"%string)].
Definition pinned_hdr_extract_chans (h : Hdr) (chan : Z) (start : Z) : Hdr :=
  fst (prep_outfile pinned_fields h (pinned_upd_extract_chans h chan start) (Some 32)).

(** FilterbankBlock.to_file: `updates = {"nbits": 32}` -- the block's DM is not written *)
Definition pinned_upd_block_to_file (h : Hdr) (blk_dm : Q) : list (string * val) := [("nbits"%string, VZ 32)].
Definition pinned_hdr_block_to_file (h : Hdr) (blk_dm : Q) : Hdr :=
  fst (prep_outfile pinned_fields h (pinned_upd_block_to_file h blk_dm) (Some 32)).
