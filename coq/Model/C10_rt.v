(** Runtime prelude of the C10 (online moments) development.  Definitions only.
    The generated file Gen/Moments.v is written in terms of these:
      - [wrap64]/[wrap32]: two's-complement wrap of numba's int64 arithmetic / of a store into an int32 field;
      - [in64]/[in32]: "this intermediate integer does not overflow" (collected by the translator into the
        [..._ok] side conditions);
      - [qmin]/[qmax]: Python min/max and np.minimum/np.maximum on finite values;
      - [z2q]: the int -> float conversion (exact in the model: all float arithmetic is modelled over Q). *)
From Coq Require Import ZArith QArith.
Open Scope Z_scope.

Definition wrap64 (z : Z) : Z := (z + 2 ^ 63) mod 2 ^ 64 - 2 ^ 63.
Definition wrap32 (z : Z) : Z := (z + 2 ^ 31) mod 2 ^ 32 - 2 ^ 31.
Definition in64 (z : Z) : Prop := - 2 ^ 63 <= z < 2 ^ 63.
Definition in32 (z : Z) : Prop := - 2 ^ 31 <= z < 2 ^ 31.

Definition z2q (z : Z) : Q := inject_Z z.

Definition qmin (a b : Q) : Q := if Qle_bool a b then a else b.
Definition qmax (a b : Q) : Q := if Qle_bool a b then b else a.
