(** Hand-written model for C03: the bit-field specification and the dispatch by name done in io/bits.py.
    Definitions only (no proofs), so the model still evaluates when a proof is broken. *)
From Coq Require Import ZArith List Bool.
Require Import SPP.Base.Rt SPP.Gen.Kernels.
Import ListNotations.
Open Scope Z_scope.

(** * Specification: bit fields of a byte *)
Definition bf (nbits : Z) : Z := 8 / nbits.
Definition shift_of (nbits : Z) (big : bool) (k : Z) : Z :=
  if big then 8 - nbits * (k + 1) else nbits * k.
Definition field (nbits : Z) (big : bool) (b k : Z) : Z :=
  (b / 2 ^ shift_of nbits big k) mod 2 ^ nbits.
Definition byte_of (nbits : Z) (big : bool) (f : Z -> Z) : Z :=
  sum_n (Z.to_nat (bf nbits)) (fun k => f k * 2 ^ shift_of nbits big k).

(** dispatch by name, as [getattr(kernels, f"unpack{nbits}_8_{order}")] in io/bits.py *)
Definition unpack_run (nbits : Z) (big : bool) (n : Z) (a u : arr) : arr :=
  if nbits =? 1 then (if big then unpack1_8_big_run n a u else unpack1_8_little_run n a u)
  else if nbits =? 2 then (if big then unpack2_8_big_run n a u else unpack2_8_little_run n a u)
  else (if big then unpack4_8_big_run n a u else unpack4_8_little_run n a u).
Definition pack_run (nbits : Z) (big : bool) (n : Z) (v p : arr) : arr :=
  if nbits =? 1 then (if big then pack1_8_big_run n v p else pack1_8_little_run n v p)
  else if nbits =? 2 then (if big then pack2_8_big_run n v p else pack2_8_little_run n v p)
  else (if big then pack4_8_big_run n v p else pack4_8_little_run n v p).

