(** Vocabulary shared by the generated Gen/C16Rfi.v (regenerated from sigpyproc/core/rfi.py and base.py) and the
    hand model Model/C16_MaskAlg.v: boolean channel vectors, exact-rational statistic vectors, the four masks
    of an [RFIMask], and the NumPy idioms the source uses.  Definitions only. *)
From Coq Require Import ZArith QArith Qabs List Bool.
Require Import SPP.Base.Rt.
Import ListNotations.
Open Scope Z_scope.

(** a vector indexed by channel number; only indices [0 <= c < nchans] are meaningful *)
Definition bvec := Z -> bool.
Definition qvec := Z -> Q.

(** np.zeros(n, dtype="bool"), np.logical_or, np.logical_and, ~ *)
Definition vfalse : bvec := fun _ => false.
Definition vor (a b : bvec) : bvec := fun c => a c || b c.
Definition vand (a b : bvec) : bvec := fun c => a c && b c.
Definition vnot (a : bvec) : bvec := fun c => negb (a c).

(** vector-with-scalar comparisons  v >= x, v <= x, v > x, v < x *)
Definition vge (v : qvec) (x : Q) : bvec := fun c => Qle_bool x (v c).
Definition vle (v : qvec) (x : Q) : bvec := fun c => Qle_bool (v c) x.
Definition vgt (v : qvec) (x : Q) : bvec := fun c => negb (Qle_bool (v c) x).
Definition vlt (v : qvec) (x : Q) : bvec := fun c => negb (Qle_bool x (v c)).
(** the same comparisons when the scalar may be infinite (a range end point float("-inf") / float("inf")): IEEE order against a finite v *)
Inductive xq := XNegInf | XFin (q : Q) | XPosInf.
Definition vgex (v : qvec) (x : xq) : bvec :=
  fun c => match x with XNegInf => true | XFin q => Qle_bool q (v c) | XPosInf => false end.
Definition vlex (v : qvec) (x : xq) : bvec :=
  fun c => match x with XNegInf => false | XFin q => Qle_bool (v c) q | XPosInf => true end.
Definition vabs (v : qvec) : qvec := fun c => Qabs (v c).
Definition vsub (a b : qvec) : qvec := fun c => (a c - b c)%Q.

(** the mutable part of an RFIMask instance (rfi.py: chan_mask, user_mask, stats_mask, custom_mask) *)
Record mstate := MState { chan_mask : bvec; user_mask : bvec; stats_mask : bvec; custom_mask : bvec }.
Definition set_chan_mask (s : mstate) (v : bvec) := MState v (user_mask s) (stats_mask s) (custom_mask s).
Definition set_user_mask (s : mstate) (v : bvec) := MState (chan_mask s) v (stats_mask s) (custom_mask s).
Definition set_stats_mask (s : mstate) (v : bvec) := MState (chan_mask s) (user_mask s) v (custom_mask s).
Definition set_custom_mask (s : mstate) (v : bvec) := MState (chan_mask s) (user_mask s) (stats_mask s) v.

(** the [method] string of apply_method / clean_rfi *)
Inductive method_t := M_mad | M_iqrm | M_other.

(** np.arange(lo, hi) *)
Definition arange (lo hi : Z) : list Z := map (fun i => lo + i) (zrange (hi - lo)).

(** np.pad(a, r, mode="edge") of a vector of length n:  element k of the padded vector *)
Definition pad_edge (n : Z) (a : qvec) (r : Z) : qvec := fun k => a (Z.max 0 (Z.min (n - 1) (k - r))).

(** np.lib.stride_tricks.as_strided(base, shape=(n, w), strides=(s, s)) on a contiguous 1-D [base] of [len]
    elements, where [s] is [ratio] times the item size of [base]:  element [i, j] is read from the memory
    cell [(i + j) * ratio] items after the start of [base].  Inside the allocation that is an element of
    [base]; outside it is whatever happens to be in memory ([oob], arbitrary). *)
Definition as_strided2 (len ratio : Z) (base oob : qvec) : Z -> Z -> Q :=
  fun i j => let k := (i + j) * ratio in if (0 <=? k) && (k <? len) then base k else oob k.

(** boolean fancy indexing  v[m]  for a vector of length n: the selected elements in order *)
Definition select (n : Z) (v : qvec) (m : bvec) : list Q :=
  map v (filter m (zrange n)).

(** any-over-a-list of vectors *)
Definition vany {A} (f : A -> bvec) (l : list A) : bvec := fun c => existsb (fun x => f x c) l.
