(** C08 specification vocabulary (definitions only): what "the header describes the data" means, clause by clause. *)
From Coq Require Import ZArith QArith Qminmax.
Require Import SPP.Model.C08_rt.
Open Scope Z_scope.

(** tstart advanced by [start] input samples (exact; the 5 microsecond clause is the float tolerance of the correspondence) *)
Definition advanced (h h' : Hdr) (start : Z) : Prop :=
  (h_tstart h' == h_tstart h + inject_Z start * h_tsamp h / 86400)%Q.
(** tsamp multiplied by the time-decimation factor *)
Definition decimated (h h' : Hdr) (tf : Z) : Prop := (h_tsamp h' == h_tsamp h * inject_Z tf)%Q.
(** selection: output channel j carries the label of input channel c0 + j (identical order) *)
Definition copies_channels (h h' : Hdr) (c0 : Z) : Prop := forall j, (label h' j == label h (c0 + j))%Q.
(** inversion: output channel j carries the label of input channel nchans-1-j *)
Definition reverses_channels (h h' : Hdr) : Prop := forall j, (label h' j == label h (h_nchans h - 1 - j))%Q.
(** output channel j is formed from the [factor] inputs j*factor .. j*factor+factor-1: its label lies within their span
    (ends included) and the channel spacing is scaled by the factor *)
Definition sums_channels (h h' : Hdr) (factor : Z) : Prop :=
  (h_foff h' == h_foff h * inject_Z factor)%Q /\
  forall j, Qbetween (label h (j * factor)) (label h (j * factor + factor - 1)) (label h' j).
(** a single output channel formed from ALL input channels *)
Definition within_band (h h' : Hdr) : Prop := Qbetween (label h 0) (label h (h_nchans h - 1)) (label h' 0).

(** a set of two files read as one stream (Header.from_sigproc on a list of files): the header of the FIRST file with the
    sample counts added; [contiguous]: the second file starts where the first one ends, at the same sampling interval
    (what check_contiguity demands).  Hand model, tied by the correspondence run on real file sets. *)
Definition fileset (h1 h2 : Hdr) : Hdr :=
  mkHdr (h_nchans h1) (h_nbits h1) (h_nsamples h1 + h_nsamples h2) (h_fch1 h1) (h_foff h1) (h_tsamp h1) (h_tstart h1) (h_dm h1) (h_dtype h1).
Definition contiguous (h1 h2 : Hdr) : Prop :=
  (h_tstart h2 == h_tstart h1 + inject_Z (h_nsamples h1) * h_tsamp h1 / 86400)%Q /\ (h_tsamp h2 == h_tsamp h1)%Q.
(** every field this property speaks about is the input's (a product that neither dedisperses nor changes the axes) *)
Definition same_header (h h' : Hdr) : Prop :=
  h_nchans h' = h_nchans h /\ h_nbits h' = h_nbits h /\ h_nsamples h' = h_nsamples h /\ (h_fch1 h' == h_fch1 h)%Q /\ (h_foff h' == h_foff h)%Q /\
  (h_tsamp h' == h_tsamp h)%Q /\ (h_tstart h' == h_tstart h)%Q /\ (h_dm h' == h_dm h)%Q /\ h_dtype h' = h_dtype h.
