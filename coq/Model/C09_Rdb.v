(** C09 -- hand-written executable model of the sample loop of FilReader.read_dedisp_block.  Definitions only.

    The file is x[c][p] (channel c of time sample p; read_block's orientation).  The loop reads the file
    strictly sequentially from the seek position; per loop value v it computes samples_offset = offs v,
    selects channels (the relevant ones, or -- as the pinned tree does -- the contiguous hull
    arange(relevant.min(), relevant.max()+1), which raises on an empty selection), stores
    data[sel, samples_read[sel]] = sample[sel] (IndexError if a counter left [0, nsamps)) and increments the
    counters.  Everything specific to the source text (range test, seek position, loop range, offset,
    relevance test, hull or not) is a parameter of [rdb_core]; [rdb_run] instantiates it with the definitions
    regenerated from sigpyproc/readers.py (Gen/C09.v). *)
From Coq Require Import ZArith List Bool.
Require Import SPP.Base.Rt SPP.Model.C09_Arr2 SPP.Gen.C09.
Import ListNotations.
Open Scope Z_scope.

Record rdb_state := mk_rdb { rs_data : arr2; rs_count : arr; rs_pos : Z }.

Definition memz (c : Z) (l : list Z) : bool := existsb (Z.eqb c) l.

Definition rdb_select (hull : bool) (rel : list Z) : option (list Z) :=
  if hull then
    match rel with
    | [] => None                                        (* relevant_chans.min() of an empty array *)
    | c0 :: _ => Some (map (fun k => c0 + k) (zrange (last rel c0 + 1 - c0)))
    end
  else Some rel.

Definition rdb_step (hull : bool) (relevant : Z -> Z -> bool) (offs : Z -> Z)
    (x : arr2) (file_nsamples nchans nsamps : Z) (v : Z) (st : rdb_state) : option rdb_state :=
  let s := offs v in
  let rel := filter (relevant s) (zrange nchans) in
  do sel <- rdb_select hull rel;
  (* sample_data = cread(nchans): a short read at end of file makes the fancy-indexed store fail *)
  if (rs_pos st <? 0) || (file_nsamples <=? rs_pos st) then None else
  if existsb (fun c => negb ((0 <=? rs_count st c) && (rs_count st c <? nsamps))) sel then None else
  Some (mk_rdb (fun c k => if memz c sel && (k =? rs_count st c) then x c (rs_pos st) else rs_data st c k)
               (fun c => if memz c sel then rs_count st c + 1 else rs_count st c)
               (rs_pos st + 1)).

Definition rdb_core (hull : bool) (out_of_range : bool) (seek lo hi : Z) (relevant : Z -> Z -> bool) (offs : Z -> Z)
    (x : arr2) (file_nsamples nchans nsamps : Z) : option arr2 :=
  if out_of_range then None else
  if (seek <? 0) || (file_nsamples <=? seek) then None else          (* FileReader.seek range check *)
  do st <- iter_opt (Z.to_nat (hi - lo))
             (fun i st => rdb_step hull relevant offs x file_nsamples nchans nsamps (lo + i) st)
             (mk_rdb (fun _ _ => 0) zeros seek);
  Some (rs_data st).

(** read_dedisp_block(start, nsamps, dm) with delays = get_dmdelays(dm) *)
Definition rdb_run (x : arr2) (file_nsamples nchans : Z) (delays : arr) (start nsamps : Z) : option arr2 :=
  rdb_core rdb_hull (rdb_out_of_range delays nchans start nsamps file_nsamples)
    (rdb_seek delays nchans start nsamps) (rdb_loop_lo delays nchans start nsamps) (rdb_loop_hi delays nchans start nsamps)
    (rdb_relevant delays nchans start nsamps) (rdb_offset delays nchans start nsamps)
    x file_nsamples nchans nsamps.

(** the form found in the pinned tree (fc376ec), kept as a fixed record for the refutation witness:
    seek to start, sweep only [start, start + nsamps), write the contiguous hull *)
Definition rdb_pinned (x : arr2) (file_nsamples nchans : Z) (delays : arr) (start nsamps : Z) : option arr2 :=
  rdb_core true
    (existsb (fun c => start + delays c <? 0) (zrange nchans) || existsb (fun c => start + delays c + nsamps >? file_nsamples) (zrange nchans))
    start 0 nsamps
    (fun s c => (start + delays c + nsamps >? s) && (start + delays c <=? s)) (fun v => start + v)
    x file_nsamples nchans nsamps.
