(** C12: time-domain definitions (circular / linear convolution, correlation), the assumed behaviour of the
    external FFT, the two forms FourierSeries.ifft can have, and an executable instance of the FFT interface.
    Definitions only. *)
From Coq Require Import ZArith List Bool.
Require Import SPP.Base.Rt SPP.Model.C12_np.
Import ListNotations.
Open Scope Z_scope.

(** index view: signals are functions Z -> Z that vanish outside their support *)
Definition padf (a : arr) (n : Z) : arr := fun i => if (0 <=? i) && (i <? n) then a i else 0.

(** circular convolution of two length-N signals *)
Definition cconv (N : Z) (x y : arr) (t : Z) : Z := sum_n (Z.to_nat N) (fun j => x j * y ((t - j) mod N)).

(** full linear convolution: (a * b)[t] = sum_j a[j] b[t-j], b read as 0 outside its support *)
Definition lconv (n1 : Z) (a b : arr) (t : Z) : Z := sum_n (Z.to_nat n1) (fun j => a j * b (t - j)).

(** cross-correlation at lag l: sum_j x[j] y[j-l]  ( = sum_i x[i+l] y[i], see [xcorr_shift] ) *)
Definition xcorr (n : Z) (x y : arr) (l : Z) : Z := sum_n (Z.to_nat n) (fun j => x j * y (j - l)).
Definition xcorr_shift (m : Z) (x y : arr) (l : Z) : Z := sum_n (Z.to_nat m) (fun i => x (i + l) * y i).

Definition cconv_list (N : Z) (x y : list Z) : list Z := to_list N (cconv N (of_list x) (of_list y)).
Definition lconv_list (a b : list Z) : list Z := to_list (len a + len b - 1) (lconv (len a) (of_list a) (of_list b)).
(** entry k is the correlation at lag k - (len y - 1): lags -(m-1) .. n-1 *)
Definition xcorr_list (x y : list Z) : list Z :=
  to_list (len x + len y - 1) (fun k => xcorr (len x) (of_list x) (of_list y) (k - (len y - 1))).

(** Assumed behaviour of the external transform (pocketfft through rocket-fft), in exact arithmetic.
    H1 good sizes do not shrink; H2 inverse of forward = input cropped/zero-padded to the transform length;
    H3 convolution theorem; H4 a length-N real transform has N/2+1 bins (so has a product of two);
    H5 the inverse returns as many samples as it is asked for. *)
Definition fft_laws (F : fft_ops) : Prop :=
  (forall n, 1 <= n -> n <= fft_good_size F n) /\
  (forall a N, 1 <= N -> fft_irfft F (fft_rfft F a N) N = pad a N) /\
  (forall a b N, 1 <= N -> fft_irfft F (fft_smul F (fft_rfft F a N) (fft_rfft F b N)) N = cconv_list N (pad a N) (pad b N)) /\
  (forall a b N, 1 <= N -> fft_slen F (fft_rfft F a N) = N / 2 + 1 /\
                           fft_slen F (fft_smul F (fft_rfft F a N) (fft_rfft F b N)) = N / 2 + 1) /\
  (forall s n, 0 <= n -> len (fft_irfft F s n) = n).

(** the two forms of FourierSeries.ifft: inverse called without a length (NumPy default), or with header.nsamples *)
Definition ifft_default_len (F : fft_ops) (data : fft_spec F) (hdr_nsamples : Z) : list Z :=
  fft_irfft F data (np_irfft_default_len (fft_slen F data)).
Definition ifft_given_len (F : fft_ops) (data : fft_spec F) (hdr_nsamples : Z) : list Z :=
  fft_irfft F data hdr_nsamples.

(** An executable instance of the interface ("time-domain transform"): the spectrum of a signal is the padded
    signal itself, the product of spectra is the circular convolution.  Used to show the laws are satisfiable
    and to run the generated bookkeeping under vm_compute against the implementation. *)
Definition td_rfft (a : list Z) (N : Z) : list Z := pad a N.
Definition td_irfft (s : list Z) (n : Z) : list Z := pad s n.
Definition td_smul (s1 s2 : list Z) : list Z := cconv_list (len s1) s1 s2.
Definition td_slen (s : list Z) : Z := len s / 2 + 1.
(** smallest 5-smooth number >= n (pocketfft good_size_real), by bounded search *)
Fixpoint strip (fuel : nat) (p n : Z) : Z :=
  match fuel with O => n | S f => if (1 <? n) && (n mod p =? 0) then strip f p (n / p) else n end.
Definition smooth5 (n : Z) : bool := strip 64 5 (strip 64 3 (strip 64 2 n)) =? 1.
Fixpoint search (fuel : nat) (n : Z) : Z :=
  match fuel with O => n | S f => if smooth5 n then n else search f (n + 1) end.
Definition good5 (n : Z) : Z := if n <=? 1 then 1 else search (Z.to_nat n) n.

(** the instance, with an arbitrary good-size function *)
Definition td_fft (gs : Z -> Z) : fft_ops :=
  {| fft_spec := list Z; fft_good_size := gs; fft_rfft := td_rfft; fft_irfft := td_irfft; fft_smul := td_smul; fft_slen := td_slen |}.
