(** Hand-written executable model for C14 (time-domain filters and decimators).  DEFINITIONS ONLY.

    What is regenerated from the source and only *used* here (Gen/C14_stats.v, Gen/Kernels.v):
    pad sizes / slice offset of [running_filter], the two compiled mean kernels, the crop / reshape / axes
    of the NumPy decimation paths, the argument order of the kernel calls, [detrend_1d] over Q.
    What is modelled by hand here: NumPy's [pad(mode='symmetric')] as an index map, NumPy's C-order
    reshape / axis reduction as index arithmetic, bottleneck's moving window as "aggregate of the trailing
    [w] entries" (a function parameter), the median (for the correspondence run only). *)
From Coq Require Import ZArith QArith List Bool.
Require Import SPP.Base.Rt SPP.Gen.Kernels SPP.Gen.C14_stats.
Import ListNotations.
Open Scope Z_scope.

(** * Lists *)
Definition sumZ (l : list Z) : Z := fold_right Z.add 0 l.

(** * Symmetric reflection: ... x1 x0 | x0 x1 ... x(n-1) | x(n-1) x(n-2) ...  (period 2n, edge sample repeated) *)
Definition sym (n k : Z) : Z := let m := k mod (2 * n) in if m <? n then m else 2 * n - 1 - m.

(** np.pad(x, (pl, pr), 'symmetric'): entry [k] of the padded array (length pl + n + pr), for every pl, pr >= 0,
    including pads longer than the array *)
Definition pad_sym (x : arr) (n pl : Z) : arr := fun k => x (sym n (k - pl)).
Definition pad_len (n pl pr : Z) : Z := pl + n + pr.

(** * Moving window: the trailing [w] entries ending at [t] *)
Definition trailing (a : arr) (w t : Z) : list Z := map (fun j => a (t - w + 1 + j)) (zrange w).
(** executable instance of the moving function, used for the correspondence and the non-vacuity examples *)
Definition move_trailing (agg : list Z -> Z) (a : arr) (len w : Z) : arr := fun t => agg (trailing a w t).

(** * stats.running_filter, composed as in the source: pad, moving function, slice *)
Definition running_filter_model (move : arr -> Z -> Z -> arr) (x : arr) (n w : Z) : arr :=
  let pl := rf_pad_left w in
  let pr := rf_pad_right w in
  let padded := pad_sym x n pl in
  let filtered := move padded (pad_len n pl pr) w in
  fun i => filtered (i + rf_slice_start w).
Definition running_filter_len (n w : Z) : Z := pad_len n (rf_pad_left w) (rf_pad_right w) - rf_slice_start w.

(** the window the property states: [w] samples, offsets -(w/2) .. w-1-(w/2) around sample [i]
    (for even [w] the extra sample is on the left), series reflected symmetrically *)
Definition centred_window (x : arr) (n w i : Z) : list Z := map (fun j => x (sym n (i - w / 2 + j))) (zrange w).

(** TimeSeries.deredden *)
Definition deredden_model (move : arr -> Z -> Z -> arr) (x : arr) (n w : Z) : arr :=
  deredden_out x (running_filter_model move x n w).

(** * Decimation: the groups the property talks about *)
Definition group1 (x : arr) (f i : Z) : list Z := map (fun j => x (i * f + j)) (zrange f).
(** group (i, j) of a row-major dim1 x dim2 array ([dim2] fastest): rows i*f1 .. i*f1+f1-1, columns j*f2 .. j*f2+f2-1 *)
Definition group2 (x : arr) (dim2 f1 f2 i j : Z) : list Z :=
  flat_map (fun a => map (fun b => x (dim2 * (i * f1 + a) + (j * f2 + b))) (zrange f2)) (zrange f1).

(** NumPy: [op(x[:crop].reshape(-1, cols), axis=1)]: number of rows and row [i] *)
Definition np_rows (crop cols : Z) : Z := crop / cols.
Definition np_rows_reduce (agg : list Z -> Z) (x : arr) (cols i : Z) : Z :=
  agg (map (fun j => x (i * cols + j)) (zrange cols)).

(** NumPy: [X[:c1, :c2].reshape(s0, s1, s2, s3)] where X is the row-major view with rows of length [dim2] of
    the flat array [x]: the cropped block is copied in C order, so its element number [l] is X[l / c2, l mod c2] *)
Definition np_crop_reshape4 (x : arr) (dim2 : Z) (crop : Z * Z) (shape : Z * Z * Z * Z) (i a j b : Z) : Z :=
  let '(s0, s1, s2, s3) := shape in
  let l := ((i * s1 + a) * s2 + j) * s3 + b in
  x (dim2 * (l / snd crop) + l mod snd crop).
(** reduction over axes (1, 3): entry (i, j) of the (s0, s2) result *)
Definition np_reduce13 (agg : list Z -> Z) (x : arr) (dim2 : Z) (crop : Z * Z) (shape : Z * Z * Z * Z) (i j : Z) : Z :=
  let '(s0, s1, s2, s3) := shape in
  agg (flat_map (fun a => map (fun b => np_crop_reshape4 x dim2 crop shape i a j b) (zrange s3)) (zrange s1)).

(** stats.downsample_1d, median path *)
Definition ds1_median_len (n f : Z) : Z := np_rows (ds1_median_crop n f) (ds1_median_cols n f).
Definition ds1_median_model (agg : list Z -> Z) (x : arr) (n f : Z) : arr :=
  fun i => np_rows_reduce agg x (ds1_median_cols n f) i.
(** stats.downsample_2d (both methods go through NumPy) *)
Definition ds2_model (agg : list Z -> Z) (x : arr) (dim1 dim2 f1 f2 : Z) (i j : Z) : Z :=
  np_reduce13 agg x dim2 (ds2_crop dim1 dim2 f1 f2) (ds2_shape dim1 dim2 f1 f2) i j.
(** stats.downsample_2d_flat, median path: result.ravel() *)
Definition ds2f_median_model (agg : list Z -> Z) (x : arr) (f1 f2 dim1 dim2 : Z) : arr :=
  let '(s0, s1, s2, s3) := ds2f_shape f1 f2 dim1 dim2 in
  fun k => np_reduce13 agg x (snd (ds2f_dims f1 f2 dim1 dim2)) (ds2f_crop f1 f2 dim1 dim2) (ds2f_shape f1 f2 dim1 dim2) (k / s2) (k mod s2).
(** FilterbankBlock.downsample: data is (nchans, nsamps), factors as passed by the call site *)
Definition block_downsample_model (agg : list Z -> Z) (x : arr) (nchans nsamps ffactor tfactor : Z) (i j : Z) : Z :=
  let '(f1, f2) := block_downsample_factors ffactor tfactor in ds2_model agg x nchans nsamps f1 f2 i j.

(** TimeSeries.downsample: the data of the returned series, composed as the call site does it (the shortcut test and
    the factor handed to stats.downsample_1d are regenerated from timeseries.py): the series itself when the shortcut
    applies, otherwise stats.downsample_1d(self.data, factor, method) -- the mean kernel resp. the NumPy median path *)
Definition ts_downsample_rejects (nsamples factor : Z) : bool :=
  if ts_downsample_returns_self factor then false else ds1_rejects nsamples (ts_downsample_factor_arg factor).
Definition ts_downsample_mean_model (divcast : Z -> Z -> Z) (nsamples : Z) (junk data : arr) (factor : Z) : arr :=
  if ts_downsample_returns_self factor then data
  else ds1_mean_call divcast nsamples junk data (ts_downsample_factor_arg factor).
Definition ts_downsample_median_model (agg : list Z -> Z) (data : arr) (nsamples factor : Z) : arr :=
  if ts_downsample_returns_self factor then data
  else ds1_median_model agg data nsamples (ts_downsample_factor_arg factor).
(** number of samples of the result (header nsamples = len of the decimated array; the mean kernel allocates len // factor) *)
Definition ts_downsample_len (nsamples factor : Z) : Z :=
  if ts_downsample_returns_self factor then nsamples else ds1_median_len nsamples (ts_downsample_factor_arg factor).

(** * Aggregates used by the correspondence run *)
(** "true division then cast" instances of the hook [divcast]: the exact numerator (compared with out * factor for the
    floating dtypes) and the truncating store into uint8 *)
Definition divcast_num (t f : Z) : Z := t.
Definition divcast_u8 (t f : Z) : Z := (t / f) mod 256.

Fixpoint insert_sorted (x : Z) (l : list Z) : list Z :=
  match l with [] => [x] | y :: r => if x <=? y then x :: l else y :: insert_sorted x r end.
Definition sort_z (l : list Z) : list Z := fold_right insert_sorted [] l.
(** twice the median (so that it stays an integer) *)
Definition med2 (l : list Z) : Z :=
  let s := sort_z l in
  let n := length s in
  if Nat.even n then nth (n / 2 - 1) s 0 + nth (n / 2) s 0 else 2 * nth (n / 2) s 0.

(** * Least squares (for detrend_1d over Q) *)
Fixpoint sumQ (n : nat) (f : Z -> Q) : Q := match n with O => 0%Q | S k => (sumQ k f + f (Z.of_nat k))%Q end.
