(** Hand-written executable model for C05: sexagesimal packing of RA/Dec ([Header.to_sigproc] -> [parse_radec]),
    frame flags and telescope/backend id tables.  Constants, formatting modes, [flags_of_frame] and
    [frame_of_flags] come from Gen/C05Header.v (regenerated from the source).  Definitions only.

    Positions are exact decimals: the seconds field is an integer number of units of 1/S second (S = 10^8 for the
    strings printed by [Angle.to_string] of the installed astropy; the theorems hold for every S >= 1).  The
    model follows the arithmetic of [parse_radec] literally on these exact decimals; what binary64 adds (errors
    of about 1e-10 arcsec) is bounded by the correspondence run, not proved. *)
From Coq Require Import ZArith List Bool.
Require Import SPP.Gen.C05Header SPP.Model.C05_HeaderCodec.
Import ListNotations.
Open Scope Z_scope.

(** sign, degrees (or hours), minutes, seconds (in units of 1/S) as printed by [Angle.to_string(sep=":")] *)
Record sexa : Set := mk_sexa { sx_neg : bool; sx_deg : Z; sx_min : Z; sx_sec : Z }.

Definition wf_sexa (S : Z) (c : sexa) : Prop :=
  0 <= sx_deg c /\ 0 <= sx_min c < 60 /\ 0 <= sx_sec c < 60 * S.

(** the angle in units of 1/S arcsecond (or second of time) *)
Definition angle (S : Z) (c : sexa) : Z :=
  let a := (sx_deg c * 60 + sx_min c) * (60 * S) + sx_sec c in
  if sx_neg c then - a else a.

(** [float(self.dec.replace(":", ""))]: the digits DDMMSS.ssss read as one decimal number, in units of 1/S *)
Definition pack (S : Z) (c : sexa) : Z :=
  let a := (sx_deg c * 100 + sx_min c) * (100 * S) + sx_sec c in
  if sx_neg c then - a else a.

(** repr() of a float x with 0 < x < 1e-4 uses exponent notation; astropy's angle lexer accepts an exponent only
    after a mantissa containing a '.', so "1e-05" (one significant digit) is rejected, "1.5e-05" is accepted.
    Holds for the exact decimal [P / S] when [P / S < 1e-4], where every divmod of [parse_radec] is exact. *)
Fixpoint strip10 (fuel : nat) (n : Z) : Z :=
  match fuel with
  | O => n
  | S f => if (n mod 10 =? 0) && negb (n =? 0) then strip10 f (n / 10) else n
  end.
Definition one_digit (n : Z) : bool := strip10 (Z.to_nat (Z.log2 n + 1)) n <? 10.
Definition repr_rejected (S P : Z) : bool := (0 <? P) && (P * 10000 <? S) && one_digit P.

(** [parse_radec], declination half.  [numeric]: the degree field is [sign * int(de)] (so [-1 * 0] prints "0");
    otherwise the sign is a character in front of [int(de)].  The result is what SkyCoord reads from the string:
    negative exactly when the degree field starts with '-'.  [None] : SkyCoord raises. *)
Definition unpack_dec_with (numeric sec_repr : bool) (S P : Z) : option sexa :=
  let sign := if P <? 0 then -1 else 1 in
  let de := Z.abs P / (dec_div_hi * S) in
  let ami := Z.abs P mod (dec_div_hi * S) in
  let ase := ami mod (dec_div_lo * S) in
  let ami := ami / (dec_div_lo * S) in
  if sec_repr && repr_rejected S (Z.abs P) then None
  else Some (mk_sexa (if numeric then sign * de <? 0 else P <? 0) de ami ase).

(** right-ascension half (never negative) *)
Definition unpack_ra_with (sec_repr : bool) (S P : Z) : option sexa :=
  let ho := P / (ra_div_hi * S) in
  let mi := P mod (ra_div_hi * S) in
  let se := mi mod (ra_div_lo * S) in
  let mi := mi / (ra_div_lo * S) in
  if sec_repr && repr_rejected S P then None else Some (mk_sexa false ho mi se).

Definition unpack_dec : Z -> Z -> option sexa := unpack_dec_with dec_sign_numeric dec_sec_repr.
Definition unpack_ra : Z -> Z -> option sexa := unpack_ra_with ra_sec_repr.

(** * Frames *)
Definition all_frames : list Z := [0; 1; 2].
Definition frame_roundtrip (f : Z) : Z := let '(p, b) := flags_of_frame f in frame_of_flags p b.
Definition frames_ok : bool := forallb (fun f => frame_roundtrip f =? f) all_frames.

(** * Identifier tables: [bidict.get(name, default)] and [bidict.inv.get(id, default)] *)
Definition id_of_name (tbl : list (bytes * Z)) (dflt : Z) (name : bytes) : Z :=
  match lookup name tbl with Some i => i | None => dflt end.
Fixpoint name_of_id (tbl : list (bytes * Z)) (dflt : bytes) (i : Z) : bytes :=
  match tbl with
  | [] => dflt
  | (n, j) :: r => if i =? j then n else name_of_id r dflt i
  end.

Definition telescope_to_id : bytes -> Z := id_of_name telescope_ids telescope_id_default.
Definition telescope_of_id : Z -> bytes := name_of_id telescope_ids telescope_default_name.
Definition backend_to_id : bytes -> Z := id_of_name machine_ids machine_id_default.
Definition backend_of_id : Z -> bytes := name_of_id machine_ids backend_default_name.

(** * Witnesses used by Proofs/ and Props/ *)
Definition S8 : Z := 100000000.
(** -00:30:00 *)
Definition c_south : sexa := mk_sexa true 0 30 0.
(** +00:00:00.00001 *)
Definition c_tiny : sexa := mk_sexa false 0 0 1000.


(** * Pointing angles (azimuth, zenith): astropy [Angle]s held in any angular unit, SIGPROC keys in degrees *)
Require Import QArith.
Inductive aunit : Set := UDeg | UArcmin | UArcsec | UHour | URad.
(** degrees per unit; [r] = degrees per radian (180/pi: irrational, so it stays a parameter) *)
Definition deg_per (r : Q) (u : aunit) : Q :=
  match u with UDeg => 1 | UArcmin => 1 # 60 | UArcsec => 1 # 3600 | UHour => 15 | URad => r end.
Definition qangle : Set := (Q * aunit)%type.
Definition deg_of (r : Q) (a : qangle) : Q := fst a * deg_per r (snd a).
(** the number [to_sigproc] stores: converted to degrees, or the raw [.value] in the Angle's own unit *)
Definition angle_written (in_deg : bool) (r : Q) (a : qangle) : Q := if in_deg then deg_of r a else fst a.
Definition pick_attr (attr : Z) (zen az : qangle) : qangle := if (attr =? 0)%Z then zen else az.
Definition za_start_written (r : Q) (zen az : qangle) : Q := angle_written za_start_in_deg r (pick_attr za_start_attr zen az).
Definition az_start_written (r : Q) (zen az : qangle) : Q := angle_written az_start_in_deg r (pick_attr az_start_attr zen az).
Definition pick_key (key : Z) (za az : Q) : Q := if (key =? 0)%Z then za else az.
(** (zenith, azimuth) in degrees of the Header read back from the file written for (zen, az) *)
Definition pointing_roundtrip (r : Q) (zen az : qangle) : Q * Q :=
  let za := za_start_written r zen az in
  let azs := az_start_written r zen az in
  (pick_key zenith_read_key za azs, pick_key azimuth_read_key za azs).
Definition pointing_ok : bool :=
  za_start_in_deg && az_start_in_deg && (za_start_attr =? 0)%Z && (az_start_attr =? 1)%Z
  && (zenith_read_key =? 0)%Z && (azimuth_read_key =? 1)%Z.
(** witness: zenith 1 h = 15 deg, azimuth 2 h = 30 deg *)
Definition zen_w : qangle := (1, UHour).
Definition az_w : qangle := (2, UHour).
