(** Runtime prelude of the C11 (folding) development.  Definitions only.
    Gen/C11Fold.v (regenerated from kernels.fold) models every float-valued expression over Q; [qtrunc] is Python's
    int() of a float: truncation towards zero. *)
From Coq Require Import ZArith QArith.
Open Scope Z_scope.

Definition qtrunc (q : Q) : Z := Z.quot (Qnum q) (Zpos (Qden q)).

(** numpy's v.min() / v.max() over the first n entries of a vector (n >= 1) *)
Fixpoint vmin (n : nat) (v : Z -> Z) : Z := match n with O => v 0 | S m => Z.min (vmin m v) (v (Z.of_nat m)) end.
Fixpoint vmax (n : nat) (v : Z -> Z) : Z := match n with O => v 0 | S m => Z.max (vmax m v) (v (Z.of_nat m)) end.
