(** Runtime prelude of the C11 (folding) development.  Definitions only.
    Gen/C11Fold.v (regenerated from kernels.fold) models every float-valued expression over Q; [qtrunc] is Python's
    int() of a float: truncation towards zero. *)
From Coq Require Import ZArith QArith.
Open Scope Z_scope.

Definition qtrunc (q : Q) : Z := Z.quot (Qnum q) (Zpos (Qden q)).
