(** C17, the two shift laws over Q (the dm-law / period-law anchors) and their executable check on the delay tables of the
    correspondence.  Definitions only. *)
From Coq Require Import ZArith QArith Qround Qabs List Bool.
Require Import SPP.Base.Rt SPP.Gen.FoldRefs SPP.Model.C17_FoldedCube.
Import ListNotations.
Open Scope Z_scope.

(** nearest integer (ties upwards; the theorems only use "within half a bin") *)
Definition Qnearest (x : Q) : Z := Qfloor (x + (1#2))%Q.
(** the two laws: the dispersion drift of sub-band [b] in bins (sub-band frequency fch1 + b * chan_width, reference fch1,
    bin width [tsamp]) and the linear drift of sub-integration [i] *)
Definition dm_drift (K fch1 chanw : Q) (delta tsamp : Q) (b : Z) : Q :=
  (K * delta * (/ ((fch1 + inject_Z b * chanw) * (fch1 + inject_Z b * chanw)) - / (fch1 * fch1)) / tsamp)%Q.
Definition p_drift (nsubints : Z) (dbins : Q) (i : Z) : Q := (inject_Z i * dbins / inject_Z nsubints)%Q.

Definition dm_law (K fch1 chanw eps : Q) (F : Q -> Q -> arr) : Prop :=
  forall delta tsamp b, (Qabs (inject_Z (F delta tsamp b) - dm_drift K fch1 chanw delta tsamp b) <= (1#2) + eps)%Q.
Definition p_law (nsubints : Z) (eps : Q) (T : Q -> arr) : Prop :=
  forall dbins i, (Qabs (inject_Z (T dbins i) - p_drift nsubints dbins i) <= (1#2) + eps)%Q.

(** the exact drifts the final targets imply relative to the folding values (0 when the target is the folding value) *)
Definition dm_exact (K fch1 chanw : Q) (nbins : Z) (dm0 p0 d : Q) (b : Z) : Q :=
  if Qeq_bool (d - dm0) 0 then 0%Q else dm_drift K fch1 chanw (d - dm0) (p0 / inject_Z nbins) b.
Definition p_exact (nsubints nbins : Z) (tobs p0 p : Q) (i : Z) : Q :=
  if Qeq_bool (p_dbins nbins tobs p0 p) 0 then 0%Q else p_drift nsubints (p_dbins nbins tobs p0 p) i.


(** executable: the entries of the implementation's delay tables that are NOT the nearest integer to the exact drift, up to the
    float32 evaluation error [rel] (relative to the size of the terms).  Result: indices of the offending table entries. *)
Definition Qle_b (a b : Q) : bool := Qle_bool a b.
Definition t_entry_ok (ni : Z) (rel : Q) (e : Q * list Z) : bool :=
  let '(dbins, vals) := e in
  forallb (fun i => let ref := p_drift ni dbins i in
                    Qle_b (Qabs (inject_Z (of_list vals i) - ref)) ((1#2) + rel * Qabs ref))
          (map Z.of_nat (seq 0 (Z.to_nat ni))) && (Z.of_nat (length vals) =? ni).
Definition f_entry_ok (K fch1 chanw : Q) (nb : Z) (rel : Q) (e : Q * Q * list Z) : bool :=
  let '(delta, tsamp, vals) := e in
  forallb (fun b => let f := (fch1 + inject_Z b * chanw)%Q in
                    let ref := dm_drift K fch1 chanw delta tsamp b in
                    Qle_b (Qabs (inject_Z (of_list vals b) - ref))
                          ((1#2) + rel * K * Qabs delta * (/ (f * f) + / (fch1 * fch1)) / Qabs tsamp))
          (map Z.of_nat (seq 0 (Z.to_nat nb))) && (Z.of_nat (length vals) =? nb).
Definition bad_idx {A} (ok : A -> bool) (l : list A) : list Z :=
  map fst (filter (fun p => negb (ok (snd p))) (combine (map Z.of_nat (seq 0 (length l))) l)).
Definition law_bad (K fch1 chanw : Q) (ni nb : Z) (rel : Q) (Ftab : list (Q * Q * list Z)) (Ttab : list (Q * list Z)) : list Z * list Z :=
  (bad_idx (f_entry_ok K fch1 chanw nb rel) Ftab, bad_idx (t_entry_ok ni rel) Ttab).
