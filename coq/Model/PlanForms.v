(** The call forms of FilReader.read_plan around Model/Plan.v run_plan: the nsamps argument left out (None: to the end of
    the set, Gen.Plan.fil_plan_nsamps regenerated from readers.py), the trace with the class of the exception, and the
    overlap clause (the leading skipback samples of a block repeat the tail of the previous block).  Definitions only. *)
From Coq Require Import ZArith List Bool.
Require Import SPP.Base.Rt SPP.Gen.Plan SPP.Model.Stream SPP.Model.Plan.
Import ListNotations.
Open Scope Z_scope.

(** read_plan(gulp, start, nsamps, skipback) with nsamps : None | int;  header.nsamples = datalen // samp_stride *)
Definition run_plan_opt (fs : list file) (nch gulp start : Z) (nsamps : option Z) (skipback : Z) : ptrace :=
  run_plan fs nch gulp start (fil_plan_nsamps start nsamps (total fs / nch)) skipback.

(** class of the exception that ended the iteration: 0 none, 1 ValueError, 2 anything else (the model: out of fuel) *)
Definition err_code (e : err) : Z := match e with ValueError => 1 | OutOfFuel => 2 end.
(** (0 completed | 1 error before the first yield | 2 error after a yield, class of the exception, blocks yielded) *)
Definition trace_enc_exc (t : ptrace) : Z * Z * list (Z * Z * list Z) :=
  match t with POk bl => (0, 0, bl) | PErr [] e => (1, err_code e, []) | PErr bl e => (2, err_code e, bl) end.

(** the last [d] elements *)
Definition lastn (d : Z) (l : list Z) : list Z := skipn (Z.to_nat (len l - d)) l.
(** every block after the first begins with the last [d] elements of the block before it *)
Fixpoint overlaps_from (d : Z) (prev : list Z) (bl : list (Z * Z * list Z)) : Prop :=
  match bl with [] => True | (_, _, dd) :: r => firstn (Z.to_nat d) dd = lastn d prev /\ overlaps_from d dd r end.
Definition overlaps (d : Z) (bl : list (Z * Z * list Z)) : Prop :=
  match bl with [] => True | (_, _, dd) :: r => overlaps_from d dd r end.
