(** Hand-written model for C16 (mask side).  Definitions only.
    The operations themselves ([apply_mask], [apply_method], [apply_funcn], [clean_rfi], [double_mad_mask],
    [iqrm_mask]) are NOT written here: they are regenerated from rfi.py / base.py into Gen/C16Rfi.v.  This file
    adds (1) specifications, (2) histories of operations on one RFIMask, and (3) executable instances of what the
    theorems keep abstract (z-score estimators, custom functions), used only by the correspondence run. *)
From Coq Require Import ZArith QArith Qabs List Bool.
Require Import SPP.Base.Rt SPP.Model.C16_Vec SPP.Gen.C16Rfi.
Import ListNotations.
Open Scope Z_scope.

(** * Specifications *)
(** a centre frequency lies in one of the closed ranges *)
Definition in_ranges (f : Q) (fm : list (Q * Q)) : bool :=
  existsb (fun r => Qle_bool (fst r) f && Qle_bool f (snd r)) fm.

(** |z| > thr *)
Definition beyond (thr z : Q) : bool := negb (Qle_bool (Qabs z) thr).

(** the lags of IQRM and the lagged difference with edge clamping: x[i] - x[clamp(i + lag)] *)
Definition iqrm_lags (radius : Z) : list Z := arange (- radius) 0 ++ arange 1 (radius + 1).
Definition clamp (n i : Z) : Z := Z.max 0 (Z.min (n - 1) i).
Definition lagdiff (n : Z) (a : qvec) (lag : Z) : qvec := fun i => Qminus (a i) (a (clamp n (i + lag))).

(** the statistics decision under a method, per statistic vector *)
Definition mad_flag (zs : qvec -> qvec) (thr : Q) (a : qvec) : bvec := fun c => beyond thr (zs a c).
Definition iqrm_flag (zi : qvec -> qvec) (n radius : Z) (thr : Q) (a : qvec) : bvec :=
  fun c => existsb (fun lag => beyond thr (zi (lagdiff n a lag) c)) (iqrm_lags radius).

(** * The generated functions with the library's own arguments *)
Definition mad_fn (zs : qvec -> qvec) : qvec -> Q -> option bvec := double_mad_mask zs.
Definition iqrm_fn (zi : qvec -> qvec) (n ratio : Z) (oob : qvec) : qvec -> Q -> option bvec :=
  fun a t => iqrm_mask zi n ratio oob a t iqrm_default_radius.

(** * Histories: any sequence of public operations on one RFIMask *)
Inductive op :=
| OpMask (fm : list (Q * Q))
| OpMethod (m : method_t)
| OpFuncn (f : bvec -> bvec).

Section Hist.
  Variables (dmm iqm : qvec -> Q -> option bvec) (nchans : Z) (freqs var skew kurt : qvec) (thr : Q).
  (** an operation that raises leaves the object as it was *)
  Definition run_op (s : mstate) (o : op) : mstate :=
    match o with
    | OpMask fm => apply_mask nchans freqs s fm
    | OpMethod m => match apply_method dmm iqm var skew kurt thr s m with Some s' => s' | None => s end
    | OpFuncn f => apply_funcn s f
    end.
  Definition run_ops (s : mstate) (l : list op) : mstate := fold_left run_op l s.
End Hist.

(** * Extended histories: the threshold attribute may be assigned between operations, range end points may be
      infinite, and the history may start from any mask (e.g. one loaded from a file with channels preset) *)
Definition xle_l (lo : xq) (f : Q) : bool := match lo with XNegInf => true | XFin q => Qle_bool q f | XPosInf => false end.
Definition xle_r (f : Q) (hi : xq) : bool := match hi with XNegInf => false | XFin q => Qle_bool f q | XPosInf => true end.
Definition in_ranges_x (f : Q) (fm : list (xq * xq)) : bool :=
  existsb (fun r => xle_l (fst r) f && xle_r f (snd r)) fm.
(** the order of the extended rationals, for the statement of closedness *)
Definition xq_le (a b : xq) : Prop :=
  match a, b with
  | XNegInf, _ => True | _, XPosInf => True
  | XFin p, XFin q => (p <= q)%Q
  | _, _ => False
  end.
Definition xfin (r : Q * Q) : xq * xq := (XFin (fst r), XFin (snd r)).

Inductive opx :=
| XMask (fm : list (xq * xq))          (* apply_mask *)
| XMethod (m : method_t)               (* apply_method *)
| XFuncn (f : bvec -> bvec)            (* apply_funcn *)
| XThr (t : Q).                        (* rfimask.threshold = t *)

(** the four masks and the threshold attribute *)
Record hstate := HState { h_mask : mstate; h_thr : Q }.

Section HistX.
  Variables (dmm iqm : qvec -> Q -> option bvec) (nchans : Z) (freqs var skew kurt : qvec).
  Definition run_opx (h : hstate) (o : opx) : hstate :=
    match o with
    | XMask fm => HState (apply_mask_x nchans freqs (h_mask h) fm) (h_thr h)
    | XMethod m => match apply_method dmm iqm var skew kurt (h_thr h) (h_mask h) m with
                   | Some s' => HState s' (h_thr h) | None => h end
    | XFuncn f => HState (apply_funcn (h_mask h) f) (h_thr h)
    | XThr t => HState (h_mask h) t
    end.
  Definition run_opsx (h : hstate) (l : list opx) : hstate := fold_left run_opx l h.
End HistX.
(** the threshold the object holds after a history: the last assignment, else the initial one *)
Definition current_thr (t0 : Q) (l : list opx) : Q :=
  fold_left (fun t o => match o with XThr t' => t' | _ => t end) l t0.
(** an old history is an extended one *)
Definition opx_of (o : op) : opx :=
  match o with OpMask fm => XMask (map xfin fm) | OpMethod m => XMethod m | OpFuncn f => XFuncn f end.

Definition subset (n : Z) (a b : bvec) : Prop := forall c, 0 <= c < n -> a c = true -> b c = true.

(** * Executable instances for the correspondence *)
(** ** order statistics over Q *)
Fixpoint qinsert (x : Q) (l : list Q) : list Q :=
  match l with [] => [x] | y :: r => if Qle_bool x y then x :: l else y :: qinsert x r end.
Definition qsort (l : list Q) : list Q := fold_right qinsert [] l.
Definition qnth (l : list Q) (i : Z) : Q := nth (Z.to_nat i) l 0%Q.
Definition qfloor (q : Q) : Z := (Qnum q / Zpos (Qden q))%Z.
(** np.percentile(l, p) with the default linear interpolation; [l] non-empty *)
Definition percentile (l : list Q) (p : Q) : Q :=
  let s := qsort l in
  let pos := (p / 100 * inject_Z (Z.of_nat (length l) - 1))%Q in
  let lo := qfloor pos in
  let frac := (pos - inject_Z lo)%Q in
  let a := qnth s lo in
  let b := qnth s (Z.min (lo + 1) (Z.of_nat (length l) - 1)) in
  (a + frac * (b - a))%Q.
Definition qmedian (l : list Q) : Q := percentile l 50.
Definition qmean (l : list Q) : Q := (fold_right Qplus 0 l / inject_Z (Z.of_nat (length l)))%Q.
(** the zero tests of stats.py: a MAD is replaced when it is exactly zero ([mad == 0]), and a
    scale counts as zero for the Z-scores when it is at most float32's smallest normal number
    (2^-126) times the largest deviation ([scale <= tiny]). *)
Definition is_zero (x : Q) : bool := Qeq_bool x 0.
Definition float32_tiny : Q := 1 # 85070591730234615865843651857942052864.
Definition qmaxl (l : list Q) : Q := fold_right (fun x m => if Qle_bool x m then m else x) 0%Q l.
Definition zero_scale (scale maxdev : Q) : bool := Qle_bool scale (float32_tiny * maxdev).

(** the float64 constants of stats.py, as exact rationals of the doubles *)
Definition norm_iqr : Q := 6075263575296585 # 4503599627370496.      (* 1.3489795003921634 *)
Definition norm_mad : Q := 6075263575296585 # 9007199254740992.      (* 0.6744897501960817 *)
Definition norm_aad : Q := 7186705221432913 # 9007199254740992.      (* sqrt(2/pi) = 0.7978845608028654 *)

Definition vlist (n : Z) (a : qvec) : list Q := map a (zrange n).

(** stats.estimate_zscore(a, scale_method="iqr") on a vector of length n, in exact arithmetic *)
Definition zscore_iqr_exec (n : Z) (a : qvec) : qvec :=
  let l := vlist n a in
  let loc := qmedian l in
  let scale := ((percentile l 75 - percentile l 25) / norm_iqr)%Q in
  let maxdev := qmaxl (map (fun x => Qabs (x - loc)) l) in
  let scale := if zero_scale scale maxdev then 1%Q else scale in
  fun c => ((a c - loc) / scale)%Q.

(** stats.estimate_zscore(a, scale_method="doublemad") *)
Definition side_scale (devs : list Q) : Q :=
  let m := (qmedian devs / norm_mad)%Q in
  if is_zero m then (qmean devs / norm_aad)%Q else m.
Definition zscore_doublemad_exec (n : Z) (a : qvec) : qvec :=
  let l := vlist n a in
  let loc := qmedian l in
  let left := map (fun x => Qabs (x - loc)) (filter (fun x => Qle_bool x loc) l) in
  let right := map (fun x => Qabs (x - loc)) (filter (fun x => Qle_bool loc x) l) in
  let ml := side_scale left in
  let mr := side_scale right in
  let maxdev := qmaxl (map (fun x => Qabs (x - loc)) l) in
  fun c => let scale := if negb (Qle_bool loc (a c)) then ml
                        else if negb (Qle_bool (a c) loc) then mr else ((1 # 2) * (ml + mr))%Q in
           let scale := if zero_scale scale maxdev then 1%Q else scale in
           ((a c - loc) / scale)%Q.

(** the parts of the two estimators, named (for the statement of scale-freeness): location, largest deviation and the scale
    BEFORE the zero-scale guard; [zscore_*_exec n a c = (a c - loc) / (if zero_scale scale maxdev then 1 else scale)] by computation *)
Definition ex_loc (n : Z) (a : qvec) : Q := qmedian (vlist n a).
Definition ex_maxdev (n : Z) (a : qvec) : Q := qmaxl (map (fun x => Qabs (x - ex_loc n a)) (vlist n a)).
Definition iqr_scale (n : Z) (a : qvec) : Q := ((percentile (vlist n a) 75 - percentile (vlist n a) 25) / norm_iqr)%Q.
Definition dm_left (n : Z) (a : qvec) : list Q :=
  map (fun x => Qabs (x - ex_loc n a)) (filter (fun x => Qle_bool x (ex_loc n a)) (vlist n a)).
Definition dm_right (n : Z) (a : qvec) : list Q :=
  map (fun x => Qabs (x - ex_loc n a)) (filter (fun x => Qle_bool (ex_loc n a) x) (vlist n a)).
Definition dm_scale (n : Z) (a : qvec) (c : Z) : Q :=
  if negb (Qle_bool (ex_loc n a) (a c)) then side_scale (dm_left n a)
  else if negb (Qle_bool (a c) (ex_loc n a)) then side_scale (dm_right n a)
  else ((1 # 2) * (side_scale (dm_left n a) + side_scale (dm_right n a)))%Q.

(** ** a small family of custom functions, mirrored in Python by the harness *)
Definition custom_of (id n : Z) : bvec -> bvec :=
  fun x c =>
    if id =? 0 then x c                                                   (* lambda m: m *)
    else if id =? 1 then x ((c - 1) mod n)                                (* np.roll(m, 1) *)
    else if id =? 2 then (if 0 <? c then x (c - 1) else false) || (if c <? n - 1 then x (c + 1) else false)  (* neighbours *)
    else if id =? 3 then (c mod 3 =? 0)                                   (* a fixed set *)
    else if id =? 4 then negb (x c)                                       (* ~m *)
    else if id =? 6 then (c mod 4 =? 1)                                   (* integers (arange % 4 == 1), read as booleans *)
    else false.                                                           (* np.zeros *)

(** ** the whole of clean_rfi, executable: statistic vectors and frequencies given as lists *)
Definition qof (l : list Q) : qvec := fun c => if c <? 0 then 0%Q else nth (Z.to_nat c) l 0%Q.
Definition blist (n : Z) (v : bvec) : list bool := map v (zrange n).

Definition clean_rfi_exec (n : Z) (freqs var skew kurt : list Q) (method : method_t) (thr : Q)
           (fm : option (list (Q * Q))) (custom : option Z) : option (list bool * list bool * list bool * list bool) :=
  match clean_rfi (mad_fn (zscore_doublemad_exec n)) (iqrm_fn (zscore_iqr_exec n) n 1 (fun _ => 0%Q)) n
                  (qof freqs) (qof var) (qof skew) (qof kurt) method thr fm
                  (match custom with Some id => Some (custom_of id n) | None => None end) with
  | None => None
  | Some s => Some (blist n (chan_mask s), blist n (user_mask s), blist n (stats_mask s), blist n (custom_mask s))
  end.

(** a history of operations, executable: ops are coded (kind, argument) *)
Inductive opcode := CMask (fm : list (Q * Q)) | CMethod (m : method_t) | CFuncn (id : Z).
Definition op_of (n : Z) (o : opcode) : op :=
  match o with CMask fm => OpMask fm | CMethod m => OpMethod m | CFuncn id => OpFuncn (custom_of id n) end.
Definition run_ops_exec (n : Z) (freqs var skew kurt : list Q) (thr : Q) (ops : list opcode) : list (list bool) :=
  let step := run_op (mad_fn (zscore_doublemad_exec n)) (iqrm_fn (zscore_iqr_exec n) n 1 (fun _ => 0%Q)) n
                     (qof freqs) (qof var) (qof skew) (qof kurt) thr in
  (* the chan_mask after every prefix of the history, then the three component masks at the end *)
  let states := fold_left (fun acc o => match acc with (s, out) => let s' := step s (op_of n o) in (s', out ++ [blist n (chan_mask s')]) end)
                          ops (RFIMask_init, []) in
  snd states ++ [blist n (user_mask (fst states)); blist n (stats_mask (fst states)); blist n (custom_mask (fst states))].

(** an extended history, executable: start from a mask whose chan_mask is [init] (components empty), threshold [thr0] *)
Inductive opcodex := CXMask (fm : list (xq * xq)) | CXMethod (m : method_t) | CXFuncn (id : Z) | CXThr (t : Q).
Definition opx_ofc (n : Z) (o : opcodex) : opx :=
  match o with CXMask fm => XMask fm | CXMethod m => XMethod m | CXFuncn id => XFuncn (custom_of id n) | CXThr t => XThr t end.
Definition bof (l : list bool) : bvec := fun c => if c <? 0 then false else nth (Z.to_nat c) l false.
Definition run_opsx_exec (n : Z) (freqs var skew kurt : list Q) (thr0 : Q) (init : list bool) (ops : list opcodex) : list (list bool) :=
  let step := run_opx (mad_fn (zscore_doublemad_exec n)) (iqrm_fn (zscore_iqr_exec n) n 1 (fun _ => 0%Q)) n
                      (qof freqs) (qof var) (qof skew) (qof kurt) in
  let h0 := HState (MState (bof init) vfalse vfalse vfalse) thr0 in
  (* chan_mask and stats_mask after every prefix of the history, then user and custom mask at the end *)
  let states := fold_left (fun acc o => match acc with (h, out) => let h' := step h (opx_ofc n o) in
                                          (h', out ++ [blist n (chan_mask (h_mask h')); blist n (stats_mask (h_mask h'))]) end)
                          ops (h0, []) in
  snd states ++ [blist n (user_mask (h_mask (fst states))); blist n (custom_mask (h_mask (fst states)))].
