(** C13: the matched-filter response as a direct sum, the two forms of the inverse-transform length in
    kernels.convolve_templates, and the arg-max pick of MatchedFilter._compute.  Definitions only. *)
From Coq Require Import ZArith List Bool QArith.
Require Import SPP.Base.Rt SPP.Model.C12_np SPP.Model.C12_conv SPP.Model.C13_np SPP.Gen.Kernels SPP.Gen.MatchedFilter.
Import ListNotations.
Open Scope Z_scope.

(** data extended periodically (period = its own length) -- what circular_pad_goodsize stores at index i *)
Definition dpad (data : list Z) (i : Z) : Z := of_list data (i mod len data).

(** template zero-padded to N, then normalised over the padded length N (zero mean, unit power):
    tnorm[k] = div_norm (tp[k] - mean) (sum_i (tp[i] - mean)^2),  mean = mean_of_sum N (sum_i tp[i]) *)
Definition tmean (Nm : norm_ops) (N : Z) (tp : arr) : Z := nrm_mean_of_sum Nm N (sum_n (Z.to_nat N) tp).
Definition tnorm2 (Nm : norm_ops) (N : Z) (tp : arr) : Z :=
  sum_n (Z.to_nat N) (fun i => (tp i - tmean Nm N tp) * (tp i - tmean Nm N tp)).
Definition tnorm (Nm : norm_ops) (N : Z) (tp : arr) (k : Z) : Z := nrm_div_norm Nm (tp k - tmean Nm N tp) (tnorm2 Nm N tp).

(** response of one template at bin t over a (padded) series P of length N, read circularly: inner product of P with
    the normalised template whose reference bin is placed at t:  sum_k P[(t + k - ref) mod N] * tnorm[k] *)
Definition response_p (Nm : norm_ops) (P kernel : list Z) (ref t : Z) : Z :=
  sum_n (Z.to_nat (len P)) (fun k => of_list P ((t + k - ref) mod len P) * tnorm Nm (len P) (of_list (pad kernel (len P))) k).

Definition responses_p (Nm : norm_ops) (P : list Z) (nbins : Z) (bank : list (list Z)) (refs : list Z) : list (list Z) :=
  map (fun itemp => to_list nbins (response_p Nm P (nth (Z.to_nat itemp) bank []) (nth (Z.to_nat itemp) refs 0))) (zrange (len bank)).

(** the two paddings: periodic extension to the good size (circular_pad_goodsize, Gen/Kernels.v), or none *)
Definition cpad (F : fft_ops) (data : list Z) : list Z :=
  to_list (fft_good_size F (len data)) (circular_pad_goodsize_run (fft_good_size F) (len data) zeros (of_list data)).
Definition nopad (data : list Z) : list Z := data.

(** the response with the periodic good-size padding written out: sum_k dpad[(t + k - ref) mod N] * tnorm[k] *)
Definition response (Nm : norm_ops) (data kernel : list Z) (ref N t : Z) : Z :=
  sum_n (Z.to_nat N) (fun k => dpad data ((t + k - ref) mod N) * tnorm Nm N (of_list (pad kernel N)) k).

(** kernels.convolve_templates with the padding and the length handed to the inverse transform left open:
    [padfn data] is data_pad, [ilen prod L] the inverse length for the product spectrum prod and L = len(data_pad) *)
Definition ct_rows_gen (F : fft_ops) (Nm : norm_ops) (padfn : list Z -> list Z) (ilen : fft_spec F -> Z -> Z)
           (data : list Z) (temp_bank : list (list Z)) (ref_bin : list Z) : list (list Z) :=
  let nbins := len data in
  let ntemps := len temp_bank in
  let data_pad := padfn data in
  let data_fft := fft_rfft F data_pad (len data_pad) in
  map (fun itemp =>
      let temp_kernel := nth (Z.to_nat itemp) temp_bank [] in
      let temp_pad := np_zeros (len data_pad) in
      let temp_pad := np_assign_prefix temp_pad temp_kernel in
      let temp_pad := np_roll temp_pad (- (nth (Z.to_nat itemp) ref_bin 0)) in
      let temp_pad := np_roll (np_rev temp_pad) 1 in
      let temp_norm := normalize_template_run Nm temp_pad in
      let prod := fft_smul F data_fft (fft_rfft F temp_norm (len temp_norm)) in
      let conv := fft_irfft F prod (ilen prod (len data_pad)) in
      np_slice conv 0 nbins) (zrange ntemps).
(** inverse called without a length (NumPy default 2*(m-1)) / with the padded length *)
Definition ilen_default (F : fft_ops) (prod : fft_spec F) (L : Z) : Z := np_irfft_default_len (fft_slen F prod).
Definition ilen_given (F : fft_ops) (prod : fft_spec F) (L : Z) : Z := L.

(** MatchedFilter._compute on a given response matrix (ntemps rows of nbins values) *)
Definition entry (convs : list (list Z)) (i t : Z) : Z := of_list (nth (Z.to_nat i) convs []) t.
Definition mf_pick (convs : list (list Z)) (nbins : Z) : Z * Z * Z :=
  let '(itemp, peak_bin) := np_unravel_index (np_argmax (concat convs)) (len convs) nbins in
  (itemp, peak_bin, entry convs itemp peak_bin).

(** Z-score in exact arithmetic *)
Definition zscore_q (x loc scale : Q) : Q := ((x - loc) / scale)%Q.

(** squared-response comparison for boxcar template (width v, overlap o with the pulse) against a boxcar pulse of W samples
    in a window of N: numerator and squared norm of the un-normalised zero-mean template, both times N *)
Definition box_num (N W v o : Z) : Z := o * N - W * v.
Definition box_norm2 (N v : Z) : Z := v * (N - v).
