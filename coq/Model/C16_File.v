(** Hand-written model for C16 (data side): what [Filterbank.apply_channel_mask] writes.
    Definitions only.  The kernel itself is NOT modelled here: it is [mask_channels_run] of Gen/Kernels.v,
    regenerated from sigpyproc/core/kernels.py on every run; the per-block call is [apply_channel_mask_block]
    of Gen/C16Rfi.v (regenerated from base.py).

    Sample values are opaque [Z]s: for 1/2/4/8-bit files the unpacked sample, for 32-bit files any injective
    encoding of the float32 bit pattern (the kernel only copies values, it never computes with them). *)
From Coq Require Import ZArith List Bool.
Require Import SPP.Base.Rt SPP.Gen.Kernels SPP.Gen.C16Rfi SPP.Model.Bits.
Import ListNotations.
Open Scope Z_scope.

(** * Specification of a cleaned block / file (channel-fastest layout, element [nchans * s + c]) *)
Definition in_block (nchans nsamps k : Z) : bool := (0 <=? k) && (k <? nchans * nsamps).
Definition masked (mask : arr) (c : Z) : bool := negb (mask c =? 0).
Definition clean_spec (x mask : arr) (mv nchans nsamps : Z) : arr :=
  fun k => if in_block nchans nsamps k && masked mask (k mod nchans) then mv else x k.

(** * The streaming loop of apply_channel_mask
    [for nsamps_r, _ii, data in read_plan(...): mask_channels(data, ...); out_file.cwrite(data)]
    The reader is abstracted to what C01 establishes for it with skipback = 0: consecutive blocks of
    [lens = [n0; n1; ...]] samples, block [i] starting at sample [n0 + ... + n(i-1)] of the input [x];
    the read buffer is reused, so a block may carry stale elements beyond [nchans * n] ([stale]).
    The writer appends exactly the [nchans * n] elements handed to [cwrite] ([data[:block]]). *)
Definition block_of (x stale : arr) (nchans off n : Z) : arr :=
  fun k => if (0 <=? k) && (k <? nchans * n) then x (nchans * off + k) else stale k.

(** file content after appending [n] elements of [blk] at element position [pos] *)
Definition append (out : arr) (pos n : Z) (blk : arr) : arr :=
  fun j => if (pos <=? j) && (j <? pos + n) then blk (j - pos) else out j.

Fixpoint clean_blocks (x stale mask : arr) (mv nchans : Z) (lens : list Z) (off : Z) (out : arr) : arr :=
  match lens with
  | [] => out
  | n :: rest =>
      let data := apply_channel_mask_block (block_of x stale nchans off n) mask mv nchans n in
      clean_blocks x stale mask mv nchans rest (off + n) (append out (nchans * off) (nchans * n) data)
  end.

Definition clean_file (x stale mask : arr) (mv nchans : Z) (lens : list Z) : arr :=
  clean_blocks x stale mask mv nchans lens 0 zeros.

Definition total (lens : list Z) : Z := fold_right Z.add 0 lens.

(** the blocks a gulp of [g] samples cuts [n] samples into (read_plan with skipback = 0; Gen/Plan.v, C01) *)
Definition gulp_lens (n g : Z) : list Z :=
  let g' := Z.min n g in
  repeat g' (Z.to_nat (n / g')) ++ (if n mod g' =? 0 then [] else [n mod g']).

(** * Sub-byte files: the block is unpacked on reading and packed on writing (io/bits.py, C03) *)
(** bytes of one block -> unpack -> mask -> pack: the bytes written for that block *)
Definition clean_block_packed (nb : Z) (big : bool) (nbytes : Z) (bytes mask : arr) (mv nchans nsamps : Z)
           (ubuf pbuf : arr) : arr :=
  let data := unpack_run nb big nbytes bytes ubuf in
  let data := apply_channel_mask_block data mask mv nchans nsamps in
  pack_run nb big nbytes data pbuf.

(** * The cast of the mask value to the sample type of the file
    [np.float32(mask_value).astype(self.header.dtype)]: for the integer depths the value is truncated
    towards zero and must already lie in the range of the depth for the result to be meaningful. *)
Definition representable (nbits mv : Z) : bool := (0 <=? mv) && (mv <? 2 ^ nbits).
