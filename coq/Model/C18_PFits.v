(** Hand-written executable model of the PSRFITS search-mode path: PFITSFile.read_subint / read_subint_pol /
    read_subints (io/pfits.py), PFITSReader.read_block / read_plan (readers.py) and the frequency labels of
    Header.from_pfits.  All arithmetic (which rows are read, slice bounds, reshape count, what is carried from one
    plan iteration to the next, order of zero-offset/scale/offset/weight, value per polarisation state, flip
    condition, treatment of unit axes, the stored fch1/foff) is Gen.C18Pfits, REGENERATED from the sources on every
    run; the block plan is Gen.Plan.pfits_plan.  What is written by hand here is the glue: "concatenate the rows,
    slice, compare the length with the reshape count, iterate over the plan".  Definitions only.

    A file is NSUB rows of NSBLK samples x NPOL x NCHAN unpacked integers (unpacking of 4-bit cells is C03's
    subject), per-row DAT_SCL / DAT_OFFS (NPOL*NCHAN) and DAT_WTS (NCHAN) vectors, ZERO_OFF, a polarisation
    state and the channel step df of DAT_FREQ.  Values are integers: the float factor 1/sqrt(2) of the Coherence
    sum is the symbolic integer [csc] (results are "in units of that factor"). *)
From Coq Require Import ZArith List Bool.
Require Import SPP.Base.Rt SPP.Gen.Plan SPP.Gen.C18Pfits.
Import ListNotations.
Open Scope Z_scope.

Inductive perr := PValueError | PIndexError | PUnbound.
Inductive res (A : Type) := ROk (a : A) | RErr (e : perr).
Arguments ROk {A} _.
Arguments RErr {A} _.

Record pfile := mkpf {
  p_nsub : Z; p_nsblk : Z; p_npol : Z; p_nchan : Z;
  p_nstot : Z;                      (* header.nsamples = NSTOT *)
  p_nbits : Z;                      (* 4 or 8 (bitfact = 8 / nbits samples per byte) *)
  p_state : Z;                      (* 0 Coherence, 1 Stokes, 2 Intensity, 3 PPQQ *)
  p_df : Z;                         (* DAT_FREQ[1] - DAT_FREQ[0] *)
  p_zero : Z; p_csc : Z;
  p_raw : Z -> Z -> Z -> Z -> Z;    (* row, sample, polarisation, channel *)
  p_scl : Z -> Z -> Z; p_offs : Z -> Z -> Z; p_wts : Z -> Z -> Z   (* row, index in the vector *)
}.

Definition row := list Z.
Definition lenr {A} (l : list A) : Z := Z.of_nat (length l).
(** Python l[lo:hi] for 0 <= lo (clamps at the end of the list, empty when hi <= lo) *)
Definition pyslice {A} (l : list A) (lo hi : Z) : list A := firstn (Z.to_nat (hi - lo)) (skipn (Z.to_nat lo) l).

(** read_subint: one sample after zero offset, scale, offset and weight *)
Definition sub_elem (F : pfile) (isub t p c : Z) : Z :=
  sub_value (p_raw F isub t p c) (p_zero F)
            (p_scl F isub (scl_index (p_npol F) (p_nchan F) p c)) (p_offs F isub (scl_index (p_npol F) (p_nchan F) p c))
            (p_wts F isub (wts_index (p_nchan F) c)).
(** read_subint_pol (poln_select = 1) *)
Definition pol_elem (F : pfile) (isub t c : Z) : Z :=
  match pol_value (p_state F) (p_csc F) (fun p => sub_elem F isub t p c) with Some x => x | None => 0 end.
(** the (NSBLK, NCHAN) array of one row, channels in file order *)
Definition sub_rows (F : pfile) (isub : Z) : list row :=
  map (fun t => map (fun c => pol_elem F isub t c) (zrange (p_nchan F))) (zrange (p_nsblk F)).

(** does reading a row succeed?  read_subint: the DATA cell has shape (NSBLK*nbits/8, NPOL, NCHAN[, 1]);
    with sdata.squeeze() a cell with a unit axis loses it and is then rejected (IndexError from sdata.shape[2]
    on the packed path, ValueError "not TPF" otherwise); read_subint_pol: a state without a branch leaves
    [data] unbound; a squeezed one-sample selection cannot be concatenated/reshaped back *)
Definition file_status (F : pfile) : option perr :=
  let cell0 := p_nsblk F * p_nbits F / 8 in
  if negb keeps_unit_axes && ((cell0 =? 1) || (p_npol F =? 1) || (p_nchan F =? 1))
  then Some (if p_nbits F <? 8 then PIndexError else PValueError)
  else match pol_value (p_state F) (p_csc F) (fun _ => 0) with
       | None => Some PUnbound
       | Some _ => if pol_squeezes (p_state F) && (p_nsblk F =? 1) then Some PValueError else None
       end.

Definition row_status (F : pfile) (isub : Z) : option perr :=
  if (0 <=? isub) && (isub <? p_nsub F) then file_status F else Some PIndexError.

Fixpoint first_err (l : list (option perr)) : option perr :=
  match l with [] => None | Some e :: _ => Some e | None :: r => first_err r end.

Definition flip_row (F : pfile) (r : row) : row := if rs_flip (p_df F) then rev r else r.

(** PFITSFile.read_subints: rows rs_rows(startsub, nsubs) read in order, concatenated (np.concatenate of an empty
    list is a ValueError), channel axis reversed when the file's channels ascend *)
Definition read_subints (F : pfile) (startsub nsubs : Z) : res (list row) :=
  let idx := rs_rows startsub nsubs in
  match first_err (map (row_status F) idx) with
  | Some e => RErr e
  | None => match idx with
            | [] => RErr PValueError
            | _ => ROk (map (flip_row F) (concat (map (sub_rows F) idx)))
            end
  end.

(** PFITSReader.read_block (default fch1 / nchans), time-major: element t of the result is column t of .data *)
Definition read_block (F : pfile) (start nsamps : Z) : res (list row) :=
  if rb_reject start nsamps (p_nstot F) then RErr PValueError else
  let '(a, k, lo, hi, rows) := rb_sub start nsamps (p_nsblk F) in
  match read_subints F a k with
  | RErr e => RErr e
  | ROk d => let d' := pyslice d lo hi in
             if lenr d' =? rows then ROk d' else RErr PValueError    (* reshape(rows, nchans) needs exactly rows*nchans values *)
  end.

(** the whole-file read *)
Definition whole (F : pfile) : res (list row) := read_block F 0 (p_nstot F).

(** every row of the file, channels in delivery order *)
Definition all_rows (F : pfile) : list row := map (flip_row F) (concat (map (sub_rows F) (zrange (p_nsub F)))).

(** ** read_plan *)
Inductive ptr := TOk (bl : list (Z * Z * list Z)) | TErr (bl : list (Z * Z * list Z)) (e : perr).

(** for ii, block, skip in blocks: <pl_sub>; data = read_subints(startsub, nsubs)[lo:hi]; yield count, ii, data.ravel() *)
Fixpoint pf_loop (F : pfile) (nsamps : Z) (blocks : list (Z * Z * Z)) (start : Z) (acc : list (Z * Z * list Z)) : ptr :=
  match blocks with
  | [] => TOk acc
  | (ii, block, skip) :: r =>
      let '(a, k, lo, hi, start', cnt) := pl_sub start nsamps block skip (p_nsblk F) in
      match read_subints F a k with
      | RErr e => TErr acc e
      | ROk d => pf_loop F nsamps r start' (acc ++ [(cnt, ii, concat (pyslice d lo hi))])
      end
  end.

Definition pf_run_plan (F : pfile) (gulp start nsamps skipback : Z) : ptr :=
  match pfits_plan gulp start nsamps skipback with
  | None => TErr [] PValueError
  | Some (g, sb, blocks) => pf_loop F nsamps blocks start []
  end.

(** 0 = completed, 1 = error before the first yield, 2 = error after a yield *)
Definition ptr_enc (t : ptr) : Z * list (Z * Z * list Z) :=
  match t with TOk bl => (0, bl) | TErr [] _ => (1, []) | TErr bl _ => (2, bl) end.

(** ** frequency labels: the frequency of delivered channel c, and the label the header gives it *)
Definition chan_src (F_df nchan c : Z) : Z := if rs_flip F_df then nchan - 1 - c else c.
Definition data_freq (f0 df nchan c : Z) : Z := f0 + df * chan_src df nchan c.
Definition label_freq (f0 df nchan c : Z) : Z := hdr_fch1 f0 df nchan + hdr_foff f0 df nchan * c.

(** ** evaluation entry points of the correspondence run: files from literal lists *)
Definition nth4 (l : list (list (list (list Z)))) (i t p c : Z) : Z :=
  nth (Z.to_nat c) (nth (Z.to_nat p) (nth (Z.to_nat t) (nth (Z.to_nat i) l []) []) []) 0.
Definition nth2 (l : list (list Z)) (i j : Z) : Z := nth (Z.to_nat j) (nth (Z.to_nat i) l []) 0.
Definition file_of_lists (nsub nsblk npol nchan nstot nbits state df zero : Z)
    (raw : list (list (list (list Z)))) (scl offs wts : list (list Z)) : pfile :=
  mkpf nsub nsblk npol nchan nstot nbits state df zero 1 (nth4 raw) (nth2 scl) (nth2 offs) (nth2 wts).

Definition res_enc (r : res (list row)) : Z * list row :=
  match r with ROk d => (0, d) | RErr PValueError => (1, []) | RErr PIndexError => (2, []) | RErr PUnbound => (3, []) end.

(** ** optional arguments and optional cards (all arithmetic from Gen.C18Pfits) *)
(** read_plan with nsamps left to its default (None) *)
Definition pf_run_plan_default (F : pfile) (gulp start skipback : Z) : ptr :=
  pf_run_plan F gulp start (pl_default_nsamps (p_nstot F) start) skipback.

(** a file from its cards: NSTOT and ZERO_OFF may be absent (None), POL_TYPE is a spelling *)
Definition file_of_cards (nsub nsblk npol nchan : Z) (nstot_card : option Z) (nbits : Z) (pol_card : Coq.Strings.String.string)
    (df : Z) (zero_card : option Z) (raw : list (list (list (list Z)))) (scl offs wts : list (list Z)) : pfile :=
  file_of_lists nsub nsblk npol nchan (hdr_nstot nstot_card nsblk nsub) nbits
    (match poln_state_of pol_card npol with Some s => s | None => -1 end) df (hdr_zero_off zero_card) raw scl offs wts.

(** ** fractional ZERO_OFF / DAT_SCL / DAT_OFFS / DAT_WTS: the decode over the rationals *)
Require Import QArith.
Open Scope Z_scope.
Record qvals := mkqv { q_zero : Q; q_scl : Z -> Z -> Q; q_offs : Z -> Z -> Q; q_wts : Z -> Z -> Q }.   (* row, index in the vector *)
Definition sub_elem_q (F : pfile) (V : qvals) (isub t p c : Z) : Q :=
  sub_value_q (inject_Z (p_raw F isub t p c)) (q_zero V)
              (q_scl V isub (scl_index (p_npol F) (p_nchan F) p c)) (q_offs V isub (scl_index (p_npol F) (p_nchan F) p c))
              (q_wts V isub (wts_index (p_nchan F) c)).
Definition pol_elem_q (F : pfile) (V : qvals) (csc : Q) (isub t c : Z) : option Q :=
  pol_value_q (p_state F) csc (fun p => sub_elem_q F V isub t p c).
(** the integer file that stands for a fractional one: samples times dz, numerators of ZERO_OFF (over dz), DAT_SCL (over ds),
    DAT_OFFS (over dz*ds) and DAT_WTS (over dw); it delivers dz*ds*dw times the fractional file's values *)
Definition scaled_file (F : pfile) (dz zn : Z) (sn on wn : Z -> Z -> Z) : pfile :=
  mkpf (p_nsub F) (p_nsblk F) (p_npol F) (p_nchan F) (p_nstot F) (p_nbits F) (p_state F) (p_df F) zn (p_csc F)
       (fun i t p c => p_raw F i t p c * dz) sn on wn.
