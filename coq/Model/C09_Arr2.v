(** C09 -- runtime prelude for the 2-D kernels regenerated into Gen/C09.v (roll_block, roll_block_valid,
    dmt_block, dmt_block_valid) and the exact dispersion law.  Definitions only.

    2-D arrays are total functions (row, column) -> Z; their shape travels separately as two integers.
    A 1-D view (a row, a unit-step slice of a row, a column sum) is a pair (length, elements).
    Slice bounds are normalised exactly as NumPy does for a unit step (negative bounds count from the
    end, then clamp to [0, dim]); assigning a view of the wrong length is the ValueError NumPy/numba
    raise (None).  Loops whose body can raise carry an [option] state. *)
From Coq Require Import ZArith List Bool QArith Qround Qminmax.
Require Import SPP.Base.Rt.
Import ListNotations.
Open Scope Z_scope.

Definition arr2 := Z -> Z -> Z.
Definition vec := (Z * arr)%type.

Notation "'do' x <- e ; k" := (match e with Some x => k | None => None end)
  (at level 200, x name, e at level 100, k at level 200, only parsing).

(** Python loop [for i in range(n): s = body i s] where the body may raise *)
Definition iter_opt {St : Type} (n : nat) (body : Z -> St -> option St) (s : St) : option St :=
  iter n (fun i st => match st with None => None | Some s => body i s end) (Some s).

(** NumPy normalisation of one bound of a unit-step slice over an axis of length [dim] *)
Definition norm_idx (dim i : Z) : Z := Z.max 0 (Z.min dim (if i <? 0 then i + dim else i)).
Definition slice_lo (dim lo hi : Z) : Z := norm_idx dim lo.
Definition slice_len (dim lo hi : Z) : Z := Z.max 0 (norm_idx dim hi - norm_idx dim lo).

(** a[r]  and  a[r, lo:hi]  (a has [ncols] columns) *)
Definition row2 (a : arr2) (ncols r : Z) : vec := (ncols, a r).
Definition slice_row (a : arr2) (ncols r lo hi : Z) : vec :=
  (slice_len ncols lo hi, fun k => a r (slice_lo ncols lo hi + k)).

(** res[r, lo:hi] = v   (res has [ncols] columns) *)
Definition set_slice_row (res : arr2) (ncols r lo hi : Z) (v : vec) : option arr2 :=
  let l := slice_lo ncols lo hi in
  let n := slice_len ncols lo hi in
  if n =? fst v then
    Some (fun r' c' => if (r' =? r) && (l <=? c') && (c' <? l + n) then snd v (c' - l) else res r' c')
  else None.
(** res[r] = v *)
Definition set_row (res : arr2) (ncols r : Z) (v : vec) : option arr2 := set_slice_row res ncols r 0 ncols v.

(** np.sum(a, axis=0) of an array of shape [sh] *)
Definition sum_axis0 (sh : Z * Z) (a : arr2) : vec :=
  (snd sh, fun c => sum_n (Z.to_nat (fst sh)) (fun r => a r c)).
(** a[:, lo:hi] of an array of shape [sh]: new shape and elements *)
Definition cols_shape (sh : Z * Z) (lo hi : Z) : Z * Z := (fst sh, slice_len (snd sh) lo hi).
Definition cols2 (sh : Z * Z) (a : arr2) (lo hi : Z) : arr2 := fun r c => a r (slice_lo (snd sh) lo hi + c).

(** np.max / np.min of a non-empty 1-D array of length n, and of a 2-D array *)
Definition amax (n : Z) (a : arr) : Z := iter (Z.to_nat (n - 1)) (fun i m => Z.max m (a (i + 1))) (a 0).
Definition amin (n : Z) (a : arr) : Z := iter (Z.to_nat (n - 1)) (fun i m => Z.min m (a (i + 1))) (a 0).
Definition amax2 (nr nc : Z) (a : arr2) : Z := amax nr (fun r => amax nc (a r)).
Definition amin2 (nr nc : Z) (a : arr2) : Z := amin nr (fun r => amin nc (a r)).

(** lists of lists <-> 2-D arrays, for the executable correspondence *)
Definition of_list2 (l : list (list Z)) : arr2 := fun r c => if r <? 0 then 0 else of_list (nth (Z.to_nat r) l []) c.
Definition to_list2 (nr nc : Z) (a : arr2) : list (list Z) := map (fun r => to_list nc (a (Z.of_nat r))) (seq 0 (Z.to_nat nr)).
Definition list2_eqb (a b : list (list Z)) : bool :=
  if list_eq_dec (list_eq_dec Z.eq_dec) a b then true else false.

(** ------------------------------------------------------------------------------------------
    exact arithmetic of the dispersion law: round half to even on Q (what ndarray.round() does) *)
Definition rhe (q : Q) : Z :=
  let m := Qfloor (q + (1 # 2)) in
  if Qeq_bool (q + (1 # 2)) (inject_Z m) && Z.odd m then m - 1 else m.

(** chan_freqs.max() / .min() over the nchans channel frequencies *)
Definition qmax_n (n : Z) (f : Z -> Q) : Q := iter (Z.to_nat (n - 1)) (fun i m => Qmax m (f (i + 1))) (f 0).
Definition qmin_n (n : Z) (f : Z -> Q) : Q := iter (Z.to_nat (n - 1)) (fun i m => Qmin m (f (i + 1))) (f 0).
