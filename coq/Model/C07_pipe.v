(** Hand glue for the file-to-file transforms of base.py: the data section of the output file is the concatenation,
    over the blocks yielded by read_plan, of what the generated per-block function hands to FileWriter.cwrite
    (Gen.TransformSites, regenerated from base.py).  Byte-wide samples; FileWriter's depth conversion is C04.
    Definitions only. *)
From Coq Require Import ZArith List Bool.
Require Import SPP.Base.Rt SPP.Gen.Kernels SPP.Gen.Plan SPP.Gen.TransformSites SPP.Model.Stream SPP.Model.Plan.
Import ListNotations.
Open Scope Z_scope.

Definition emit (p : arr * Z) : list Z := to_list (snd p) (fst p).

(** transforms without skipback: [f nsamps_r data] is the per-block function *)
Definition stream_map (f : Z -> arr -> arr * Z) (fs : list file) (nch gulp start nsamps : Z) : option (list Z) :=
  match run_plan fs nch gulp start nsamps 0 with
  | POk bl => Some (flat_map (fun b : Z * Z * list Z => let '(n_r, ii, d) := b in emit (f n_r (of_list d))) bl)
  | PErr _ _ => None
  end.

Definition invert_pipe fs nch gulp start nsamps (junk : arr) := stream_map (fun n_r d => invert_block junk d nch n_r) fs nch gulp start nsamps.
Definition mask_pipe fs nch gulp start nsamps (mask : arr) (mv : Z) := stream_map (fun n_r d => mask_block d mask mv nch n_r) fs nch gulp start nsamps.
Definition samps_pipe fs nch gulp start nsamps := stream_map (fun n_r d => samps_block d nch n_r) fs nch gulp start nsamps.
Definition chans_pipe fs nch gulp start nsamps (chan : Z) := stream_map (fun n_r d => chans_block d nch n_r chan) fs nch gulp start nsamps.
Definition bands_pipe fs nch gulp start nsamps (chanstart chanpersub iband : Z) :=
  stream_map (fun n_r d => bands_block d nch n_r chanstart chanpersub iband) fs nch gulp start nsamps.
(** the gulp is rounded up to a multiple of tfactor before the plan is made *)
Definition downsample_pipe fs nch gulp start nsamps (divcast : Z -> Z -> Z) (junk : arr) (tf ff : Z) :=
  stream_map (fun n_r d => downsample_block divcast junk d tf ff nch n_r) fs nch (downsample_gulp gulp tf) start nsamps.

(** subband: skipback = max_delay, the accumulator array persists between blocks *)
Definition subband_pipe fs nch gulp start nsamps (md nsub : Z) (delays junk : arr) : option (list Z) :=
  let gulp' := subband_gulp md gulp in
  match run_plan fs nch gulp' start nsamps md with
  | POk bl => Some (snd (fold_left (fun (st : arr * list Z) (b : Z * Z * list Z) =>
                      let '(n_r, ii, d) := b in
                      let r := subband_block (fst st) (of_list d) delays (subband_chan_to_sub nch nsub) md nch nsub n_r in
                      (fst r, snd st ++ emit r)) bl (junk, [])))
  | PErr _ _ => None
  end.

(** transforms whose output buffer persists between blocks (remove_zerodm): the buffer is threaded through the blocks *)
Definition stream_fold (f : arr -> Z -> arr -> arr * Z) (junk : arr) (fs : list file) (nch gulp start nsamps : Z) : option (list Z) :=
  match run_plan fs nch gulp start nsamps 0 with
  | POk bl => Some (snd (fold_left (fun (st : arr * list Z) (b : Z * Z * list Z) =>
                      let '(n_r, ii, d) := b in
                      let r := f (fst st) n_r (of_list d) in (fst r, snd st ++ emit r)) bl (junk, [])))
  | PErr _ _ => None
  end.

(** zero-DM removal over the integers: the kernel uses only +, - and *, so the same data flow holds over any commutative ring
    (the implementation runs it in float32 with bpass = the file's bandpass and chanwts = bpass / sum(bpass)) *)
Definition zerodm_pipe fs nch gulp start nsamps (junk bpass chanwts : arr) :=
  stream_fold (fun out n_r d => zerodm_block out d bpass chanwts nch n_r) junk fs nch gulp start nsamps.

(** extract_chans / extract_bands write several files, opened in batches of [bs] = batch_size (Gen.TransformSites.batch_end, chans_batch_index,
    bands_batch_c0 are regenerated from base.py): [batched n bs file] lists, in the order of the returned file names, what [file batch_start ifile]
    yields for every batch_start in range(0, n, bs) and every ifile in range(batch_end - batch_start) *)
Definition batch_starts (n bs : Z) : list Z := map (fun b => b * bs) (zrange ((n + bs - 1) / bs)).
Definition batched {A : Type} (n bs : Z) (file : Z -> Z -> A) : list A :=
  flat_map (fun b0 => map (file b0) (zrange (batch_end b0 bs n - b0))) (batch_starts n bs).
Definition chans_files fs nch gulp start nsamps (bs : Z) (chans : list Z) : list (option (list Z)) :=
  batched (Z.of_nat (length chans)) bs
    (fun b0 ifile => chans_pipe fs nch gulp start nsamps (nth (Z.to_nat (chans_batch_index b0 ifile)) chans 0)).
Definition bands_files fs nch gulp start nsamps (bs chanstart nchans_sel cps : Z) : list (option (list Z)) :=
  batched (bands_count nchans_sel cps) bs
    (fun b0 ifile => bands_pipe fs nch gulp start nsamps (bands_batch_c0 chanstart cps b0 ifile) cps 0).
Definition concat_files (l : list (option (list Z))) : list Z := flat_map (fun o => match o with Some x => x | None => [-1] end) l.

(** integer mean reduced to an unsigned depth: truncation of a non-negative quotient *)
Definition div_floor (a b : Z) : Z := a / b.

Definition pipe7_eval (api : Z) (xs : list Z) (nch N gulp start nsamps : Z) (ps : list Z) : list Z :=
  let fs := [mkfile [224] xs] in
  let res :=
    if api =? 0 then invert_pipe fs nch gulp start nsamps (fun _ => 77)
    else if api =? 1 then downsample_pipe fs nch gulp start nsamps div_floor (fun _ => 77) (nth 0 ps 1) (nth 1 ps 1)
    else if api =? 2 then subband_pipe fs nch gulp start nsamps (nth 0 ps 0) (nth 1 ps 1) (of_list (skipn 2 ps)) (fun _ => 77)
    else if api =? 3 then zerodm_pipe fs nch gulp start nsamps (fun _ => 77) (of_list (firstn (Z.to_nat nch) ps)) (of_list (skipn (Z.to_nat nch) ps))
    (* 4: apply_channel_mask, ps = mask_value :: mask (0/1 per channel);  5: extract_samps;  6: extract_chans, ps = [chan] (the file of that channel);
       7: extract_bands, ps = [chanstart; chanpersub; iband] (the file of band iband) *)
    else if api =? 4 then mask_pipe fs nch gulp start nsamps (of_list (skipn 1 ps)) (nth 0 ps 0)
    else if api =? 5 then samps_pipe fs nch gulp start nsamps
    else if api =? 6 then chans_pipe fs nch gulp start nsamps (nth 0 ps 0)
    else if api =? 7 then bands_pipe fs nch gulp start nsamps (nth 0 ps 0) (nth 1 ps 1) (nth 2 ps 0)
    (* 8: all files of extract_chans concatenated in the order of the returned names, ps = batch_size :: chans;
       9: all files of extract_bands, ps = [batch_size; chanstart; nchans; chanpersub] *)
    else if api =? 8 then Some (concat_files (chans_files fs nch gulp start nsamps (nth 0 ps 1) (skipn 1 ps)))
    else if api =? 9 then Some (concat_files (bands_files fs nch gulp start nsamps (nth 0 ps 1) (nth 1 ps 0) (nth 2 ps 0) (nth 3 ps 1)))
    else None in
  match res with Some l => l | None => [-1] end.
