(** C09 -- the specification side: what every dedispersion path has to compute, for an arbitrary integer
    delay vector d (or table D).  Definitions only. *)
From Coq Require Import ZArith List Bool QArith.
Require Import SPP.Base.Rt SPP.Model.C09_Arr2.
Import ListNotations.
Open Scope Z_scope.

(** first output column of the valid-samples-only variants for which no channel wraps, and the number of
    columns lost: the declared output length is n - span *)
Definition t0_of (nchans : Z) (d : arr) : Z := Z.max 0 (- amin nchans d).
Definition span_of (nchans : Z) (d : arr) : Z := Z.max 0 (amax nchans d) - Z.min 0 (amin nchans d).
Definition t0_of2 (ndms nchans : Z) (D : arr2) : Z := Z.max 0 (- amin2 ndms nchans D).
Definition span_of2 (ndms nchans : Z) (D : arr2) : Z := Z.max 0 (amax2 ndms nchans D) - Z.min 0 (amin2 ndms nchans D).

(** block rotation: out[c][t] = x[c][(t + d_c) mod n] *)
Definition spec_rot (x : arr2) (n : Z) (d : arr) : arr2 := fun c t => x c ((t + d c) mod n).
(** valid samples only: out[c][t] = x[c][t + t0 + d_c] *)
Definition spec_valid (x : arr2) (nchans : Z) (d : arr) : arr2 := fun c t => x c (t + t0_of nchans d + d c).
(** DM-time transform: row i is the channel sum of the block dedispersed with row i of the delay table *)
Definition spec_dmt (x : arr2) (nchans n : Z) (D : arr2) : arr2 :=
  fun i t => sum_n (Z.to_nat nchans) (fun c => x c ((t + D i c) mod n)).
Definition spec_dmt_valid (x : arr2) (ndms nchans : Z) (D : arr2) : arr2 :=
  fun i t => sum_n (Z.to_nat nchans) (fun c => x c (t + t0_of2 ndms nchans D + D i c)).
(** reading a dedispersed block of a file x[c][sample]: out[c][k] = x[c][start + d_c + k] *)
Definition spec_rdb (x : arr2) (start : Z) (d : arr) : arr2 := fun c k => x c (start + d c + k).

(** a unit pulse dispersed with the delays d around column p *)
Definition pulse (n p : Z) (d : arr) : arr2 := fun c t => if t =? (p + d c) mod n then 1 else 0.

(** [z] is a nearest integer of [q], and an even one if [q] is a tie: what "rounded to the nearest sample"
    means for the exact value q of the law *)
Definition nearest_even (q : Q) (z : Z) : Prop :=
  (inject_Z z - (1 # 2) <= q)%Q /\ (q <= inject_Z z + (1 # 2))%Q /\
  ((q == inject_Z z + (1 # 2))%Q \/ (q == inject_Z z - (1 # 2))%Q -> Z.even z = true).
