(** C15 -- the fragment of NumPy that sigpyproc/core/stats.py and utils.apply_along_axes use, as executable
    Gallina over exact rationals.  DEFINITIONS ONLY.  This file is the (trusted) reading of NumPy's semantics;
    Gen/Stats.v (regenerated from the source by tools/py2coq/gen_c15.py) is written against it and the
    correspondence run of tools/harness/props/c15.py validates it numerically against NumPy itself.

    Numbers are canonical rationals [Qc] (Leibniz equality, so ties are equal terms).  What is NOT modelled:
    float32/float64 rounding, [np.isclose(x, 0)] (read as [x = 0]), NaN (a masked array [ndo] instead),
    broadcasting errors (shapes are assumed compatible), the distinction 0-d array / NumPy scalar. *)
From Coq Require Import ZArith List Bool QArith Qcanon Qcabs Qround.
Require Import SPP.Base.Rt.
Import ListNotations.
Open Scope Z_scope.

Definition vec := list Qc.
Definition qz (z : Z) : Qc := Q2Qc (inject_Z z).
Definition qfrac (n : Z) (d : positive) : Qc := Q2Qc (n # d).
Definition Qcleb (x y : Qc) : bool := Qle_bool x y.
Definition Qcltb (x y : Qc) : bool := negb (Qle_bool y x).
Definition Qceqb (x y : Qc) : bool := Qeq_bool x y.
Definition qbool (b : bool) : Qc := if b then qz 1 else qz 0.
Definition qtrue (x : Qc) : bool := negb (Qceqb x (qz 0)).

(** * one-dimensional primitives *)
Fixpoint insert (x : Qc) (l : vec) : vec :=
  match l with [] => x :: nil | y :: r => if Qcleb x y then x :: l else y :: insert x r end.
Fixpoint sort (l : vec) : vec := match l with [] => [] | x :: r => insert x (sort r) end.
Definition nthq (l : vec) (i : Z) : Qc := nth (Z.to_nat i) l (qz 0).
Definition vsum (l : vec) : Qc := fold_right Qcplus (qz 0) l.
Definition vlen (l : vec) : Z := Z.of_nat (length l).

(** np.max (of a non-empty list; the empty list is a precondition violation, read as 0) *)
Definition max1 (l : vec) : Qc :=
  match l with nil => qz 0 | x :: r => fold_left (fun m y => if Qcleb m y then y else m) r x end.
(** np.mean *)
Definition mean1 (l : vec) : Qc := (vsum l / qz (vlen l))%Qc.
(** np.median: middle order statistic, or the mean of the two middle ones *)
Definition median1 (l : vec) : Qc :=
  let s := sort l in let n := vlen l in
  if Z.even n then ((nthq s (n / 2 - 1) + nthq s (n / 2)) / qz 2)%Qc else nthq s (n / 2).
(** np.percentile(., p) with the default 'linear' method: virtual index (n-1) p/100 *)
Definition percentile1 (p : Qc) (l : vec) : Qc :=
  let s := sort l in let n := vlen l in
  let pos := (qz (n - 1) * p / qz 100)%Qc in
  let lo := Qfloor pos in
  let fr := (pos - qz lo)%Qc in
  let hi := Z.min (lo + 1) (n - 1) in
  (nthq s lo + fr * (nthq s hi - nthq s lo))%Qc.
(** population variance: np.std(.)**2 *)
Definition var1 (l : vec) : Qc :=
  let m := mean1 l in mean1 (map (fun x => ((x - m) * (x - m))%Qc) l).
(** np.diff *)
Fixpoint diff1 (l : vec) : vec :=
  match l with x :: ((y :: _) as r) => (y - x)%Qc :: diff1 r | _ => [] end.
(** np.dot of two 1-D arrays *)
Fixpoint dot1 (a b : vec) : Qc :=
  match a, b with x :: a', y :: b' => (x * y + dot1 a' b')%Qc | _, _ => qz 0 end.
(** np.arange(lo, hi, step) for step = 1 / -1 *)
Definition arange_up (lo hi : Z) : vec := map (fun i => qz (lo + i)) (zrange (hi - lo)).
Definition arange_down (hi lo : Z) : vec := map (fun i => qz (hi - i)) (zrange (hi - lo)).
Definition vmul (a b : vec) : vec := map (fun p => (fst p * snd p)%Qc) (combine a b).
(** data[:, None] - data : the matrix of all differences, row i = data[i] - data *)
Definition outer_sub (l : vec) : list vec := map (fun x => map (fun y => (x - y)%Qc) l) l.
Definition mabs (m : list vec) : list vec := map (map Qcabs) m.
(** m[np.triu_indices(n, k=1)]: the entries above the diagonal, row by row *)
Definition triu1 (m : list vec) : vec :=
  flat_map (fun p => skipn (S (fst p)) (snd p)) (combine (seq 0 (length m)) m).
(** np.partition(v, k)[k] : the k-th order statistic (0-based) *)
Definition kth (l : vec) (k : Z) : Qc := nthq (sort l) k.
(** masked ("NaN-carrying") one-dimensional data: None stands for NaN *)
Definition keep (l : list (option Qc)) : vec :=
  flat_map (fun o => match o with Some x => x :: nil | None => nil end) l.
Definition nanmedian1 (l : list (option Qc)) : Qc := median1 (keep l).
Definition nanmean1 (l : list (option Qc)) : Qc := mean1 (keep l).

(** * N-d arrays: a shape and a total function of the multi-index *)
Record nd := mk_nd { shape : list Z; get : list Z -> Qc }.
(** masked N-d array: [mask] non-zero where the value is present (not NaN) *)
Record ndo := mk_ndo { omask : nd; oval : nd }.

Fixpoint set_nth (k : nat) (v : Z) (l : list Z) : list Z :=
  match l, k with [], _ => [] | _ :: r, O => v :: r | x :: r, S k' => x :: set_nth k' v r end.
Fixpoint remove_nth (k : nat) (l : list Z) : list Z :=
  match l, k with [], _ => [] | _ :: r, O => r | x :: r, S k' => x :: remove_nth k' r end.
Fixpoint insert_nth (k : nat) (v : Z) (l : list Z) : list Z :=
  match k, l with O, _ => v :: l | S k', x :: r => x :: insert_nth k' v r | S _, [] => [v] end.

Definition ndim (A : nd) : Z := Z.of_nat (length (shape A)).
Definition size (A : nd) : Z := fold_right Z.mul 1 (shape A).
Fixpoint all_idx (sh : list Z) : list (list Z) :=
  match sh with [] => [[]] | d :: r => flat_map (fun i => map (cons i) (all_idx r)) (zrange d) end.
(** data.ravel() (C order) *)
Definition ravel (A : nd) : vec := map (get A) (all_idx (shape A)).
Definition scalar (x : Qc) : nd := mk_nd [] (fun _ => x).
Definition item (A : nd) : Qc := get A (map (fun _ => 0) (shape A)).
(** a 1-D array from a list *)
Definition of_vec (l : vec) : nd := mk_nd [vlen l] (fun idx => nthq l (hd 0 idx)).
(** np.zeros(1) / np.ones(1) *)
Definition const1 (x : Qc) : nd := mk_nd [1] (fun _ => x).

(** ** reductions along an axis.  [lane A k idx]: the 1-D section of [A] through [idx] along axis [k] *)
Definition norm_axis (A : nd) (k : Z) : nat := Z.to_nat (k mod ndim A).
Definition lane (A : nd) (k : nat) (idx : list Z) : vec :=
  map (fun j => get A (set_nth k j idx)) (zrange (nth k (shape A) 0)).
Definition reduce_axis (f : vec -> Qc) (A : nd) (k : nat) (keepdims : bool) : nd :=
  if keepdims then mk_nd (set_nth k 1 (shape A)) (fun idx => f (lane A k idx))
  else mk_nd (remove_nth k (shape A)) (fun idx => f (lane A k (insert_nth k 0 idx))).
Definition reduce_all (f : vec -> Qc) (A : nd) (keepdims : bool) : nd :=
  mk_nd (if keepdims then map (fun _ => 1) (shape A) else []) (fun _ => f (ravel A)).
(** np.median / np.mean / np.std / ... (data, axis=axis, keepdims=keepdims) for axis None or an int *)
Definition np_reduce (f : vec -> Qc) (A : nd) (axis : option Z) (keepdims : bool) : nd :=
  match axis with None => reduce_all f A keepdims | Some k => reduce_axis f A (norm_axis A k) keepdims end.

(** the same for masked arrays (np.nanmedian, np.nanmean) *)
Definition olane (A : ndo) (k : nat) (idx : list Z) : list (option Qc) :=
  map (fun j => let i := set_nth k j idx in if qtrue (get (omask A) i) then Some (get (oval A) i) else None)
      (zrange (nth k (shape (oval A)) 0)).
Definition oravel (A : ndo) : list (option Qc) :=
  map (fun i => if qtrue (get (omask A) i) then Some (get (oval A) i) else None) (all_idx (shape (oval A))).
Definition np_oreduce (f : list (option Qc) -> Qc) (A : ndo) (axis : option Z) (keepdims : bool) : nd :=
  let sh := shape (oval A) in
  match axis with
  | None => mk_nd (if keepdims then map (fun _ => 1) sh else []) (fun _ => f (oravel A))
  | Some k0 => let k := norm_axis (oval A) k0 in
      if keepdims then mk_nd (set_nth k 1 sh) (fun idx => f (olane A k idx))
      else mk_nd (remove_nth k sh) (fun idx => f (olane A k (insert_nth k 0 idx)))
  end.

(** ** broadcasting (shapes right-aligned; a dimension of size 1 is stretched) *)
Fixpoint zipw (a b : list Z) : list Z :=
  match a, b with x :: a', y :: b' => (if x =? 1 then y else x) :: zipw a' b' | _, _ => [] end.
Definition lpad (k : nat) (l : list Z) : list Z := repeat 1 k ++ l.
Definition bshape (a b : list Z) : list Z :=
  zipw (lpad (length b - length a) a) (lpad (length a - length b) b).
Fixpoint clamp (sh idx : list Z) : list Z :=
  match sh, idx with d :: sh', i :: idx' => (if d =? 1 then 0 else i) :: clamp sh' idx' | _, _ => [] end.
Definition bidx (sh idx : list Z) : list Z := clamp sh (skipn (length idx - length sh) idx).
Definition nd_map (f : Qc -> Qc) (A : nd) : nd := mk_nd (shape A) (fun idx => f (get A idx)).
Definition nd_map2 (op : Qc -> Qc -> Qc) (A B : nd) : nd :=
  mk_nd (bshape (shape A) (shape B))
        (fun idx => op (get A (bidx (shape A) idx)) (get B (bidx (shape B) idx))).
Definition nd_map3 (op : Qc -> Qc -> Qc -> Qc) (A B C : nd) : nd :=
  mk_nd (bshape (bshape (shape A) (shape B)) (shape C))
        (fun idx => op (get A (bidx (shape A) idx)) (get B (bidx (shape B) idx)) (get C (bidx (shape C) idx))).

Definition np_sub := nd_map2 Qcminus.
Definition np_add := nd_map2 Qcplus.
Definition np_mul := nd_map2 Qcmult.
Definition np_div := nd_map2 Qcdiv.
Definition np_abs := nd_map Qcabs.
Definition np_le := nd_map2 (fun x y => qbool (Qcleb x y)).
Definition np_ge := nd_map2 (fun x y => qbool (Qcleb y x)).
Definition np_lt := nd_map2 (fun x y => qbool (Qcltb x y)).
Definition np_gt := nd_map2 (fun x y => qbool (Qcltb y x)).
(** np.isclose(x, 0): read as x = 0 (the absolute threshold 1e-8 is not modelled) *)
Definition np_isclose0 := nd_map (fun x => qbool (Qceqb x (qz 0))).
Definition np_any (A : nd) : bool := existsb qtrue (ravel A).
Definition np_where := nd_map3 (fun c x y => if qtrue c then x else y).
(** np.where(cond, x, np.nan) *)
Definition np_where_nan (C X : nd) : ndo :=
  mk_ndo (nd_map2 (fun c _ => c) C X) (nd_map2 (fun _ x => x) C X).

(** ** shape surgery *)
Fixpoint unsqueeze_idx (sh idx : list Z) : list Z :=
  match sh with
  | [] => []
  | d :: sh' => if d =? 1 then 0 :: unsqueeze_idx sh' idx
                else match idx with i :: idx' => i :: unsqueeze_idx sh' idx' | [] => 0 :: unsqueeze_idx sh' [] end
  end.
(** np.squeeze(a): every dimension of size 1 goes *)
Definition np_squeeze (A : nd) : nd :=
  mk_nd (filter (fun d => negb (d =? 1)) (shape A)) (fun idx => get A (unsqueeze_idx (shape A) idx)).
(** np.squeeze(a, axis=axis) for axis None or an int (the dimension is assumed to be 1) *)
Definition np_squeeze_axis (A : nd) (axis : option Z) : nd :=
  match axis with
  | None => np_squeeze A
  | Some k0 => let k := norm_axis A k0 in mk_nd (remove_nth k (shape A)) (fun idx => get A (insert_nth k 0 idx))
  end.
(** np.expand_dims(a, axis=k): AxisError (None) unless -ndim-1 <= k <= ndim *)
Definition np_expand_dims (A : nd) (k0 : Z) : option nd :=
  let r := ndim A + 1 in
  if (k0 <? - r) || (r <=? k0) then None
  else let k := Z.to_nat (k0 mod r) in Some (mk_nd (insert_nth k 1 (shape A)) (fun idx => get A (remove_nth k idx))).
(** np.expand_dims(a, axis=tuple(range(n))) *)
Definition np_expand_dims_range (A : nd) (n : Z) : option nd :=
  let r := ndim A + n in
  Some (mk_nd (map (fun _ => 1) (zrange n) ++ shape A) (fun idx => get A (skipn (Z.to_nat n) idx))).
(** result.reshape(-1)[0] *)
Definition np_first (A : nd) : nd := scalar (item A).

(** np.percentile(data, [p0, p1, ..], axis=axis, keepdims=keepdims): the results stacked along a new axis 0 *)
Definition np_percentiles (ps : list Qc) (A : nd) (axis : option Z) (keepdims : bool) : nd :=
  let R := fun p => np_reduce (percentile1 p) A axis keepdims in
  mk_nd (vlen ps :: shape (R (qz 0)))
        (fun idx => get (R (nthq ps (hd 0 idx))) (tl idx)).
(** np.diff(a, axis=0) *)
Definition np_diff0 (A : nd) : nd :=
  mk_nd (match shape A with d :: r => (d - 1) :: r | [] => [] end)
        (fun idx => let up := (hd 0 idx + 1) :: tl idx in (get A up - get A idx)%Qc).
(** a[i] *)
Definition np_index0 (A : nd) (i : Z) : nd := mk_nd (tl (shape A)) (fun idx => get A (i :: idx)).

(** data[..., None] - data[..., None, :] : differences of all pairs along the LAST axis; one more axis *)
Definition np_pairdiff_last (A : nd) : nd :=
  let r := length (shape A) in
  mk_nd (shape A ++ [last (shape A) 1])
        (fun idx => let i := firstn r idx in let j := nth r idx 0 in
                    (get A i - get A (set_nth (r - 1) j i))%Qc).

(** np.moveaxis(data, (k,), (0,)) *)
Definition np_moveaxis_front (A : nd) (k : nat) : nd :=
  mk_nd (nth k (shape A) 0 :: remove_nth k (shape A))
        (fun idx => get A (insert_nth k (hd 0 idx) (tl idx))).
(** moved.reshape(-1, *moved.shape[m:]): merging the m leading axes; only m = 1 (the identity) is modelled *)
Definition np_reshape_lead (A : nd) (m : Z) : nd := A.
(** np.apply_along_axis(func, axis=0, arr) *)
Definition np_apply_along_axis0 (f : vec -> Qc) (A : nd) : nd := reduce_axis f A 0 false.

(** * executable conversions for the correspondence run *)
Fixpoint flat_index (sh idx : list Z) (acc : Z) : Z :=
  match sh, idx with d :: sh', i :: idx' => flat_index sh' idx' (acc * d + i) | _, _ => acc end.
Definition nd_of_list (sh : list Z) (l : vec) : nd := mk_nd sh (fun idx => nthq l (flat_index sh idx 0)).
Definition shape_eqb (a b : list Z) : bool := list_eqb a b.

(** ** materialisation.  [nd_memo A] has the same shape and the same elements as [A] (Proofs/C15_lib.v:
    [nd_memo_get]) but stores the in-range elements in a list, so that evaluation by [vm_compute] does not
    recompute a let-bound array at every use.  Generated definitions take [memo] as a parameter. *)
Fixpoint in_rangeb (sh idx : list Z) : bool :=
  match sh, idx with
  | [], [] => true
  | d :: sh', i :: idx' => (0 <=? i) && (i <? d) && in_rangeb sh' idx'
  | _, _ => false
  end.
Definition nd_memo (A : nd) : nd :=
  if forallb (fun d => 0 <=? d) (shape A) then
    let l := ravel A in
    mk_nd (shape A) (fun idx => if in_rangeb (shape A) idx then nthq l (flat_index (shape A) idx 0) else get A idx)
  else A.

(** * the method names offered by estimate_loc / estimate_scale / estimate_zscore *)
Inductive loc_method := L_median | L_mean | L_norm | L_other.
Inductive scale_method :=
  S_std | S_iqr | S_mad | S_doublemad | S_diffcov | S_biweight | S_qn | S_sn | S_gapper | S_norm | S_other.
Definition loc_method_eqb (a b : loc_method) : bool :=
  match a, b with L_median, L_median | L_mean, L_mean | L_norm, L_norm | L_other, L_other => true | _, _ => false end.
Definition scale_method_eqb (a b : scale_method) : bool :=
  match a, b with
  | S_std, S_std | S_iqr, S_iqr | S_mad, S_mad | S_doublemad, S_doublemad | S_diffcov, S_diffcov
  | S_biweight, S_biweight | S_qn, S_qn | S_sn, S_sn | S_gapper, S_gapper | S_norm, S_norm | S_other, S_other => true
  | _, _ => false end.
(** exact decimal literal  m * 10^-e *)
Definition qdec (m : Z) (e : Z) : Qc := Q2Qc (m # Z.to_pos (10 ^ e)).
(** np.finfo(np.float32).eps = 2^-23 *)
Definition float32_eps : Qc := Q2Qc (1 # 8388608).
(** np.finfo(np.float32).tiny = 2^-126, the smallest normal float32 *)
Definition float32_tiny : Qc := Q2Qc (1 # 85070591730234615865843651857942052864).
(** v[:-1], v[1:] *)
Definition vinit (l : vec) : vec := removelast l.
Definition vtail (l : vec) : vec := tl l.
(** np.median(m, axis=-1) of a 2-D array given as a list of rows *)
Definition mmedian_last (m : list vec) : vec := map median1 m.

(** * concrete stand-ins for the external functions, used ONLY by the correspondence run (never by a theorem) *)
(** sqrt to 20 decimal places *)
Definition approx_sqrt (x : Qc) : Qc :=
  let q := this x in Q2Qc (Z.sqrt (Qnum q * 10 ^ 40 / Zpos (Qden q)) # Z.to_pos (10 ^ 20)).
Definition approx_pi : Qc := qdec 3141592653589793238462643383 27.
(** np.cov(a, b)[0, 1] (unbiased) *)
Definition cov01 (a b : vec) : Qc :=
  let ma := mean1 a in let mb := mean1 b in
  (vsum (map (fun p => ((fst p - ma) * (snd p - mb))%Qc) (combine a b)) / qz (vlen a - 1))%Qc.
Definition std1 (l : vec) : Qc := approx_sqrt (var1 l).
(** |x - y| <= tol * (1 + |y|) *)
Definition close (tol x y : Qc) : bool := Qcleb (Qcabs (x - y)) (tol * (qz 1 + Qcabs y))%Qc.
