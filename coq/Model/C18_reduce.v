(** The streaming reductions of base.py (Model/C06_pipe.v: per-block functions regenerated from base.py and kernels.py)
    driven by the PSRFITS reader's plan trace instead of FilReader's.  Definitions only. *)
From Coq Require Import ZArith List Bool.
Require Import SPP.Base.Rt SPP.Gen.Kernels SPP.Gen.Plan SPP.Gen.BaseSites SPP.Model.Stream SPP.Model.Plan SPP.Model.C06_pipe SPP.Model.C18_PFits.
Import ListNotations.
Open Scope Z_scope.

(** Filterbank.collapse / bandpass on a PFITSReader: `for nsamps_r, ii, data in self.read_plan(...)` *)
Definition pf_collapse_pipe (F : pfile) (gulp start nsamps : Z) : option arr :=
  match pf_run_plan F gulp start nsamps collapse_skipback with
  | TOk bl => Some (fold_left (collapse_step (p_nchan F) gulp) bl zeros)
  | TErr _ _ => None
  end.
Definition pf_bandpass_pipe (F : pfile) (gulp start nsamps : Z) : option (arr * Z) :=
  match pf_run_plan F gulp start nsamps bandpass_skipback with
  | TOk bl => Some (fold_left (bandpass_step (p_nchan F)) bl (zeros, 0))
  | TErr _ _ => None
  end.
