(** Hand glue and specification vocabulary for C11 (folding).  Definitions only.

    Implementation side: "for each block yielded by read_plan call the generated per-block function" -- the per-block
    function [fold_block], the gulp adjustment, skip-back, sub-band clamp and the sample count passed as the kernel's
    [total_nsamps] are Gen.C11Fold (regenerated from base.py / timeseries.py / kernels.py); the plan is Model.Plan.run_plan (C01).

    Specification side: the cell of folded sample [a] (counted from the first selected sample) and channel [c], and the sum
    of everything assigned to a cell. *)
From Coq Require Import ZArith QArith List Bool.
Require Import SPP.Base.Rt SPP.Base.Iter SPP.Gen.Plan SPP.Gen.C11Fold SPP.Model.C11_rt SPP.Model.Stream SPP.Model.Plan.
Import ListNotations.
Open Scope Z_scope.

(** * Filterbank.fold: plan o kernel *)
Definition fold_step (nch gulp' md : Z) (tsamp period accel : Q) (N start nsamps nn nbins nints nb : Z) (delays : arr)
    (st : arr * arr) (b : Z * Z * list Z) : arr * arr :=
  let '(n_r, ii, d) := b in
  fold_block (of_list d) (fst st) (snd st) delays md tsamp period accel N start nsamps nn n_r nch nbins nints nb ii gulp'.

(** [nn = 1] encodes the caller's default nsamps=None (then [nsamps] must be N - start, which is what read_plan substitutes);
    the result is the pair (fold_ar, count_ar) before the final division *)
Definition fold_pipe (fs : list file) (nch gulp start nsamps nn md : Z) (delays : arr) (tsamp period accel : Q)
    (nbins nints nbands : Z) : option (arr * arr) :=
  let N := total fs / nch in
  let nb := fold_nbands nbands nch in
  let gulp' := fold_gulp md gulp in
  match run_plan fs nch gulp' start nsamps (fold_skipback md) with
  | POk bl => Some (fold_left (fold_step nch gulp' md tsamp period accel N start nsamps nn nbins nints nb delays) bl (zeros, zeros))
  | PErr _ _ => None
  end.

(** * specification vocabulary *)

(** flat position of cube element [i, b, p] of an array reshaped (C order) to [dims] *)
Definition cube_index (dims : Z * Z * Z) (i b p : Z) : Z := let '(_, d1, d2) := dims in (i * d1 + b) * d2 + p.

(** sum over folded samples a < n and channels c < nch of [v a c] for the (a, c) whose cell is [k] *)
Definition cellsum (nch : Z) (pos v : Z -> Z -> Z) (n : Z) (k : Z) : Z :=
  sum_n (Z.to_nat n) (fun a => sumif (Z.to_nat nch) (fun c => k =? pos a c) (fun c => v a c)).

(** the exact binning formulas the kernel text denotes (floor of exact quotients) *)
Definition subint_of (total nints a : Z) : Z := (a * nints) / total.
Definition subband_of (nchans nsubs c : Z) : Z := (c * nsubs) / nchans.

(** the final [fold_ar /= count_ar] *)
Definition cell_mean (f c : arr) (k : Z) : Q := inject_Z (f k) / inject_Z (c k).

(** * the whole Filterbank.fold call, starting from the vector [raw] that get_dmdelays returns (entries of either sign:
    descending or ascending band, positive or negative DM): chan_delays = raw shifted by the regenerated [fold_delay_of]
    with dmin = raw.min(), max_delay = int(chan_delays.max()) (the translator accepts exactly this statement order) *)
(* vmin / vmax: Model.C11_rt; the shift (fold_chan_delays, with dmin = fold_dmin) and max_delay (fold_max_delay) are regenerated *)
Definition call_delays (nch : Z) (raw : arr) : arr := fold_chan_delays nch raw.
Definition call_md (nch : Z) (raw : arr) : Z := fold_max_delay nch (call_delays nch raw).
Definition fold_call (fs : list file) (nch gulp start nsamps nn : Z) (raw : arr) (tsamp period accel : Q)
    (nbins nints nbands : Z) : option (arr * arr) :=
  fold_pipe fs nch gulp start nsamps nn (call_md nch raw) (call_delays nch raw) tsamp period accel nbins nints nbands.

(** the samples [xs] held by one file, or by two contiguous files cut after [k] elements (k <= 0: one file) *)
Definition split_files (xs : list Z) (k : Z) : list file :=
  if k <=? 0 then [mkfile [224] xs] else [mkfile [224] (firstn (Z.to_nat k) xs); mkfile [224] (skipn (Z.to_nat k) xs)].

(** sum over folded samples a < n and channels c < nch of [v a c] for the (a, c) whose cube coordinates are (i, b, p) *)
Definition cubesum (nch : Z) (si sb pb : Z -> Z) (v : Z -> Z -> Z) (n : Z) (i b p : Z) : Z :=
  sum_n (Z.to_nat n) (fun a => sumif (Z.to_nat nch) (fun c => (si a =? i) && (sb c =? b) && (pb a =? p)) (fun c => v a c)).

(** * evaluation entry points of the correspondence run *)
Definition q_of (p : Z * Z) : Q := Qmake (fst p) (Z.to_pos (snd p)).

Definition out_lists (ncells : Z) (r : option (arr * arr)) : list Z * list Z :=
  match r with Some (f, c) => (to_list ncells f, to_list ncells c) | None => ([-1], [-1]) end.

(** api 0: Filterbank.fold on a single 8-bit file holding [xs]; api 1: kernels.fold called directly on [xs]
    (then gulp is the kernel's index, start its total_nsamps and nn unused); api 2: TimeSeries.fold on [xs];
    api 3: the whole Filterbank.fold call from the vector [dl] get_dmdelays returned (any sign; the model shifts it and
    takes max_delay itself), on one file or, when the [md] slot holds a split sample > 0, on two contiguous files *)
Definition fold_eval (api : Z) (xs : list Z) (nch gulp start nsamps nn md : Z) (dl : list Z) (tsamp period accel : Z * Z)
    (nbins nints nbands : Z) : list Z * list Z :=
  let ts := q_of tsamp in let p := q_of period in let ac := q_of accel in
  if api =? 0 then
    out_lists (fold_ncells nbins nints (fold_nbands nbands nch))
              (fold_pipe [mkfile [224] xs] nch gulp start nsamps nn md (of_list dl) ts p ac nbins nints nbands)
  else if api =? 1 then
    out_lists (nbins * nints * nbands)
              (Some (fold_run (of_list xs) zeros zeros (of_list dl) md ts p ac start nsamps nch nbins nints nbands gulp))
  else if api =? 3 then
    out_lists (fold_ncells nbins nints (fold_nbands nbands nch))
              (fold_call (split_files xs (md * nch)) nch gulp start nsamps nn (of_list dl) ts p ac nbins nints nbands)
  else
    out_lists (ts_fold_ncells nbins nints) (Some (ts_fold (of_list xs) nsamps ts p ac nbins nints)).
