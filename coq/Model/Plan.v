(** Hand-written model of the loop of FilReader.read_plan (byte-wide samples: chan_stride = 1,
    samp_stride = nchans), executed against the Stream model.  The block plan itself is Gen.Plan.fil_plan,
    regenerated from readers.py.  Definitions only. *)
From Coq Require Import ZArith List Bool.
Require Import SPP.Base.Rt SPP.Gen.Plan SPP.Model.Stream.
Import ListNotations.
Open Scope Z_scope.

(** blocks yielded so far (nsamps_r, ii, data), and how the iteration ended *)
Inductive ptrace := POk (bl : list (Z * Z * list Z)) | PErr (bl : list (Z * Z * list Z)) (e : err).

(** for ii, block, skip in blocks:
      expected_nbytes = int(block * chan_stride)
      nbytes = creadinto(read_buffer[:expected_nbytes], unpack_buffer[:block]);  if nbytes != expected_nbytes: raise ValueError
      if skip != 0: seek(int(skip * chan_stride), whence=1)
      yield block // nchans, ii, data[:block] *)
Fixpoint plan_loop (fs : list file) (nch : Z) (s : st) (blocks : list (Z * Z * Z)) (acc : list (Z * Z * list Z)) : ptrace :=
  match blocks with
  | [] => POk acc
  | (ii, block, skip) :: r =>
      let '(s1, o) := creadinto fs s block in
      match o with
      | OBytes bytes =>
          if negb (len bytes =? block) then PErr acc ValueError else
          let '(s2, o2) := if skip =? 0 then (s1, OUnit) else seek_cur_op fs s1 skip in
          match o2 with
          | OErr e => PErr acc e
          | _ => plan_loop fs nch s2 r (acc ++ [(block / nch, ii, firstn (Z.to_nat block) bytes)])
          end
      | OErr e => PErr acc e
      | OUnit => PErr acc ValueError
      end
  end.

Definition run_plan (fs : list file) (nch gulp start nsamps skipback : Z) : ptrace :=
  (* header.nsamples = datalen // nchans; get_combined('datalen') = total; samp_stride = nchans *)
  match fil_plan gulp start nsamps skipback (total fs / nch) (total fs) nch nch with
  | None => PErr [] ValueError
  | Some (g, sb, seek0, blocks) =>
      let '(s0, o0) := seek_set_op fs (init fs) seek0 in
      match o0 with OErr e => PErr [] e | _ => plan_loop fs nch s0 blocks [] end
  end.

(** 0 = completed, 1 = error before the first yield, 2 = error after a yield *)
Definition trace_enc (t : ptrace) : Z * list (Z * Z * list Z) :=
  match t with POk bl => (0, bl) | PErr [] _ => (1, []) | PErr bl _ => (2, bl) end.

(** blocks laid end to end after dropping from each block after the first its leading skipback samples *)
Fixpoint stitch_tail (drop : Z) (bl : list (Z * Z * list Z)) : list Z :=
  match bl with [] => [] | (_, _, d) :: r => skipn (Z.to_nat drop) d ++ stitch_tail drop r end.
Definition stitch (drop : Z) (bl : list (Z * Z * list Z)) : list Z :=
  match bl with [] => [] | (_, _, d) :: r => d ++ stitch_tail drop r end.
