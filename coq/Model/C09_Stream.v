(** C09 -- Filterbank.dedisperse (streamed dedispersion of a file), executable model.  Definitions only.
    The delays, sizes and kernel arguments are the REGENERATED call-site expressions of Gen/C09.v
    (names stream_...); the kernel is the regenerated dedisperse_run of Gen/Kernels.v.  Hand-written here: the
    buffer a read returns and the loop over the blocks of a read plan (the plan itself is C06). *)
From Coq Require Import ZArith List Bool.
Require Import SPP.Base.Rt SPP.Model.C09_Arr2 SPP.Gen.Kernels SPP.Gen.C09.
Import ListNotations.
Open Scope Z_scope.

(** the flat buffer of a read that starts at file sample [pos]: sample-major, [nchans] values per sample *)
Definition stream_buffer (x : arr2) (nchans pos : Z) : arr := fun j => x (j mod nchans) (pos + j / nchans).

(** one iteration of the loop: block number [ii] of [nsamps_r] samples read at file sample [pos] *)
Definition stream_block (x : arr2) (d : arr) (nchans gulp nsamps_sel : Z) (out : arr) (blk : Z * Z * Z) : arr :=
  let '(nsamps_r, ii, pos) := blk in
  dedisperse_run (stream_buffer x nchans pos) out
    (stream_kernel_delay d nchans gulp nsamps_sel) (stream_kernel_maxdelay d nchans gulp nsamps_sel)
    (stream_kernel_nchans d nchans gulp nsamps_sel) nsamps_r (stream_kernel_index d nchans gulp nsamps_sel ii).

(** the whole loop over a plan [(nsamps_r, ii, pos)], starting from np.zeros *)
Definition stream_run (x : arr2) (d : arr) (nchans gulp nsamps_sel : Z) (plan : list (Z * Z * Z)) : arr :=
  fold_left (stream_block x d nchans gulp nsamps_sel) plan (fun _ => 0).

(** the blocks read_plan(gulp = G, skipback = S) yields for a selection of [nsel] samples from [start]:
    block ii starts at start + ii * (G - S); it has G samples while they fit, the remainder otherwise, and
    a remainder that is not longer than the skip-back is not read (fuel: an upper bound of the number of blocks) *)
Fixpoint plan_blocks (fuel : nat) (start nsel G S ii : Z) : list (Z * Z * Z) :=
  match fuel with
  | O => []
  | S f =>
      let off := ii * (G - S) in
      let left := nsel - off in
      if left <=? S then []
      else if left <=? G then [(left, ii, start + off)]
      else (G, ii, start + off) :: plan_blocks f start nsel G S (ii + 1)
  end.

(** what the property demands of the returned series: out[t] = sum_c x[c][start + t + t0 + d_c] *)
Definition spec_stream (x : arr2) (nchans start : Z) (d : arr) (t0 : Z) : arr :=
  fun t => sum_n (Z.to_nat nchans) (fun c => x c (start + t + t0 + d c)).
