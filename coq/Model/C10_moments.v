(** Hand-written executable model for C10: one channel of [ChannelStats] (sigpyproc/core/stats.py) on top of the
    generated kernels of Gen/Moments.v, and the two-pass specification.  Definitions only.

    What is modelled by hand here (tied to the source by the translator's structural checks and by the
    correspondence run of tools/harness/props/c10.py):
      - the record starts as np.zeros (ChannelStats.__init__);
      - push_data(array, start_index, mode) runs compute_online_moments(_basic) with startflag = start_index:
        load the record, initialise min/max to the first sample when [.._init startflag count nsamps] holds,
        fold the generated per-sample step over the chunk, store the record (count into an int32 field);
      - a + b runs add_online_moments on the two records;
      - mean/var/skew/kurtosis as derived from the record, with the [m2 != 0] guards (skew through its square:
        the square root is not rational).
    Float arithmetic is modelled exactly (Q); integer arithmetic wraps as int64 / int32. *)
From Coq Require Import ZArith QArith List Bool.
Require Import SPP.Model.C10_rt SPP.Gen.Moments.
Import ListNotations.
Open Scope Q_scope.

Record mst := MkSt { s_cnt : Z; s_m1 : Q; s_m2 : Q; s_m3 : Q; s_m4 : Q; s_min : Q; s_max : Q }.

Definition zero_st : mst := MkSt 0%Z 0 0 0 0 0 0.

Definition zlen {A} (l : list A) : Z := Z.of_nat (length l).

(** * push_data, full mode (compute_online_moments) *)
Definition step_full (st : Q * Q * Q * Q * Z * Q * Q) (val : Q) :=
  let '(a, b, c, d, n, lo, hi) := st in compute_online_moments_step val a b c d n lo hi.

Definition push_full (flag : Z) (chunk : list Q) (s : mst) : mst :=
  let ini := compute_online_moments_init flag (s_cnt s) (zlen chunk) in
  let lo0 := if ini then hd 0 chunk else s_min s in
  let hi0 := if ini then hd 0 chunk else s_max s in
  let '(a, b, c, d, n, lo, hi) := fold_left step_full chunk (s_m1 s, s_m2 s, s_m3 s, s_m4 s, s_cnt s, lo0, hi0) in
  MkSt (compute_online_moments_store_count n) a b c d lo hi.

(** * push_data, basic mode (compute_online_moments_basic): m3, m4 are not touched *)
Definition step_basic (st : Q * Q * Z * Q * Q) (val : Q) :=
  let '(a, b, n, lo, hi) := st in compute_online_moments_basic_step val a b n lo hi.

Definition push_basic (flag : Z) (chunk : list Q) (s : mst) : mst :=
  let ini := compute_online_moments_basic_init flag (s_cnt s) (zlen chunk) in
  let lo0 := if ini then hd 0 chunk else s_min s in
  let hi0 := if ini then hd 0 chunk else s_max s in
  let '(a, b, n, lo, hi) := fold_left step_basic chunk (s_m1 s, s_m2 s, s_cnt s, lo0, hi0) in
  MkSt (compute_online_moments_basic_store_count n) a b (s_m3 s) (s_m4 s) lo hi.

Definition push (full : bool) := if full then push_full else push_basic.

(** * a + b (add_online_moments) *)
Definition merge (a b : mst) : mst :=
  let '(n, c1, c2, c3, c4, lo, hi) :=
    add_online_moments (s_cnt a) (s_m1 a) (s_m2 a) (s_m3 a) (s_m4 a) (s_min a) (s_max a)
                       (s_cnt b) (s_m1 b) (s_m2 b) (s_m3 b) (s_m4 b) (s_min b) (s_max b) in
  MkSt n c1 c2 c3 c4 lo hi.

(** * histories: every way of building an accumulator from pushes and additions *)
Inductive hist :=
| HNew
| HPush (flag : Z) (chunk : list Q) (h : hist)     (* h.push_data(chunk, flag) *)
| HAdd (h1 h2 : hist).                             (* h1 + h2 *)

Fixpoint eval (full : bool) (h : hist) : mst :=
  match h with
  | HNew => zero_st
  | HPush f c h' => push full f c (eval full h')
  | HAdd a b => merge (eval full a) (eval full b)
  end.

(** the sample stream a history has seen, in order *)
Fixpoint data (h : hist) : list Q :=
  match h with
  | HNew => []
  | HPush _ c h' => data h' ++ c
  | HAdd a b => data a ++ data b
  end.

(** one accumulator fed a list of chunks (flag, samples), first chunk first *)
Definition push_chunks (full : bool) (cs : list (Z * list Q)) (s : mst) : mst :=
  fold_left (fun st fc => push full (fst fc) (snd fc) st) cs s.

(** * derived statistics of ChannelStats with [nsamps] the constructor argument *)
Definition mean_q (s : mst) : Q := s_m1 s.
Definition var_q (s : mst) (nsamps : Z) : Q := s_m2 s / z2q nsamps.
(** np.divide(m4, m2**2, out=zeros, where=m2 != 0) * nsamps - 3 *)
Definition kurt_q (s : mst) (nsamps : Z) : Q :=
  (if Qeq_bool (s_m2 s) 0 then 0 else s_m4 s / (s_m2 s * s_m2 s)) * z2q nsamps - 3.
(** skew = np.divide(m3, m2**1.5, out=zeros, where=m2 != 0) * sqrt(nsamps); its square and its sign are rational *)
Definition skew_sq_q (s : mst) (nsamps : Z) : Q :=
  (if Qeq_bool (s_m2 s) 0 then 0 else s_m3 s * s_m3 s / (s_m2 s * s_m2 s * s_m2 s)) * z2q nsamps.
Definition skew_num_q (s : mst) : Q := if Qeq_bool (s_m2 s) 0 then 0 else s_m3 s.
(** std = np.sqrt(self.var): the square root is not rational, so the model carries it as "r is the non-negative number whose
    square is the variance the record yields" (what IEEE sqrt returns up to one rounding; NaN exactly when the variance is negative) *)
Definition is_std (r : Q) (s : mst) (nsamps : Z) : Prop := 0 <= r /\ r * r == var_q s nsamps.
Definition is_std_b (r : Q) (s : mst) (nsamps : Z) : bool := Qle_bool 0 r && Qeq_bool (r * r) (var_q s nsamps).

(** * specification: two-pass definitions over the whole stream *)
Fixpoint qsum (l : list Q) : Q := match l with [] => 0 | x :: r => x + qsum r end.
Definition psum1 (l : list Q) := qsum l.
Definition psum2 (l : list Q) := qsum (map (fun x => x * x) l).
Definition psum3 (l : list Q) := qsum (map (fun x => x * x * x) l).
Definition psum4 (l : list Q) := qsum (map (fun x => x * x * x * x) l).
Definition qmean (l : list Q) : Q := qsum l / z2q (zlen l).
(** central sums about an arbitrary centre; the two-pass definitions use [mu = qmean l] *)
Definition csum2 (mu : Q) (l : list Q) := qsum (map (fun x => (x - mu) * (x - mu)) l).
Definition csum3 (mu : Q) (l : list Q) := qsum (map (fun x => (x - mu) * (x - mu) * (x - mu)) l).
Definition csum4 (mu : Q) (l : list Q) := qsum (map (fun x => (x - mu) * (x - mu) * (x - mu) * (x - mu)) l).

(** closed forms in raw power sums *)
Definition c2 (n s1 s2 : Q) := s2 - s1 * s1 / n.
Definition c3 (n s1 s2 s3 : Q) := s3 - 3 * s1 * s2 / n + 2 * s1 * s1 * s1 / (n * n).
Definition c4 (n s1 s2 s3 s4 : Q) := s4 - 4 * s1 * s3 / n + 6 * s1 * s1 * s2 / (n * n) - 3 * s1 * s1 * s1 * s1 / (n * n * n).

(** list minimum / maximum of a non-empty list *)
Fixpoint lmin (x : Q) (l : list Q) : Q := match l with [] => x | y :: r => lmin (qmin x y) r end.
Fixpoint lmax (x : Q) (l : list Q) : Q := match l with [] => x | y :: r => lmax (qmax x y) r end.
Definition list_min (l : list Q) : Q := match l with [] => 0 | x :: r => lmin x r end.
Definition list_max (l : list Q) : Q := match l with [] => 0 | x :: r => lmax x r end.

(** the invariant: what the record holds after seeing exactly the samples [l] (moments part) *)
Definition inv_full (l : list Q) (s : mst) : Prop :=
  s_cnt s = zlen l /\
  match l with
  | [] => s_m1 s == 0 /\ s_m2 s == 0 /\ s_m3 s == 0 /\ s_m4 s == 0
  | _ => let n := z2q (zlen l) in
         s_m1 s == psum1 l / n /\ s_m2 s == c2 n (psum1 l) (psum2 l) /\
         s_m3 s == c3 n (psum1 l) (psum2 l) (psum3 l) /\ s_m4 s == c4 n (psum1 l) (psum2 l) (psum3 l) (psum4 l)
  end.
Definition inv_basic (l : list Q) (s : mst) : Prop :=
  s_cnt s = zlen l /\
  match l with
  | [] => s_m1 s == 0 /\ s_m2 s == 0
  | _ => let n := z2q (zlen l) in s_m1 s == psum1 l / n /\ s_m2 s == c2 n (psum1 l) (psum2 l)
  end.
Definition inv (full : bool) := if full then inv_full else inv_basic.
Definition inv_minmax (l : list Q) (s : mst) : Prop := s_min s == list_min l /\ s_max s == list_max l.

(** * evaluation helpers for the correspondence run: the same functions with every intermediate value replaced
    by its reduced fraction ([Qred x == x]); without this the numerators of an exact Q evaluation grow
    exponentially with the stream length *)
Definition red_st (s : mst) : mst :=
  MkSt (s_cnt s) (Qred (s_m1 s)) (Qred (s_m2 s)) (Qred (s_m3 s)) (Qred (s_m4 s)) (Qred (s_min s)) (Qred (s_max s)).
Definition step_full_red (st : Q * Q * Q * Q * Z * Q * Q) (val : Q) :=
  let '(a, b, c, d, n, lo, hi) := step_full st val in (Qred a, Qred b, Qred c, Qred d, n, Qred lo, Qred hi).
Definition step_basic_red (st : Q * Q * Z * Q * Q) (val : Q) :=
  let '(a, b, n, lo, hi) := step_basic st val in (Qred a, Qred b, n, Qred lo, Qred hi).
Definition push_red (full : bool) (flag : Z) (chunk : list Q) (s : mst) : mst :=
  if full then
    let ini := compute_online_moments_init flag (s_cnt s) (zlen chunk) in
    let lo0 := if ini then hd 0 chunk else s_min s in
    let hi0 := if ini then hd 0 chunk else s_max s in
    let '(a, b, c, d, n, lo, hi) := fold_left step_full_red chunk (s_m1 s, s_m2 s, s_m3 s, s_m4 s, s_cnt s, lo0, hi0) in
    MkSt (compute_online_moments_store_count n) a b c d lo hi
  else
    let ini := compute_online_moments_basic_init flag (s_cnt s) (zlen chunk) in
    let lo0 := if ini then hd 0 chunk else s_min s in
    let hi0 := if ini then hd 0 chunk else s_max s in
    let '(a, b, n, lo, hi) := fold_left step_basic_red chunk (s_m1 s, s_m2 s, s_cnt s, lo0, hi0) in
    MkSt (compute_online_moments_basic_store_count n) a b (s_m3 s) (s_m4 s) lo hi.
Fixpoint eval_red (full : bool) (h : hist) : mst :=
  match h with
  | HNew => zero_st
  | HPush f c h' => push_red full f c (eval_red full h')
  | HAdd a b => red_st (merge (eval_red full a) (eval_red full b))
  end.
(** field-by-field comparison (used by the correspondence run to check [eval_red] against [eval] on short histories) *)
Definition st_eqb (s t : mst) : bool :=
  (s_cnt s =? s_cnt t)%Z && Qeq_bool (s_m1 s) (s_m1 t) && Qeq_bool (s_m2 s) (s_m2 t) && Qeq_bool (s_m3 s) (s_m3 t)
  && Qeq_bool (s_m4 s) (s_m4 t) && Qeq_bool (s_min s) (s_min t) && Qeq_bool (s_max s) (s_max t).
