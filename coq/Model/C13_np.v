(** NumPy arg-max semantics used by the generated MatchedFilter._compute.  Definitions only. *)
From Coq Require Import ZArith List Bool.
Require Import SPP.Base.Rt SPP.Model.C12_np.
Import ListNotations.
Open Scope Z_scope.

(** np.argmax of a flat array: index of the FIRST maximal element (0 for an empty list; NumPy raises there) *)
Fixpoint argmax_from (l : list Z) (i best besti : Z) : Z :=
  match l with [] => besti | x :: r => if best <? x then argmax_from r (i + 1) x i else argmax_from r (i + 1) best besti end.
Definition np_argmax (l : list Z) : Z := match l with [] => 0 | x :: r => argmax_from r 1 x 0 end.

(** np.unravel_index(k, (nrows, ncols)) in C order *)
Definition np_unravel_index (k nrows ncols : Z) : Z * Z := (k / ncols, k mod ncols).

(** the two operations of normalize_template that are not ring operations *)
Record norm_ops : Type := {
  nrm_mean_of_sum : Z -> Z -> Z;     (* np.mean: mean_of_sum n s = s / n *)
  nrm_div_norm : Z -> Z -> Z }.      (* div_norm x ss = x / sqrt ss, or x itself when sqrt ss = 0 *)
