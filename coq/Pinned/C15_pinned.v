(** C15 -- the estimators whose text differs between the pinned tree (fc376ec) and the repaired tree, PINNED reading:
    _scale_iqr and _scale_mad end in np.squeeze(.), _scale_doublemad assigns the right-hand MAD at the median,
    _scale_sn reduces pairwise differences along the LAST axis before reducing along [axis]. *)
From Coq Require Import ZArith List Bool QArith Qcanon Qcabs Lia.
Require Import SPP.Base.Rt SPP.Base.Iter SPP.Model.C15_np SPP.Gen.Stats.
Require Import SPP.Proofs.C15_lib SPP.Proofs.C15_order SPP.Proofs.C15_rel SPP.Proofs.C15_equiv.
Import ListNotations.
Open Scope Z_scope.

Section Equiv.
  Variables (np_sqrt : Qc -> Qc) (np_pi : Qc) (memo : nd -> nd).
  Hypothesis Hm : memo_ok memo.
  Variables a b : Qc.
  Hypothesis Ha : a <> Q2Qc 0.
  Let c := Qcabs a.
  Let Hc : (Q2Qc 0 < c)%Qc := Qcabs_pos_of_neq0 a Ha.

  Definition quartiles : vec := qz 25 :: qz 75 :: nil.

  Lemma diff0_percentiles A A' axis kd J : rel_of (affine a b) A A' -> lanes_nonempty A axis -> hd 0 J = 0 ->
    get (np_diff0 (memo (np_percentiles quartiles A' axis kd))) J
    = scale c (get (np_diff0 (memo (np_percentiles quartiles A axis kd))) J).
  Proof. intros H Hne HJ. unfold np_diff0. cbn [get]. rewrite !(memo_get memo Hm). unfold np_percentiles. cbn [get hd tl].
    rewrite HJ. change (nthq quartiles (0 + 1)) with (qz 75). change (nthq quartiles 0) with (qz 25).
    destruct (reduce_witness (affine a b) A A' axis kd (tl J) H Hne) as [L [HL [E1 E2]]].
    rewrite !E1, !E2. now apply percentile_pair_affine. Qed.

  Lemma bshape_nil_r sh : bshape sh nil = sh.
  Proof. unfold bshape, lpad. cbn [length]. rewrite Nat.sub_0_r. cbn [Nat.sub repeat app].
    induction sh as [|d sh IH]; [reflexivity|]. cbn [length repeat app zipw]. rewrite IH.
    destruct (d =? 1) eqn:E; [|reflexivity]. f_equal. lia. Qed.

  Lemma hd_bidx_1 S idx : hd 0 (bidx (1 :: S) idx) = 0.
  Proof. unfold bidx. destruct (skipn _ idx); reflexivity. Qed.

  Theorem scale_iqr_equivariant A A' axis : rel_of (affine a b) A A' -> lanes_nonempty A axis ->
    rel_of (scale c) (scale_iqr memo A axis) (scale_iqr memo A' axis).
  Proof. intros H Hne. unfold scale_iqr. fold quartiles. set (norm := qdec _ _). apply rel_squeeze.
    assert (Hs : shape (np_diff0 (memo (np_percentiles quartiles A' axis true))) = shape (np_diff0 (memo (np_percentiles quartiles A axis true)))).
    { unfold np_diff0; cbn [shape]. rewrite !(memo_shape memo Hm). unfold np_percentiles; cbn [shape].
      now rewrite (reduce_shape_rel (affine a b) _ (percentile1 (qz 0)) A A' axis true H). }
    split.
    - cbn [shape np_div nd_map2]. now rewrite Hs.
    - intro idx. cbn [get np_div nd_map2]. rewrite Hs.
      assert (E : exists S, shape (np_diff0 (memo (np_percentiles quartiles A axis true))) = 1 :: S).
      { unfold np_diff0; cbn [shape]. rewrite (memo_shape memo Hm). unfold np_percentiles; cbn [shape]. eexists. reflexivity. }
      destruct E as [S E]. rewrite E. rewrite (diff0_percentiles A A' axis true) by (try assumption; apply hd_bidx_1).
      unfold scale, Qcdiv. ring. Qed.

  (** ** _scale_sn (pinned): equivariant for every axis, although it is not the per-lane Sn (see below) *)
  Lemma rel_pairdiff A A' : rel_of (affine a b) A A' -> rel_of (scale a) (np_pairdiff_last A) (np_pairdiff_last A').
  Proof. intros [Hs Hg]. split; cbn [shape get np_pairdiff_last]; [now rewrite Hs|]. intro idx. rewrite Hs, !Hg. apply sub_affine. Qed.

  Theorem scale_sn_equivariant A A' axis : rel_of (affine a b) A A' ->
    rel_of (scale c) (scale_sn memo A axis) (scale_sn memo A' axis).
  Proof. intro H. unfold scale_sn. set (norm := qdec _ _).
    assert (HD : rel_of (scale c) (memo (np_abs (np_pairdiff_last A))) (memo (np_abs (np_pairdiff_last A')))).
    { apply rel_memo; [exact Hm|]. apply (rel_map1 Qcabs (scale a)); [apply abs_scale|]. now apply rel_pairdiff. }
    assert (HM : rel_of (scale c) (memo (np_reduce median1 (memo (np_abs (np_pairdiff_last A))) (Some (-1)) false))
                                 (memo (np_reduce median1 (memo (np_abs (np_pairdiff_last A'))) (Some (-1)) false))).
    { apply rel_memo; [exact Hm|]. apply (rel_reduce median1 (scale c) (scale c)); [intro; now apply median1_scale|exact HD]. }
    eapply (rel_map2 Qcmult (fun x => x) (scale c) (scale c)); [intros; unfold scale; ring|apply rel_scalar_id|].
    apply (rel_reduce median1 (scale c) (scale c)); [intro; now apply median1_scale|exact HM]. Qed.

  (** ** _scale_doublemad (pinned) *)
  Lemma scale_doublemad_unfold A axis :
    scale_doublemad np_sqrt np_pi memo A axis =
    let loc := memo (np_reduce median1 A axis true) in
    let diff := memo (np_sub A loc) in
    np_where (np_lt A loc) (dm_side np_sqrt np_pi memo axis (np_le A loc) (np_abs diff))
                           (dm_side np_sqrt np_pi memo axis (np_ge A loc) (np_abs diff)).
  Proof. reflexivity. Qed.

  Section DM.
    Variables (A A' : nd) (axis : option Z).
    Hypothesis H : rel_of (affine a b) A A'.
    Hypothesis Hne : lanes_nonempty A axis.
    Let loc := memo (np_reduce median1 A axis true).
    Let loc' := memo (np_reduce median1 A' axis true).
    Let Hloc := dm_loc memo Hm a b Ha A A' axis H Hne.
    Let Hdev := dm_absdiff memo Hm a b Ha A A' axis H Hne.

    (** a > 0: the masks are unchanged *)
    Theorem scale_doublemad_equivariant_pos : (Q2Qc 0 < a)%Qc ->
      rel_of (scale c) (scale_doublemad np_sqrt np_pi memo A axis) (scale_doublemad np_sqrt np_pi memo A' axis).
    Proof. intro Hp. rewrite !scale_doublemad_unfold. cbv zeta. fold loc loc'.
      pose proof (affine_increasing a b Hp) as Hinc.
      eapply (rel_map3 _ (fun x => x) (scale c) (scale c) (scale c)); [intros; apply where_scale| | |].
      - apply (dm_mask_pos memo Hm a b Ha A A' axis H Hne Qcltb Hp). intros x y. rewrite !Qcltb_alt. now rewrite Hinc.
      - apply (dm_side_rel np_sqrt np_pi memo Hm a Ha); [|exact Hdev].
        apply (dm_mask_pos memo Hm a b Ha A A' axis H Hne Qcleb Hp). intros x y. now rewrite Hinc.
      - apply (dm_side_rel np_sqrt np_pi memo Hm a Ha); [|exact Hdev].
        apply (dm_mask_pos memo Hm a b Ha A A' axis H Hne (fun x y => Qcleb y x) Hp). intros x y. now rewrite Hinc. Qed.

    (** a < 0: left and right are exchanged; the estimate is |a| times the original wherever the sample differs
        from the location *)
    Theorem scale_doublemad_equivariant_neg_partial : (a < Q2Qc 0)%Qc -> forall idx,
      (let J := bidx (bshape (shape A) (shape loc)) idx in   (* J = idx for an index in range *)
       get A (bidx (shape A) J) <> get loc (bidx (shape loc) J)) ->
      get (scale_doublemad np_sqrt np_pi memo A' axis) idx = scale c (get (scale_doublemad np_sqrt np_pi memo A axis) idx).
    Proof. intros Hn idx Hd. cbv zeta in Hd. rewrite !scale_doublemad_unfold. cbv zeta. fold loc loc'.
      pose proof (fun x y => affine_decreasing a b x y Hn) as Hdec.
      assert (HL : rel_of (scale c) (dm_side np_sqrt np_pi memo axis (np_ge A loc) (np_abs (memo (np_sub A loc))))
                                   (dm_side np_sqrt np_pi memo axis (np_le A' loc') (np_abs (memo (np_sub A' loc'))))).
      { apply (dm_side_rel np_sqrt np_pi memo Hm a Ha); [|exact Hdev].
        apply (dm_mask_neg memo Hm a b Ha A A' axis H Hne (fun x y => Qcleb y x) Qcleb). intros x y. now rewrite Hdec. }
      assert (HR : rel_of (scale c) (dm_side np_sqrt np_pi memo axis (np_le A loc) (np_abs (memo (np_sub A loc))))
                                   (dm_side np_sqrt np_pi memo axis (np_ge A' loc') (np_abs (memo (np_sub A' loc'))))).
      { apply (dm_side_rel np_sqrt np_pi memo Hm a Ha); [|exact Hdev].
        apply (dm_mask_neg memo Hm a b Ha A A' axis H Hne Qcleb (fun x y => Qcleb y x)). intros x y. now rewrite Hdec. }
      destruct H as [Hs Hg]. destruct Hloc as [Hls Hlg]. destruct HL as [HLs HLg]. destruct HR as [HRs HRg].
      unfold loc, loc' in *. cbn [get np_where nd_map3 np_lt nd_map2 shape]. rewrite Hs, Hls, HLs, HRs, Hg, Hlg, HLg, HRg.
      set (x := get A _) in *. set (m := get (memo (np_reduce median1 A axis true)) _) in *.
      rewrite !Qcltb_alt. rewrite Hdec. rewrite !qtrue_qbool.
      destruct (Qcleb m x) eqn:E1, (Qcleb x m) eqn:E2; cbn [negb]; try reflexivity.
      - exfalso. apply Hd. apply Qcle_antisym; now apply Qcleb_iff.
      - apply Qcleb_false in E1. apply Qcleb_false in E2. exfalso. apply Hd. now apply Qcle_antisym. Qed.
  End DM.
End Equiv.

(** * lane handling on the pinned tree: what holds (partial) and what does not (refuted) *)
Require Import SPP.Proofs.C15_view SPP.Proofs.C15_lanes SPP.Proofs.C15_lanes2 SPP.Proofs.C15_glue.

Section Lanes.
  Variables (np_sqrt : Qc -> Qc) (np_pi : Qc) (memo : nd -> nd).
  Hypothesis Hm : memo_ok memo.

  Lemma scale_mad_core A axis : scale_mad np_sqrt np_pi memo A axis = np_squeeze (mad_core np_sqrt np_pi memo A axis).
  Proof. reflexivity. Qed.

  (** np.squeeze(.) removes the reduced axis and nothing else exactly when no other dimension is 1 *)
  Lemma filter_kd : forall (sh : list Z) k, (k < length sh)%nat -> Forall (fun d => d <> 1) (remove_nth k sh) ->
    filter (fun d => negb (d =? 1)) (set_nth k 1 sh) = remove_nth k sh.
  Proof. induction sh as [|d sh IH]; intros [|k] Hk HF; cbn in *; try lia.
    - clear IH Hk. induction HF as [|x l Hx HF IH]; [reflexivity|]. cbn. destruct (x =? 1) eqn:E; [lia|]. cbn. now rewrite IH.
    - inversion HF as [|? ? Hd HF']; subst. destruct (d =? 1) eqn:E; [lia|]. cbn. now rewrite IH by (try assumption; lia). Qed.
  Lemma unsqueeze_kd : forall (sh : list Z) k I, (k < length sh)%nat -> length I = length sh -> Forall (fun d => d <> 1) (remove_nth k sh) ->
    unsqueeze_idx (set_nth k 1 sh) (remove_nth k I) = set_nth k 0 I.
  Proof. induction sh as [|d sh IH]; intros [|k] [|i I] Hk HI HF; cbn in *; try lia.
    - f_equal. clear - HI HF. revert I HI. induction HF as [|x l Hx HF IH]; intros [|j I] HI; cbn in *; try lia; [reflexivity|].
      destruct (x =? 1) eqn:E; [lia|]. f_equal. apply IH. lia.
    - inversion HF as [|? ? Hd HF']; subst. destruct (d =? 1) eqn:E; [lia|]. f_equal. apply IH; try assumption; lia. Qed.

  Section Along.
    Variables (sh : list Z) (k0 : Z) (I0 : list Z) (A : nd).
    Hypothesis Hsh : sh <> nil.
    Hypothesis HA : shape A = sh.
    Hypothesis HI : in_range sh I0.
    Let k := axis_of sh k0.
    Hypothesis Hn : 1 <= nth k sh 0.
    Hypothesis Hdims : Forall (fun d => d <> 1) (remove_nth k sh).     (* no other axis of length 1 *)

    Theorem scale_mad_lane_partial :
      shape (scale_mad np_sqrt np_pi memo A (Some k0)) = remove_nth k sh /\
      get (scale_mad np_sqrt np_pi memo A (Some k0)) (remove_nth k I0) = get (scale_mad np_sqrt np_pi memo (of_vec (lane A k I0)) None) nil.
    Proof. rewrite !scale_mad_core. unfold k, axis_of in *. set (kk := Z.to_nat (k0 mod Z.of_nat (length sh))) in *.
      pose proof (k_lt sh k0 I0 Hsh HI) as Hk. fold kk in Hk. pose proof (in_range_length _ _ HI) as LI.
      pose proof (LRF_lane sh k0 I0 A Hsh HA HI ltac:(fold kk; lia)) as HF. cbv zeta in HF. fold kk in HF.
      pose proof (lane_view_ok sh k0 I0 Hsh HI) as HV. pose proof (vec_view_ok (nth kk sh 0) ltac:(lia)) as HW.
      pose proof (mad_core_LR _ _ HV HW eq_refl np_sqrt np_pi memo Hm A _ HF) as HC. cbn [v_axis lane_view vec_view] in HC.
      assert (SM : shape (mad_core np_sqrt np_pi memo A (Some k0)) = set_nth kk 1 sh).
      { rewrite (mad_core_shape np_sqrt np_pi memo Hm) by (now rewrite HA). unfold np_reduce, reduce_axis, norm_axis, ndim. cbn [shape]. now rewrite HA. }
      unfold np_squeeze at 1 2. cbn [shape get]. rewrite SM. rewrite filter_kd by assumption. split; [reflexivity|].
      rewrite unsqueeze_kd by assumption.
      assert (SY : shape (mad_core np_sqrt np_pi memo (of_vec (lane A kk I0)) None) = 1 :: nil).
      { rewrite (mad_core_shape np_sqrt np_pi memo Hm) by (cbn; discriminate). reflexivity. }
      destruct (squeeze_one _ 0 SY) as [_ G2]. rewrite G2.
      assert (E0 := lr_rd _ _ _ _ HC 0 ltac:(cbn [v_n lane_view]; fold kk; lia)). cbn [v_fam lane_view vec_view] in E0. fold kk in E0. rewrite <- E0.
      unfold rd. rewrite SM. rewrite bidx_eqlen by now rewrite !set_nth_length.
      rewrite clamp_kd by (try assumption; apply in_range_set_nth; try assumption; lia). now rewrite set_nth_set_nth. Qed.
  End Along.

  (** a 1-D array: reducing along axis 0 is reducing everything *)
  Lemma reduce_1d_axis0 f X n : shape X = n :: nil ->
    shape (np_reduce f X (Some 0) false) = nil /\ get (np_reduce f X (Some 0) false) nil = f (ravel X).
  Proof. intro HX. unfold np_reduce, reduce_axis, norm_axis, ndim. rewrite HX. cbn [length shape get remove_nth insert_nth].
    change (Z.to_nat (0 mod Z.of_nat 1)) with 0%nat. cbn [remove_nth insert_nth]. split; [reflexivity|].
    unfold lane, ravel. rewrite HX. cbn [nth set_nth]. rewrite all_idx_1, map_map. reflexivity. Qed.

  (** Sn on 1-D data: axis=0 and axis=None coincide (both reduce the one axis there is) *)
  Theorem scale_sn_1d_partial l :
    get (scale_sn memo (of_vec l) (Some 0)) nil = get (scale_sn memo (of_vec l) None) nil.
  Proof. unfold scale_sn. cbv zeta.
    set (M := memo (np_reduce median1 (memo (np_abs (np_pairdiff_last (of_vec l)))) (Some (-1)) false)).
    assert (SM : shape M = vlen l :: nil).
    { unfold M. rewrite (memo_shape memo Hm). unfold np_reduce, reduce_axis, norm_axis, ndim. rewrite (memo_shape memo Hm). reflexivity. }
    destruct (reduce_1d_axis0 median1 M (vlen l) SM) as [S0 G0].
    cbn [get np_mul nd_map2 scalar shape]. rewrite S0. cbn [bidx clamp skipn length Nat.sub]. rewrite G0. reflexivity. Qed.
End Lanes.

(** * refutations on the pinned tree (concrete stand-ins for the external functions; evaluated by vm_compute) *)
Definition est0 := estimate_scale approx_sqrt approx_pi std1 (fun _ => qz 0) cov01 nd_memo.
Definition w23 : nd := nd_of_list [2; 3] (qz 0 :: qz 1 :: qz 5 :: qz 10 :: qz 1 :: qz 7 :: nil).

(** _scale_sn with axis=0: the value for column 0 of a 2 x 3 array is not the Sn of that column *)
Example sn_axis0_refuted :
  match est0 w23 S_sn (Some 0) false, est0 (of_vec (lane w23 0 [0; 0])) S_sn None false with
  | Some B, Some v => Qceqb (get B [0]) (item v) | _, _ => true end = false.
Proof. vm_compute. reflexivity. Qed.
(** ... and with axis=None it is not the Sn of the flattened data *)
Example sn_none_refuted :
  match est0 w23 S_sn None false, est0 (of_vec (ravel w23)) S_sn None false with
  | Some B, Some v => Qceqb (item B) (item v) | _, _ => true end = false.
Proof. vm_compute. reflexivity. Qed.
(** np.squeeze(.) in _scale_mad / _scale_iqr: a 1 x 3 array, axis=1, keepdims=True raises (AxisError in np.expand_dims) *)
Example squeeze_keepdims_refuted :
  est0 (nd_of_list [1; 3] (qz 0 :: qz 1 :: qz 5 :: nil)) S_mad (Some 1) true = None /\
  est0 (nd_of_list [1; 3] (qz 0 :: qz 1 :: qz 5 :: nil)) S_iqr (Some 1) true = None.
Proof. vm_compute. split; reflexivity. Qed.
(** _scale_doublemad under x -> -x: the scale of the sample at the median changes (right MAD before, left MAD after) *)
Example doublemad_neg_refuted :
  let x := of_vec (qz 0 :: qz 1 :: qz 3 :: nil) in
  let y := nd_map (affine (qz (-1)) (qz 0)) x in
  Qceqb (get (scale_doublemad approx_sqrt approx_pi nd_memo y None) [1])
        (scale (Qcabs (qz (-1))) (get (scale_doublemad approx_sqrt approx_pi nd_memo x None) [1])) = false.
Proof. vm_compute. reflexivity. Qed.
