(** C15 -- the statements of Pinned/C15_props.v, instantiated with the materialising [nd_memo]. *)
From Coq Require Import ZArith List Bool QArith Qcanon Qcabs Lia.
Require Import SPP.Base.Rt SPP.Model.C15_np SPP.Gen.Stats.
Require Import SPP.Proofs.C15_lib SPP.Proofs.C15_order SPP.Proofs.C15_rel SPP.Proofs.C15_equiv SPP.Proofs.C15_view SPP.Proofs.C15_lanes
               SPP.Proofs.C15_lanes2 SPP.Proofs.C15_glue SPP.Pinned.C15_pinned.
Import ListNotations.
Open Scope Z_scope.
Notation mo := memo_ok_nd_memo.
Ltac fin := first [exact mo | assumption | eassumption | exact (fun x : Qc => x) | exact (qz 0) | exact (fun _ : vec => qz 0) | exact (fun _ _ : vec => qz 0)].

Lemma p_iqr_equivariant : forall (a b : Qc), a <> Q2Qc 0 -> forall A A' axis, rel_of (affine a b) A A' -> lanes_nonempty A axis ->
  rel_of (scale (Qcabs a)) (scale_iqr nd_memo A axis) (scale_iqr nd_memo A' axis).
Proof. intros. eapply scale_iqr_equivariant; fin. Qed.

Lemma p_mad_equivariant : forall np_sqrt np_pi (a b : Qc), a <> Q2Qc 0 -> forall A A' axis, rel_of (affine a b) A A' -> lanes_nonempty A axis ->
  rel_of (scale (Qcabs a)) (scale_mad np_sqrt np_pi nd_memo A axis) (scale_mad np_sqrt np_pi nd_memo A' axis).
Proof. intros. eapply scale_mad_equivariant; fin. Qed.

Lemma p_qn_equivariant : forall (a b : Qc), a <> Q2Qc 0 -> forall A A' axis, rel_of (affine a b) A A' ->
  rel_of (scale (Qcabs a)) (scale_qn nd_memo A axis) (scale_qn nd_memo A' axis).
Proof. intros. eapply scale_qn_equivariant; fin. Qed.

Lemma p_sn_equivariant : forall (a b : Qc), a <> Q2Qc 0 -> forall A A' axis, rel_of (affine a b) A A' ->
  rel_of (scale (Qcabs a)) (scale_sn nd_memo A axis) (scale_sn nd_memo A' axis).
Proof. intros. eapply scale_sn_equivariant; fin. Qed.

Lemma p_gapper_equivariant : forall np_sqrt np_pi (a b : Qc), a <> Q2Qc 0 -> forall A A' axis, rel_of (affine a b) A A' ->
  rel_of (scale (Qcabs a)) (scale_gapper np_sqrt np_pi nd_memo A axis) (scale_gapper np_sqrt np_pi nd_memo A' axis).
Proof. intros. eapply scale_gapper_equivariant; fin. Qed.

Lemma p_doublemad_equivariant_pos_partial : forall np_sqrt np_pi (a b : Qc), a <> Q2Qc 0 -> forall A A' axis,
  rel_of (affine a b) A A' -> lanes_nonempty A axis -> (Q2Qc 0 < a)%Qc ->
  rel_of (scale (Qcabs a)) (scale_doublemad np_sqrt np_pi nd_memo A axis) (scale_doublemad np_sqrt np_pi nd_memo A' axis).
Proof. intros. eapply scale_doublemad_equivariant_pos; fin. Qed.

Lemma p_doublemad_equivariant_neg_partial : forall np_sqrt np_pi (a b : Qc), a <> Q2Qc 0 -> forall A A' axis,
  rel_of (affine a b) A A' -> lanes_nonempty A axis -> (a < Q2Qc 0)%Qc -> forall idx,
  (let J := bidx (bshape (shape A) (shape (nd_memo (np_reduce median1 A axis true)))) idx in
   get A (bidx (shape A) J) <> get (nd_memo (np_reduce median1 A axis true)) (bidx (shape (nd_memo (np_reduce median1 A axis true))) J)) ->
  get (scale_doublemad np_sqrt np_pi nd_memo A' axis) idx = scale (Qcabs a) (get (scale_doublemad np_sqrt np_pi nd_memo A axis) idx).
Proof. intros. eapply scale_doublemad_equivariant_neg_partial; fin. Qed.

Lemma p_qn_lanes : forall sh k0 I0 A, sh <> nil -> shape A = sh -> in_range sh I0 ->
  shape (scale_qn nd_memo A (Some k0)) = remove_nth (axis_of sh k0) sh /\
  get (scale_qn nd_memo A (Some k0)) (remove_nth (axis_of sh k0) I0) = get (scale_qn nd_memo (of_vec (lane A (axis_of sh k0) I0)) None) nil.
Proof. intros. eapply scale_qn_lane; fin. Qed.

Lemma p_gapper_lanes : forall np_sqrt np_pi sh k0 I0 A, sh <> nil -> shape A = sh -> in_range sh I0 ->
  shape (scale_gapper np_sqrt np_pi nd_memo A (Some k0)) = remove_nth (axis_of sh k0) sh /\
  get (scale_gapper np_sqrt np_pi nd_memo A (Some k0)) (remove_nth (axis_of sh k0) I0)
  = get (scale_gapper np_sqrt np_pi nd_memo (of_vec (lane A (axis_of sh k0) I0)) None) nil.
Proof. intros. eapply scale_gapper_lane; fin. Qed.

Lemma p_diffcov_lanes : forall np_sqrt np_cov01 sh k0 I0 A, sh <> nil -> shape A = sh -> in_range sh I0 ->
  shape (scale_diffcov np_sqrt np_cov01 nd_memo A (Some k0)) = remove_nth (axis_of sh k0) sh /\
  get (scale_diffcov np_sqrt np_cov01 nd_memo A (Some k0)) (remove_nth (axis_of sh k0) I0)
  = get (scale_diffcov np_sqrt np_cov01 nd_memo (of_vec (lane A (axis_of sh k0) I0)) None) nil.
Proof. intros. eapply scale_diffcov_lane; fin. Qed.

Lemma p_biweight_lanes : forall biweight1 sh k0 I0 A, sh <> nil -> shape A = sh -> in_range sh I0 ->
  shape (scale_biweight biweight1 A (Some k0)) = remove_nth (axis_of sh k0) sh /\
  get (scale_biweight biweight1 A (Some k0)) (remove_nth (axis_of sh k0) I0)
  = get (scale_biweight biweight1 (of_vec (lane A (axis_of sh k0) I0)) None) nil.
Proof. intros. eapply scale_biweight_lane; fin. Qed.

Lemma p_mad_lanes_partial : forall np_sqrt np_pi sh k0 I0 A, sh <> nil -> shape A = sh -> in_range sh I0 ->
  1 <= nth (axis_of sh k0) sh 0 -> Forall (fun d => d <> 1) (remove_nth (axis_of sh k0) sh) ->
  shape (scale_mad np_sqrt np_pi nd_memo A (Some k0)) = remove_nth (axis_of sh k0) sh /\
  get (scale_mad np_sqrt np_pi nd_memo A (Some k0)) (remove_nth (axis_of sh k0) I0)
  = get (scale_mad np_sqrt np_pi nd_memo (of_vec (lane A (axis_of sh k0) I0)) None) nil.
Proof. intros. eapply scale_mad_lane_partial; fin. Qed.

Lemma p_sn_lanes_partial : forall l, get (scale_sn nd_memo (of_vec l) (Some 0)) nil = get (scale_sn nd_memo (of_vec l) None) nil.
Proof. intros. eapply scale_sn_1d_partial; fin. Qed.

Lemma p_zscore_divisor_positive : forall sh data loc scale axis, sh <> nil -> shape data = sh -> bc sh (shape loc) -> bc sh (shape scale) ->
  forall I, in_range sh I ->
  let '(z, _, s) := ztail nd_memo data loc scale axis in
  (Q2Qc 0 < rd s I)%Qc /\ rd z I = ((rd data I - rd loc I) / rd s I)%Qc /\ shape z = sh.
Proof. intros. eapply zscore_divisor_positive; fin. Qed.
