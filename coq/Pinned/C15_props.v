(** C15 on the tree WITHOUT fixes/C15-*.diff (the counterpart of Props/C15.v): what holds of the regenerated definitions
    ([..._partial] where only a regime holds) and machine-checked witnesses of what does not ([..._refuted]).
    Open findings: (1) _scale_sn reduces along the last axis first, so axis=0 / axis=None on 2-D data are not the per-lane /
    flattened Sn; (2) _scale_mad and _scale_iqr end in np.squeeze(.), which also removes other axes of length 1, after
    which np.expand_dims raises for keepdims=True; (3) _scale_doublemad gives the sample at the median the right-hand MAD,
    so x -> -x changes its scale (and its Z-score when the location is the mean). *)
From Coq Require Import ZArith List Bool QArith Qcanon Qcabs Lia.
Require Import SPP.Base.Rt SPP.Model.C15_np SPP.Gen.Stats.
Require Import SPP.Proofs.C15_lib SPP.Proofs.C15_order SPP.Proofs.C15_rel SPP.Proofs.C15_equiv SPP.Proofs.C15_view SPP.Proofs.C15_lanes
               SPP.Proofs.C15_lanes2 SPP.Proofs.C15_glue SPP.Pinned.C15_pinned SPP.Pinned.C15_mainp.
Import ListNotations.
Open Scope Z_scope.
Notation mo := memo_ok_nd_memo.

(** * equivariance: holds for every estimator but doublemad with a < 0 *)
Theorem C15p_iqr_equivariant : forall (a b : Qc), a <> Q2Qc 0 -> forall A A' axis, rel_of (affine a b) A A' -> lanes_nonempty A axis ->
  rel_of (scale (Qcabs a)) (scale_iqr nd_memo A axis) (scale_iqr nd_memo A' axis).
Proof. exact p_iqr_equivariant. Qed.
Print Assumptions C15p_iqr_equivariant.
Theorem C15p_mad_equivariant : forall np_sqrt np_pi (a b : Qc), a <> Q2Qc 0 -> forall A A' axis, rel_of (affine a b) A A' -> lanes_nonempty A axis ->
  rel_of (scale (Qcabs a)) (scale_mad np_sqrt np_pi nd_memo A axis) (scale_mad np_sqrt np_pi nd_memo A' axis).
Proof. exact p_mad_equivariant. Qed.
Print Assumptions C15p_mad_equivariant.
Theorem C15p_qn_equivariant : forall (a b : Qc), a <> Q2Qc 0 -> forall A A' axis, rel_of (affine a b) A A' ->
  rel_of (scale (Qcabs a)) (scale_qn nd_memo A axis) (scale_qn nd_memo A' axis).
Proof. exact p_qn_equivariant. Qed.
Print Assumptions C15p_qn_equivariant.
Theorem C15p_sn_equivariant : forall (a b : Qc), a <> Q2Qc 0 -> forall A A' axis, rel_of (affine a b) A A' ->
  rel_of (scale (Qcabs a)) (scale_sn nd_memo A axis) (scale_sn nd_memo A' axis).
Proof. exact p_sn_equivariant. Qed.
Print Assumptions C15p_sn_equivariant.
Theorem C15p_gapper_equivariant : forall np_sqrt np_pi (a b : Qc), a <> Q2Qc 0 -> forall A A' axis, rel_of (affine a b) A A' ->
  rel_of (scale (Qcabs a)) (scale_gapper np_sqrt np_pi nd_memo A axis) (scale_gapper np_sqrt np_pi nd_memo A' axis).
Proof. exact p_gapper_equivariant. Qed.
Print Assumptions C15p_gapper_equivariant.

Theorem C15p_doublemad_equivariant_pos_partial : forall np_sqrt np_pi (a b : Qc), a <> Q2Qc 0 -> forall A A' axis,
  rel_of (affine a b) A A' -> lanes_nonempty A axis -> (Q2Qc 0 < a)%Qc ->
  rel_of (scale (Qcabs a)) (scale_doublemad np_sqrt np_pi nd_memo A axis) (scale_doublemad np_sqrt np_pi nd_memo A' axis).
Proof. exact p_doublemad_equivariant_pos_partial. Qed.
Print Assumptions C15p_doublemad_equivariant_pos_partial.
(** a < 0: at every sample that differs from the location (J is idx itself for an index in range) *)
Theorem C15p_doublemad_equivariant_neg_partial : forall np_sqrt np_pi (a b : Qc), a <> Q2Qc 0 -> forall A A' axis,
  rel_of (affine a b) A A' -> lanes_nonempty A axis -> (a < Q2Qc 0)%Qc -> forall idx,
  (let J := bidx (bshape (shape A) (shape (nd_memo (np_reduce median1 A axis true)))) idx in
   get A (bidx (shape A) J) <> get (nd_memo (np_reduce median1 A axis true)) (bidx (shape (nd_memo (np_reduce median1 A axis true))) J)) ->
  get (scale_doublemad np_sqrt np_pi nd_memo A' axis) idx = scale (Qcabs a) (get (scale_doublemad np_sqrt np_pi nd_memo A axis) idx).
Proof. exact p_doublemad_equivariant_neg_partial. Qed.
Print Assumptions C15p_doublemad_equivariant_neg_partial.
Example C15p_doublemad_neg_refuted :
  let x := of_vec (qz 0 :: qz 1 :: qz 3 :: nil) in
  let y := nd_map (affine (qz (-1)) (qz 0)) x in
  Qceqb (get (scale_doublemad approx_sqrt approx_pi nd_memo y None) [1])
        (scale (Qcabs (qz (-1))) (get (scale_doublemad approx_sqrt approx_pi nd_memo x None) [1])) = false.
Proof. exact doublemad_neg_refuted. Qed.

(** * lanes *)
Theorem C15p_qn_lanes : forall sh k0 I0 A, sh <> nil -> shape A = sh -> in_range sh I0 ->
  shape (scale_qn nd_memo A (Some k0)) = remove_nth (axis_of sh k0) sh /\
  get (scale_qn nd_memo A (Some k0)) (remove_nth (axis_of sh k0) I0) = get (scale_qn nd_memo (of_vec (lane A (axis_of sh k0) I0)) None) nil.
Proof. exact p_qn_lanes. Qed.
Print Assumptions C15p_qn_lanes.
Theorem C15p_gapper_lanes : forall np_sqrt np_pi sh k0 I0 A, sh <> nil -> shape A = sh -> in_range sh I0 ->
  shape (scale_gapper np_sqrt np_pi nd_memo A (Some k0)) = remove_nth (axis_of sh k0) sh /\
  get (scale_gapper np_sqrt np_pi nd_memo A (Some k0)) (remove_nth (axis_of sh k0) I0)
  = get (scale_gapper np_sqrt np_pi nd_memo (of_vec (lane A (axis_of sh k0) I0)) None) nil.
Proof. exact p_gapper_lanes. Qed.
Print Assumptions C15p_gapper_lanes.
Theorem C15p_diffcov_lanes : forall np_sqrt np_cov01 sh k0 I0 A, sh <> nil -> shape A = sh -> in_range sh I0 ->
  shape (scale_diffcov np_sqrt np_cov01 nd_memo A (Some k0)) = remove_nth (axis_of sh k0) sh /\
  get (scale_diffcov np_sqrt np_cov01 nd_memo A (Some k0)) (remove_nth (axis_of sh k0) I0)
  = get (scale_diffcov np_sqrt np_cov01 nd_memo (of_vec (lane A (axis_of sh k0) I0)) None) nil.
Proof. exact p_diffcov_lanes. Qed.
Print Assumptions C15p_diffcov_lanes.
Theorem C15p_biweight_lanes : forall biweight1 sh k0 I0 A, sh <> nil -> shape A = sh -> in_range sh I0 ->
  shape (scale_biweight biweight1 A (Some k0)) = remove_nth (axis_of sh k0) sh /\
  get (scale_biweight biweight1 A (Some k0)) (remove_nth (axis_of sh k0) I0)
  = get (scale_biweight biweight1 (of_vec (lane A (axis_of sh k0) I0)) None) nil.
Proof. exact p_biweight_lanes. Qed.
Print Assumptions C15p_biweight_lanes.
(** mad: when no other axis has length 1 *)
Theorem C15p_mad_lanes_partial : forall np_sqrt np_pi sh k0 I0 A, sh <> nil -> shape A = sh -> in_range sh I0 ->
  1 <= nth (axis_of sh k0) sh 0 -> Forall (fun d => d <> 1) (remove_nth (axis_of sh k0) sh) ->
  shape (scale_mad np_sqrt np_pi nd_memo A (Some k0)) = remove_nth (axis_of sh k0) sh /\
  get (scale_mad np_sqrt np_pi nd_memo A (Some k0)) (remove_nth (axis_of sh k0) I0)
  = get (scale_mad np_sqrt np_pi nd_memo (of_vec (lane A (axis_of sh k0) I0)) None) nil.
Proof. exact p_mad_lanes_partial. Qed.
Print Assumptions C15p_mad_lanes_partial.
Example C15p_squeeze_keepdims_refuted :
  est0 (nd_of_list [1; 3] (qz 0 :: qz 1 :: qz 5 :: nil)) S_mad (Some 1) true = None /\
  est0 (nd_of_list [1; 3] (qz 0 :: qz 1 :: qz 5 :: nil)) S_iqr (Some 1) true = None.
Proof. exact squeeze_keepdims_refuted. Qed.
(** Sn: on 1-D data only *)
Theorem C15p_sn_lanes_partial : forall l, get (scale_sn nd_memo (of_vec l) (Some 0)) nil = get (scale_sn nd_memo (of_vec l) None) nil.
Proof. exact p_sn_lanes_partial. Qed.
Print Assumptions C15p_sn_lanes_partial.
Example C15p_sn_axis0_refuted :
  match est0 w23 S_sn (Some 0) false, est0 (of_vec (lane w23 0 [0; 0])) S_sn None false with
  | Some B, Some v => Qceqb (get B [0]) (item v) | _, _ => true end = false.
Proof. exact sn_axis0_refuted. Qed.
Example C15p_sn_none_refuted :
  match est0 w23 S_sn None false, est0 (of_vec (ravel w23)) S_sn None false with
  | Some B, Some v => Qceqb (item B) (item v) | _, _ => true end = false.
Proof. exact sn_none_refuted. Qed.

(** * Z-scores: the guard and the equivariance given the scale relation, as in Props/C15.v *)
Theorem C15p_zscore_divisor_positive : forall sh data loc scale axis, sh <> nil -> shape data = sh -> bc sh (shape loc) -> bc sh (shape scale) ->
  forall I, in_range sh I ->
  let '(z, _, s) := ztail nd_memo data loc scale axis in
  (Q2Qc 0 < rd s I)%Qc /\ rd z I = ((rd data I - rd loc I) / rd s I)%Qc /\ shape z = sh.
Proof. exact p_zscore_divisor_positive. Qed.
Print Assumptions C15p_zscore_divisor_positive.
