(** Generic loop lemmas: scatter (assign) and accumulate loops, sums. *)
From Coq Require Import ZArith List Bool Lia ZifyBool.
Require Import SPP.Base.Rt.
Import ListNotations.
Open Scope Z_scope.
Ltac Zify.zify_post_hook ::= Z.to_euclidean_division_equations.

Lemma upd_same a k v : upd a k v k = v.
Proof. unfold upd. now rewrite Z.eqb_refl. Qed.
Lemma upd_other a k v j : j <> k -> upd a k v j = a j.
Proof. unfold upd. intro H. destruct (Z.eqb_spec j k); congruence. Qed.

Lemma iter_S {St} n (body : Z -> St -> St) s : iter (S n) body s = body (Z.of_nat n) (iter n body s).
Proof. reflexivity. Qed.

Lemma iter_ext {St} n (f g : Z -> St -> St) s :
  (forall i t, 0 <= i < Z.of_nat n -> f i t = g i t) -> iter n f s = iter n g s.
Proof. induction n as [|m IH]; intro E; cbn [iter]; [reflexivity|].
  rewrite IH by (intros; apply E; lia). apply E; lia. Qed.

(** an invariant carried through a counted loop *)
Lemma iter_inv {St} (P : Z -> St -> Prop) n (body : Z -> St -> St) s :
  P 0 s -> (forall i t, 0 <= i < Z.of_nat n -> P i t -> P (i + 1) (body i t)) -> P (Z.of_nat n) (iter n body s).
Proof. induction n as [|m IH]; intros H0 Hs; cbn [iter]; [exact H0|].
  replace (Z.of_nat (S m)) with (Z.of_nat m + 1) by lia. apply Hs; [lia|].
  apply IH; [exact H0|]. intros; apply Hs; [lia|assumption]. Qed.

(** a loop storing [v i] at [b + i] *)
Lemma iter_assign_affine n b v o k :
  iter n (fun i o => upd o (b + i) (v i)) o k =
  if (b <=? k) && (k <? b + Z.of_nat n) then v (k - b) else o k.
Proof. induction n as [|m IH]; cbn [iter].
  - destruct (b <=? k) eqn:?, (k <? b + Z.of_nat 0) eqn:?; cbn; try reflexivity; lia.
  - unfold upd at 1. destruct (Z.eqb_spec k (b + Z.of_nat m)) as [->|Hne].
    + replace (b + Z.of_nat m - b) with (Z.of_nat m) by lia.
      destruct (b <=? b + Z.of_nat m) eqn:?, (b + Z.of_nat m <? b + Z.of_nat (S m)) eqn:?; cbn; try reflexivity; lia.
    + rewrite IH. destruct (b <=? k) eqn:?, (k <? b + Z.of_nat m) eqn:?, (k <? b + Z.of_nat (S m)) eqn:?; cbn; try reflexivity; lia. Qed.

(** scatter: a loop storing [v i s] at an injective index [w i] (value may depend on the
    incoming array only through locations the loop never writes) *)
Lemma iter_scatter n (w v : Z -> Z) o :
  (forall i j, 0 <= i < Z.of_nat n -> 0 <= j < Z.of_nat n -> w i = w j -> i = j) ->
  (forall i, 0 <= i < Z.of_nat n -> iter n (fun i o => upd o (w i) (v i)) o (w i) = v i) /\
  (forall k, (forall i, 0 <= i < Z.of_nat n -> w i <> k) -> iter n (fun i o => upd o (w i) (v i)) o k = o k).
Proof. induction n as [|m IH]; intro Hinj.
  - split; intros; [lia|reflexivity].
  - destruct IH as [IH1 IH2]; [intros; apply Hinj; lia|]. split.
    + intros i Hi. cbn [iter]. unfold upd at 1. destruct (Z.eqb_spec (w i) (w (Z.of_nat m))) as [E|NE].
      * apply Hinj in E; try lia. now subst.
      * apply IH1. assert (i <> Z.of_nat m) by congruence. lia.
    + intros k Hk. cbn [iter]. rewrite upd_other by (intro; subst; apply (Hk (Z.of_nat m)); [lia|reflexivity]).
      apply IH2. intros; apply Hk; lia. Qed.

(** conditional sums *)
Fixpoint sumif (n : nat) (p : Z -> bool) (v : Z -> Z) : Z :=
  match n with O => 0 | S m => sumif m p v + (if p (Z.of_nat m) then v (Z.of_nat m) else 0) end.

(** accumulate: [out[w i] += v i] *)
Lemma iter_accum n w v a k :
  iter n (fun i s => upd s (w i) (s (w i) + v i)) a k = a k + sumif n (fun i => Z.eqb k (w i)) v.
Proof. induction n as [|m IH]; cbn [iter sumif]; [lia|]. unfold upd at 1.
  destruct (Z.eqb_spec k (w (Z.of_nat m))) as [->|Hne]; rewrite !IH; lia. Qed.

Lemma sum_n_ext n f h : (forall i, 0 <= i < Z.of_nat n -> f i = h i) -> sum_n n f = sum_n n h.
Proof. induction n as [|m IH]; intro E; cbn; [reflexivity|]. rewrite IH, E; auto; try lia. intros; apply E; lia. Qed.

Lemma sum_n_0 n f : (forall i, 0 <= i < Z.of_nat n -> f i = 0) -> sum_n n f = 0.
Proof. induction n as [|m IH]; intro E; cbn; [reflexivity|]. rewrite IH, E; auto; try lia. intros; apply E; lia. Qed.

Lemma sum_n_add n f g : sum_n n (fun i => f i + g i) = sum_n n f + sum_n n g.
Proof. induction n as [|m IH]; cbn; [reflexivity|]. rewrite IH. lia. Qed.

Lemma sum_n_scal n c f : sum_n n (fun i => c * f i) = c * sum_n n f.
Proof. induction n as [|m IH]; cbn; [lia|]. rewrite IH. lia. Qed.

Lemma sum_n_const n c : sum_n n (fun _ => c) = Z.of_nat n * c.
Proof. induction n as [|m IH]; cbn [sum_n]; [lia|]. rewrite IH. lia. Qed.

Lemma sum_n_app n m f : sum_n (n + m) f = sum_n n f + sum_n m (fun i => f (Z.of_nat n + i)).
Proof. induction m as [|k IH]; cbn [sum_n].
  - rewrite Nat.add_0_r. lia.
  - rewrite Nat.add_succ_r. cbn [sum_n]. rewrite IH. rewrite Nat2Z.inj_add. lia. Qed.

Lemma sumif_true n v : sumif n (fun _ => true) v = sum_n n v.
Proof. induction n as [|m IH]; cbn; [reflexivity|]. now rewrite IH. Qed.

Lemma sumif_false n p v : (forall i, 0 <= i < Z.of_nat n -> p i = false) -> sumif n p v = 0.
Proof. induction n as [|m IH]; intro E; cbn; [reflexivity|]. rewrite IH, E; try lia. intros; apply E; lia. Qed.

Lemma sumif_ext n p q v u : (forall i, 0 <= i < Z.of_nat n -> p i = q i /\ (p i = true -> v i = u i)) -> sumif n p v = sumif n q u.
Proof. induction n as [|m IH]; intro E; cbn; [reflexivity|]. rewrite IH by (intros; apply E; lia).
  destruct (E (Z.of_nat m)) as [<- Hv]; [lia|]. destruct (p (Z.of_nat m)); [rewrite Hv by reflexivity|]; reflexivity. Qed.

(** exactly one index hits *)
Lemma sumif_single n p v j : 0 <= j < Z.of_nat n -> p j = true ->
  (forall i, 0 <= i < Z.of_nat n -> i <> j -> p i = false) -> sumif n p v = v j.
Proof. induction n as [|m IH]; intros Hj Hp Ho; [lia|]. cbn [sumif].
  destruct (Z.eq_dec j (Z.of_nat m)) as [->|Hne].
  - rewrite Hp. rewrite sumif_false; [lia|]. intros; apply Ho; lia.
  - rewrite (Ho (Z.of_nat m)) by lia. rewrite IH; try lia; auto. intros; apply Ho; lia. Qed.

Lemma to_list_length n a : length (to_list n a) = Z.to_nat n.
Proof. unfold to_list. now rewrite map_length, seq_length. Qed.

Lemma to_list_nth n a i d : (i < Z.to_nat n)%nat -> nth i (to_list n a) d = a (Z.of_nat i).
Proof. intro H. unfold to_list.
  rewrite nth_indep with (d' := a (Z.of_nat 0)) by now rewrite map_length, seq_length.
  rewrite (map_nth (fun i => a (Z.of_nat i))), seq_nth by assumption. reflexivity. Qed.

Lemma zrange_length n : length (zrange n) = Z.to_nat n.
Proof. unfold zrange. now rewrite map_length, seq_length. Qed.

Lemma In_zrange n i : In i (zrange n) <-> 0 <= i < n.
Proof. unfold zrange. rewrite in_map_iff. split.
  - intros [k [<- Hk]]. apply in_seq in Hk. lia.
  - intros H. exists (Z.to_nat i). split; [lia|]. apply in_seq. lia. Qed.
