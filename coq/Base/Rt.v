(** Runtime prelude shared by the generated (Gen/) definitions: functional arrays,
    counted loops and finite sums.  Definitions only; lemmas live in Base/Iter.v. *)
From Coq Require Import ZArith List Bool.
Import ListNotations.
Open Scope Z_scope.

(** arrays are total functions; every theorem carries explicit in-bounds hypotheses *)
Definition arr := Z -> Z.
Definition upd (a : arr) (k v : Z) : arr := fun j => if Z.eqb j k then v else a j.
Definition zeros : arr := fun _ => 0.

(** a[:n] = 0 *)
Definition zero_prefix (a : arr) (n : Z) : arr := fun k => if (0 <=? k) && (k <? n) then 0 else a k.

(** [iter n body s]: the Python loop [for i in range(n): s = body i s] *)
Fixpoint iter {St : Type} (n : nat) (body : Z -> St -> St) (s : St) : St :=
  match n with O => s | S m => body (Z.of_nat m) (iter m body s) end.

Fixpoint sum_n (n : nat) (f : Z -> Z) : Z :=
  match n with O => 0 | S m => sum_n m f + f (Z.of_nat m) end.

(** np.sum(a[lo:hi]) for lo <= hi *)
Definition sum_range (a : arr) (lo hi : Z) : Z := sum_n (Z.to_nat (hi - lo)) (fun i => a (lo + i)).

Definition of_list (l : list Z) : arr := fun k => if k <? 0 then 0 else nth (Z.to_nat k) l 0.
Definition to_list (n : Z) (a : arr) : list Z := map (fun i => a (Z.of_nat i)) (seq 0 (Z.to_nat n)).

(** range(n) as a list of Z *)
Definition zrange (n : Z) : list Z := map Z.of_nat (seq 0 (Z.to_nat n)).

(** Python floor division and modulo coincide with Coq's [/] and [mod] on Z
    (both round towards minus infinity, sign of the divisor). *)
Definition py_divmod (a b : Z) : Z * Z := (a / b, a mod b).

(** np.where(offset < cumsum)[0][0]: index of the first element greater than [offset] *)
Fixpoint find_first_lt (offset : Z) (l : list Z) : Z :=
  match l with [] => 0 | c :: r => if offset <? c then 0 else 1 + find_first_lt offset r end.

Definition list_eqb (a b : list Z) : bool :=
  if list_eq_dec Z.eq_dec a b then true else false.
